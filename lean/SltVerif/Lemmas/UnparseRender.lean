/-
C05, step 1: what `Display` writes for a record (`unparse`) followed by the writer's line feed is
the text of the lines of its canonical item — `writeRecords R = linesToText (render (canonItems R))`.
-/
import SltVerif.Lemmas.UnparseText
namespace Slt

variable (cfg : PCfg)

/-! ### header lines -/

theorem joinSp_retry (xs : List Str) (hx : xs ≠ []) (rt : Option Retry) :
    joinSp (xs ++ retryToks (canonRetry rt)) = joinSp xs ++ Retry.fmt rt := by
  cases rt with
  | none => simp [canonRetry, retryToks, Retry.fmt]
  | some r =>
    rw [canonRetry, retryToks, joinSp_append xs _ hx (by simp [RetryTok.toks])]
    simp [RetryTok.toks, joinSp, joinWith, Retry.fmt, kw]

theorem canonErr_toks (e : ExpErr) (rt : Option Retry) (h : e.Ok cfg rt) :
    joinSp (kw "error" :: (canonErr e).toks) = e.fmtInline := by
  cases e with
  | empty => rfl
  | multi t => rfl
  | inline re =>
    obtain ⟨hne, hj, _, _, _⟩ := h
    have hw : words re ≠ [] := by
      intro hw; rw [hw] at hj; exact hne hj.symm
    simp only [canonErr, ErrForm.toks, ExpErr.fmtInline]
    rw [joinSp_cons _ _ hw, hj]
    simp [kw]

theorem canonStmt_toks (e : SExp) (rt : Option Retry) (h : e.Ok cfg rt) :
    joinSp (canonStmt e).toks = e.fmtHeader := by
  cases e with
  | ok => rfl
  | count n => simp [canonStmt, StmtForm.toks, SExp.fmtHeader, joinSp, joinWith, kw]
  | error e => exact canonErr_toks cfg e rt h

theorem stmtForm_toks_ne_nil (f : StmtForm) : f.toks ≠ [] := by
  cases f <;> simp [StmtForm.toks]

/-- header line of a statement -/
theorem stmt_header (e : SExp) (rt : Option Retry) (h : e.Ok cfg rt) :
    joinSp (kw "statement" :: (canonStmt e).toks ++ retryToks (canonRetry rt)) =
      kw "statement " ++ e.fmtHeader ++ Retry.fmt rt := by
  rw [List.cons_append, joinSp_cons _ _ (by simp [stmtForm_toks_ne_nil]),
    joinSp_retry _ (stmtForm_toks_ne_nil _), canonStmt_toks cfg e rt h]
  simp [kw]

/-- header line of a query -/
theorem query_header (e : QExp) (rt : Option Retry) (h : e.Ok cfg rt) :
    hdrLine (kw "query" :: (canonQuery e).toks ++ retryToks (canonRetry rt))
        (queryLay (canonQuery e) (kw "query" :: (canonQuery e).toks ++ retryToks (canonRetry rt))) =
      kw "query " ++ e.fmtHeader ++ Retry.fmt rt := by
  cases e with
  | error e =>
    simp only [canonQuery, queryLay, hdrLine_canonLay, QueryForm.toks, QExp.fmtHeader]
    rw [List.cons_append, joinSp_cons _ _ (by simp), joinSp_retry _ (by simp),
      canonErr_toks cfg e rt h]
    simp [kw]
  | results types sort rmode label res =>
    obtain ⟨_, _, hemp, _, _⟩ := h
    by_cases ht : types = []
    · obtain ⟨hs, hl, hr⟩ := hemp ht
      subst ht hs hl hr
      simp [canonQuery, queryLay, QueryForm.toks, canonRetry, retryToks, hdrLine, zipSeps, joinSep,
        QExp.fmtHeader, fmtOpt, Retry.fmt, kw]
    · simp only [canonQuery, ht, ↓reduceIte, queryLay, hdrLine_canonLay, QueryForm.toks,
        QExp.fmtHeader]
      rw [List.cons_append, joinSp_cons _ _ (by simp), joinSp_retry _ (by simp)]
      cases sort <;> cases label <;>
        simp [joinSp, joinWith, fmtOpt, kw]

/-- header line of a system record -/
theorem system_header (rt : Option Retry) :
    joinSp (kw "system" :: kw "ok" :: retryToks (canonRetry rt)) =
      kw "system ok" ++ Retry.fmt rt := by
  have := joinSp_retry [kw "system", kw "ok"] (by simp) rt
  simp only [List.cons_append, List.nil_append] at this
  rw [this]
  simp [joinSp, joinWith, kw]

/-! ### blocks -/

/-- header, SQL / command text, and what follows it -/
theorem block_text (hdr sql blk : Str) (tail : Tail)
    (hblk : blk ++ ['\n'] = linesToText (tail.body ++ tail.term)) :
    (hdr ++ ['\n'] ++ sql ++ ['\n'] ++ blk) ++ ['\n'] =
      linesToText ((hdr :: blockHead sql :: blockRest sql ++ tail.body) ++ tail.term) := by
  have e : hdr :: blockHead sql :: blockRest sql = hdr :: splitNl sql := by rw [splitNl_eq_cons]
  rw [linesToText_append] at hblk
  rw [e]
  simp only [List.cons_append, linesToText_cons, linesToText_append, linesToText_splitNl,
    List.append_assoc, ← hblk, List.nil_append]

theorem multi_block (t : Str) (h : MultiTextOk t) :
    fmtMultiText t ++ ['\n'] =
      linesToText ((Tail.multi (textLines t)).body ++ (Tail.multi (textLines t)).term) := by
  simp only [Tail.body, Tail.term, List.cons_append, linesToText_cons, linesToText_append,
    linesToText_textLines, linesToText_nil, fmtMultiText, h.1]
  split <;> simp [kw]

theorem err_block (e : ExpErr) (rt : Option Retry) (h : e.Ok cfg rt) :
    e.fmtMultiline ++ ['\n'] =
      linesToText ((canonErr e).tail.body ++ (canonErr e).tail.term) := by
  cases e with
  | empty => rfl
  | inline re => rfl
  | multi t => exact multi_block t h

theorem stmt_block (e : SExp) (rt : Option Retry) (h : e.Ok cfg rt) :
    e.fmtBlock ++ ['\n'] =
      linesToText ((canonStmt e).tail.body ++ (canonStmt e).tail.term) := by
  cases e with
  | ok => rfl
  | count n => rfl
  | error e => exact err_block cfg e rt h

theorem query_block (e : QExp) (rt : Option Retry) (h : e.Ok cfg rt) :
    e.fmtBlock ++ ['\n'] =
      linesToText ((canonQuery e).tail.body ++ (canonQuery e).tail.term) := by
  cases e with
  | error e => exact err_block cfg e rt h
  | results types sort rmode label res =>
    have key : QExp.fmtBlock (.results types sort rmode label res) ++ ['\n'] =
        linesToText ((Tail.results res).body ++ (Tail.results res).term) := by
      simp only [QExp.fmtBlock, Tail.body, Tail.term, List.cons_append, linesToText_cons,
        linesToText_append, linesToText_nil]
      rw [flatMap_nl_shift]
      simp
    by_cases ht : types = [] <;>
      simpa [canonQuery, ht, QueryForm.tail, resultsTail] using key

/-! ### one record -/

/-- **One record**: `Display` plus the writer's line feed = the lines of the canonical item. -/
theorem unparse_canon (r : Rec) (h : RecOk cfg r) :
    (unparse r).map (· ++ ['\n']) = some (linesToText (renderItem (canonItem r))) := by
  cases r with
  | statement l c cn sql e rt =>
    obtain ⟨_, he, _⟩ := h
    simp only [unparse, Option.map_some, Option.some.injEq, canonItem, renderItem, renderOpen,
      Item.term, Item.tail?, Item.toks, hdrLine_canonLay]
    rw [stmt_header cfg e rt he]
    exact block_text _ sql _ _ (stmt_block cfg e rt he)
  | query l c cn sql e rt =>
    obtain ⟨_, he, _⟩ := h
    simp only [unparse, Option.map_some, Option.some.injEq, canonItem, renderItem, renderOpen,
      Item.term, Item.tail?, Item.toks]
    rw [query_header cfg e rt he]
    exact block_text _ sql _ _ (query_block cfg e rt he)
  | system l c cmd o rt =>
    obtain ⟨_, ho, _⟩ := h
    simp only [unparse, Option.map_some, Option.some.injEq, canonItem, renderItem, renderOpen,
      Item.term, Item.tail?, Item.toks, hdrLine_canonLay]
    rw [system_header rt]
    cases o with
    | none => exact block_text _ cmd [] .plain rfl
    | some t => exact block_text _ cmd _ _ (multi_block t ho)
  | comment ls =>
    obtain ⟨hne, _⟩ := h
    have hne' : ls.map (fun l => '#' :: trimEnd l) ≠ [] := by simpa using hne
    simp only [unparse, Option.map_some, Option.some.injEq, canonItem, renderItem, renderOpen,
      Item.term, Item.tail?, List.append_nil, List.map_map]
    exact (linesToText_eq_joinNl _ hne').symm
  | condition c =>
    cases c <;>
      simp [unparse, canonItem, renderItem, renderOpen, Item.term, Item.tail?, Item.toks,
        hdrLine_canonLay, linesToText, joinSp, joinWith, Cond.fmt, kw]
  | connection c =>
    cases c <;>
      simp [unparse, canonItem, renderItem, renderOpen, Item.term, Item.tail?, Item.toks,
        hdrLine_canonLay, linesToText, joinSp, joinWith, kw]
  | control c =>
    cases c with
    | substitution b =>
      cases b <;>
        simp [unparse, canonItem, renderItem, renderOpen, Item.term, Item.tail?, Item.toks,
          hdrLine_canonLay, linesToText, joinSp, joinWith, Control.fmt, Control.toks, kw]
    | _ =>
      simp [unparse, canonItem, renderItem, renderOpen, Item.term, Item.tail?, Item.toks,
        hdrLine_canonLay, linesToText, joinSp, joinWith, Control.fmt, Control.toks, kw]
  | beginInclude f => exact absurd h (by simp [RecOk])
  | endInclude f => exact absurd h (by simp [RecOk])
  | _ =>
    simp [unparse, canonItem, renderItem, renderOpen, Item.term, Item.tail?, Item.toks,
      hdrLine_canonLay, linesToText, joinSp, joinWith, kw]

/-- **The written file**: every record followed by a line feed = the text of the lines of the
canonical script. -/
theorem writeRecords_canon (R : List Rec) (h : ∀ r ∈ R, RecOk cfg r) :
    writeRecords R = some (linesToText (render (canonItems R))) := by
  induction R with
  | nil => rfl
  | cons r rs ih =>
    have h1 := unparse_canon cfg r (h r (by simp))
    have h2 := ih (fun x hx => h x (by simp [hx]))
    cases hu : unparse r with
    | none => simp [hu] at h1
    | some u =>
      simp only [hu, Option.map_some, Option.some.injEq] at h1
      simp only [writeRecords, hu, h2, canonItems, List.map_cons, render, List.flatMap_cons,
        linesToText_append, ← h1]
      simp

end Slt
