/-
Text lemmas for property C05: single-blank joins, the canonical header layout, `splitNl` /
`joinNl`, `linesToText` / `lines`, the tail normalisation on a text given by its lines, `trimEnd`.
-/
import SltVerif.Canon
import SltVerif.Lemmas.ParserLines
import SltVerif.Lemmas.ParserSim
import SltVerif.Lemmas.ParserRef
namespace Slt

/-! ### single-blank joins -/

theorem joinSp_singleton (t : Str) : joinSp [t] = t := rfl

theorem joinSp_cons (a : Str) (ts : List Str) (hne : ts ≠ []) :
    joinSp (a :: ts) = a ++ ' ' :: joinSp ts := by
  cases ts with
  | nil => exact absurd rfl hne
  | cons u us => simp [joinSp, joinWith]

theorem joinSp_append (xs ys : List Str) (hx : xs ≠ []) (hy : ys ≠ []) :
    joinSp (xs ++ ys) = joinSp xs ++ ' ' :: joinSp ys := by
  induction xs with
  | nil => exact absurd rfl hx
  | cons a xs ih =>
    cases xs with
    | nil => exact joinSp_cons a ys hy
    | cons b xs =>
      rw [List.cons_append, joinSp_cons a _ (by simp), ih (by simp), joinSp_cons a _ (by simp)]
      simp

/-! ### the canonical layout -/

theorem canonSeps_succ (n : Nat) : canonSeps (n + 1) = List.replicate n [' '] ++ [[]] := by
  induction n with
  | zero => rfl
  | succ n ih => rw [canonSeps, ih]; rfl

theorem canonSeps_length (n : Nat) : (canonSeps n).length = n := by
  cases n with
  | zero => rfl
  | succ n => simp [canonSeps_succ]

theorem hdrLine_canonLay (toks : List Str) : hdrLine toks (canonLay toks) = joinSp toks := by
  unfold hdrLine canonLay
  simp only [List.nil_append]
  induction toks with
  | nil => rfl
  | cons t ts ih =>
    cases ts with
    | nil => simp [canonSeps, zipSeps, joinSep, joinSp, joinWith]
    | cons u us =>
      rw [joinSp_cons t _ (by simp), ← ih]
      simp [canonSeps, zipSeps, joinSep]

theorem layOk_canonLay (toks : List Str) : LayOk toks (canonLay toks) := by
  refine ⟨(by intro c hc; cases hc), canonSeps_length _, ?_, ?_⟩
  · intro s hs
    simp only [canonLay] at hs
    cases h : toks.length with
    | zero => simp [h, canonSeps] at hs
    | succ n =>
      rw [h, canonSeps_succ] at hs
      simp only [List.mem_append, List.mem_replicate, List.mem_singleton] at hs
      rcases hs with ⟨_, rfl⟩ | rfl
      · intro c hc; simp at hc; subst hc; decide
      · intro c hc; cases hc
  · intro s hs
    simp only [canonLay] at hs
    cases h : toks.length with
    | zero => simp [h, canonSeps] at hs
    | succ n =>
      rw [h, canonSeps_succ, List.dropLast_concat] at hs
      simp only [List.mem_replicate] at hs
      rw [hs.2]; simp

/-- a single-blank join of words has no line feed and does not end in a carriage return -/
theorem joinSp_noWs (toks : List Str) (htok : ∀ t ∈ toks, IsTok isWs t) :
    ∀ c ∈ joinSp toks, c = ' ' ∨ isWs c = false := by
  induction toks with
  | nil => intro c hc; cases hc
  | cons t ts ih =>
    cases ts with
    | nil => intro c hc; right; exact (htok t (by simp)).2 c hc
    | cons u us =>
      intro c hc
      rw [joinSp_cons t _ (by simp)] at hc
      simp only [List.mem_append, List.mem_cons] at hc
      rcases hc with hc | rfl | hc
      · right; exact (htok t (by simp)).2 c hc
      · left; rfl
      · exact ih (fun x hx => htok x (by simp [hx])) c (by simpa using hc)

theorem lineOk_of_chars (l : Str) (h : ∀ c ∈ l, c = ' ' ∨ isWs c = false) : LineOk l := by
  constructor
  · intro hm
    rcases h _ hm with h1 | h1
    · exact absurd h1 (by decide)
    · exact absurd h1 (by decide)
  · intro hl
    have hm : '\r' ∈ l := List.mem_of_getLast? hl
    rcases h _ hm with h1 | h1
    · exact absurd h1 (by decide)
    · exact absurd h1 (by decide)

theorem lineOk_joinSp (toks : List Str) (htok : ∀ t ∈ toks, IsTok isWs t) :
    LineOk (joinSp toks) :=
  lineOk_of_chars _ (joinSp_noWs toks htok)

theorem joinSp_ne_nil' (t : Str) (ts : List Str) (ht : t ≠ []) : joinSp (t :: ts) ≠ [] := by
  cases ts with
  | nil => simpa [joinSp, joinWith] using ht
  | cons u us => simp [joinSp, joinWith, ht]

/-! ### `splitNl` / `joinNl` -/

theorem joinNl_splitNl (s : Str) : joinNl (splitNl s) = s := by
  induction s with
  | nil => rfl
  | cons c cs ih =>
    obtain ⟨l, ls, hl⟩ := List.exists_cons_of_ne_nil (splitNl_ne_nil cs)
    rw [hl] at ih
    by_cases hc : c = '\n'
    · subst hc
      simp only [splitNl, ↓reduceIte, hl]
      simp only [joinNl] at ih ⊢
      rw [joinWith_cons_cons, ih]; rfl
    · simp only [splitNl, hc, ↓reduceIte, hl]
      cases ls with
      | nil => simp only [joinNl, joinWith] at ih ⊢; rw [ih]
      | cons m ms =>
        simp only [joinNl] at ih ⊢
        rw [joinWith_cons_cons] at ih ⊢
        rw [← ih]; simp

theorem splitNl_noNl_mem (s : Str) : ∀ l ∈ splitNl s, '\n' ∉ l := by
  induction s with
  | nil => intro l hl; simp [splitNl] at hl; subst hl; simp
  | cons c cs ih =>
    obtain ⟨m, ms, hm⟩ := List.exists_cons_of_ne_nil (splitNl_ne_nil cs)
    intro l hl
    by_cases hc : c = '\n'
    · subst hc
      simp only [splitNl, ↓reduceIte, List.mem_cons] at hl
      rcases hl with rfl | hl
      · simp
      · exact ih l hl
    · simp only [splitNl, hc, ↓reduceIte, hm, List.mem_cons] at hl
      rcases hl with rfl | hl
      · have := ih m (by simp [hm])
        intro h
        simp only [List.mem_cons] at h
        rcases h with h | h
        · exact hc h.symm
        · exact this h
      · exact ih l (by simp [hm, hl])

theorem splitNl_eq_cons (s : Str) : splitNl s = blockHead s :: blockRest s := by
  obtain ⟨l, ls, hl⟩ := List.exists_cons_of_ne_nil (splitNl_ne_nil s)
  simp [blockHead, blockRest, hl]

theorem splitNl_eq_nil_iff (s : Str) : splitNl s = [[]] ↔ s = [] := by
  constructor
  · intro h
    have := joinNl_splitNl s
    rw [h] at this
    exact this.symm
  · rintro rfl; rfl

/-! ### `linesToText` -/

theorem linesToText_nil : linesToText [] = [] := rfl

theorem linesToText_cons (l : Str) (ls : List Str) :
    linesToText (l :: ls) = l ++ '\n' :: linesToText ls := by
  simp [linesToText]

theorem linesToText_append (xs ys : List Str) :
    linesToText (xs ++ ys) = linesToText xs ++ linesToText ys := by
  simp [linesToText]

theorem linesToText_eq_joinNl (ls : List Str) (hne : ls ≠ []) :
    linesToText ls = joinNl ls ++ ['\n'] :=
  flatMap_nl ls hne

theorem linesToText_splitNl (s : Str) : linesToText (splitNl s) = s ++ ['\n'] := by
  rw [linesToText_eq_joinNl _ (splitNl_ne_nil s), joinNl_splitNl]

theorem linesToText_textLines (t : Str) :
    linesToText (textLines t) = if t.isEmpty then [] else t ++ ['\n'] := by
  unfold textLines
  split
  · rfl
  · exact linesToText_splitNl t

theorem linesToText_replicate (m : Nat) :
    linesToText (List.replicate m []) = List.replicate m '\n' := by
  induction m with
  | zero => rfl
  | succ m ih => rw [List.replicate_succ, linesToText_cons, ih]; rfl

/-- result lines as `Display` writes them (line feed first) and as lines (line feed last) -/
theorem flatMap_nl_shift (x : Str) (rs : List Str) :
    x ++ rs.flatMap (fun l => '\n' :: l) ++ ['\n'] = x ++ '\n' :: linesToText rs := by
  induction rs generalizing x with
  | nil => simp [linesToText]
  | cons r rs ih =>
    have := ih (x ++ '\n' :: r)
    simp only [List.flatMap_cons, linesToText_cons] at this ⊢
    simp only [List.append_assoc, List.cons_append] at this ⊢
    exact this

/-- `str::lines` gives the lines back -/
theorem lines_linesToText (ls : List Str) (hok : ∀ l ∈ ls, LineOk l) :
    lines (linesToText ls) = ls := by
  induction ls with
  | nil => exact lines_nil
  | cons l ls ih =>
    have hl := hok l (by simp)
    rw [linesToText_cons, lines_append_nl l _ hl.1, stripCr_of_ok l hl.2,
      ih (fun x hx => hok x (by simp [hx]))]

/-! ### the tail normalisation, on lines -/

theorem dropWhile_replicate_nl (k : Nat) (q : Str) :
    (List.replicate k '\n' ++ q).dropWhile (· = '\n') = q.dropWhile (· = '\n') := by
  induction k with
  | zero => rfl
  | succ k ih => simp [List.replicate_succ, ih]

/-- After the last non-empty line all blank lines go, and exactly one line feed stays. -/
theorem normalizeTail_linesToText (ls : List Str) (l : Str) (m : Nat) (hne : l ≠ [])
    (hl : l.getLast? ≠ some '\n') :
    normalizeTail (linesToText ((ls ++ [l]) ++ List.replicate m [])) = linesToText (ls ++ [l]) := by
  have hs : linesToText ((ls ++ [l]) ++ List.replicate m []) =
      (linesToText ls ++ l) ++ List.replicate (m + 1) '\n' := by
    rw [linesToText_append, linesToText_append, linesToText_replicate, linesToText_cons,
      linesToText_nil, List.replicate_succ]
    simp
  have hr : linesToText (ls ++ [l]) = (linesToText ls ++ l) ++ ['\n'] := by
    rw [linesToText_append, linesToText_cons, linesToText_nil]; simp
  rw [hs, hr]
  generalize linesToText ls = p
  obtain ⟨c, q, hq⟩ : ∃ c q, l.reverse = c :: q := by
    cases h : l.reverse with
    | nil => exact absurd (List.reverse_eq_nil_iff.mp h) hne
    | cons c q => exact ⟨c, q, rfl⟩
  have hc : c ≠ '\n' := by
    intro h
    apply hl
    rw [← List.head?_reverse, hq, h]; rfl
  unfold normalizeTail
  have h1 : ((p ++ l) ++ List.replicate (m + 1) '\n').isEmpty = false := by
    simp [List.replicate_succ]
  have h2 : ((p ++ l) ++ List.replicate (m + 1) '\n').getLast? = some '\n' := by
    rw [List.replicate_succ', ← List.append_assoc, List.getLast?_append]; simp
  have h3 : (((p ++ l) ++ List.replicate (m + 1) '\n').reverse.dropWhile (· = '\n')).reverse =
      p ++ l := by
    rw [List.reverse_append, List.reverse_replicate, dropWhile_replicate_nl, List.reverse_append, hq]
    simp only [List.cons_append, List.dropWhile_cons, hc, decide_false, Bool.false_eq_true,
      ↓reduceIte]
    rw [← List.cons_append, ← hq, ← List.reverse_append, List.reverse_reverse]
  simp only [h1, h2, h3, Bool.false_eq_true, ↓reduceIte]

/-- only blank lines: one line feed stays -/
theorem normalizeTail_blank (m : Nat) :
    normalizeTail (linesToText (List.replicate (m + 1) [])) = ['\n'] := by
  rw [linesToText_replicate]
  unfold normalizeTail
  have h1 : (List.replicate (m + 1) '\n').isEmpty = false := by simp [List.replicate_succ]
  have h2 : (List.replicate (m + 1) '\n').getLast? = some '\n' := by
    rw [List.replicate_succ']; simp
  have h3 : ((List.replicate (m + 1) '\n').reverse.dropWhile (· = '\n')).reverse = [] := by
    rw [List.reverse_replicate]
    have := dropWhile_replicate_nl (m + 1) []
    simp only [List.append_nil] at this
    rw [this]; rfl
  simp only [h1, h2, h3, Bool.false_eq_true, ↓reduceIte, List.nil_append]

/-! ### `trimEnd` -/

theorem dropWhile_idem (p : Char → Bool) (l : Str) :
    (l.dropWhile p).dropWhile p = l.dropWhile p := by
  induction l with
  | nil => rfl
  | cons c cs ih =>
    by_cases hc : p c = true
    · simp [hc, ih]
    · simp [hc]

theorem trimEnd_idem (l : Str) : trimEnd (trimEnd l) = trimEnd l := by
  unfold trimEnd
  rw [List.reverse_reverse, dropWhile_idem]

theorem trimEnd_subset (l : Str) : ∀ c ∈ trimEnd l, c ∈ l := by
  intro c hc
  unfold trimEnd at hc
  rw [List.mem_reverse] at hc
  exact List.mem_reverse.mp ((List.dropWhile_sublist _).subset hc)

theorem trimEnd_getLast (l : Str) (c : Char) (h : (trimEnd l).getLast? = some c) :
    isWs c = false := by
  unfold trimEnd at h
  rw [List.getLast?_reverse] at h
  exact head_dropWhile_isWs _ c h

/-- a comment line as written: `#` and the right-trimmed text -/
theorem lineOk_comment (l : Str) (hl : '\n' ∉ l) : LineOk ('#' :: trimEnd l) := by
  constructor
  · intro h
    simp only [List.mem_cons] at h
    rcases h with h | h
    · exact absurd h (by decide)
    · exact hl (trimEnd_subset l _ h)
  · intro h
    cases ht : trimEnd l with
    | nil => rw [ht] at h; simp at h
    | cons a b =>
      rw [ht, List.getLast?_cons_cons] at h
      have := trimEnd_getLast l '\r' (by rw [ht]; exact h)
      exact absurd this (by decide)

end Slt
