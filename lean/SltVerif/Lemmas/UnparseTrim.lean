/-
Trimming a multi-line text, line by line.  The text the parser returns for a block of lines `t`
is `trim (joinNl t)`; here it is shown to be `joinNl (trimLines t)` — blanks-only lines at both
ends dropped, the first line left-trimmed, the last line right-trimmed — and to satisfy the guard
`MultiTextOk` of `Canon.lean` whenever `t` is a well-formed block (`multiOk`, every line `LineOk`).
-/
import SltVerif.Lemmas.UnparseText
namespace Slt

/-! ### `trim` is idempotent -/

theorem dropWhile_of_head (x : Str) (h : ∀ c, x.head? = some c → isWs c = false) :
    x.dropWhile isWs = x := by
  cases x with
  | nil => rfl
  | cons a r => simp [h a rfl]

theorem trimStart_trim (s : Str) : trimStart (trim s) = trim s :=
  dropWhile_of_head _ (trim_head s)

theorem trimEnd_trim (s : Str) : trimEnd (trim s) = trim s := by
  unfold trimEnd
  have : (trim s).reverse.dropWhile isWs = (trim s).reverse :=
    dropWhile_of_head _ (by
      intro c hc
      rw [List.head?_reverse] at hc
      exact trim_getLast s c hc)
  rw [this, List.reverse_reverse]

theorem trim_idem (s : Str) : trim (trim s) = trim s := by
  have : trim (trim s) = trimEnd (trimStart (trim s)) := rfl
  rw [this, trimStart_trim, trimEnd_trim]

/-! ### dropping blanks from the front of a text, line by line -/

/-- drop the blanks-only lines at the front, left-trim the first line that stays -/
def dropWsLines : List Str → List Str
  | [] => []
  | l :: ls => if l.all isWs then dropWsLines ls else l.dropWhile isWs :: ls

theorem dropWhile_nil_of_all (l : Str) (h : l.all isWs = true) : l.dropWhile isWs = [] := by
  induction l with
  | nil => rfl
  | cons a l ih =>
    simp only [List.all_cons, Bool.and_eq_true] at h
    simp [h.1, ih h.2]

theorem dropWhile_ne_nil_of_not_all (l : Str) (h : l.all isWs = false) : l.dropWhile isWs ≠ [] := by
  induction l with
  | nil => simp at h
  | cons a l ih =>
    by_cases ha : isWs a = true
    · simp only [List.all_cons, ha, Bool.true_and] at h
      simpa [List.dropWhile_cons, ha] using ih h
    · simp [ha]

theorem isWs_nl : isWs '\n' = true := by decide

theorem dropWhile_joinNl (t : List Str) :
    (joinNl t).dropWhile isWs = joinNl (dropWsLines t) := by
  induction t with
  | nil => rfl
  | cons l ls ih =>
    by_cases hl : l.all isWs = true
    · have h1 := dropWhile_nil_of_all l hl
      simp only [dropWsLines, hl, if_true]
      cases ls with
      | nil => simpa [joinNl, joinWith, dropWsLines] using h1
      | cons m ms =>
        rw [← ih]
        simp only [joinNl]
        rw [joinWith_cons_cons, List.append_assoc, List.dropWhile_append, h1]
        simp [isWs_nl]
    · have hl' : l.all isWs = false := by simpa using hl
      have h1 := dropWhile_ne_nil_of_not_all l hl'
      simp only [dropWsLines, hl', Bool.false_eq_true, if_false]
      cases ls with
      | nil => simp [joinNl, joinWith]
      | cons m ms =>
        simp only [joinNl]
        rw [joinWith_cons_cons, joinWith_cons_cons, List.append_assoc, List.dropWhile_append]
        simp [h1]

/-- what `dropWsLines` leaves: nothing, or a left-trimmed line and the lines after it -/
theorem dropWsLines_spec (v : List Str) :
    dropWsLines v = [] ∨ ∃ l post, (l :: post) <:+ v ∧ l.all isWs = false ∧
      dropWsLines v = l.dropWhile isWs :: post := by
  induction v with
  | nil => exact Or.inl rfl
  | cons l ls ih =>
    by_cases hl : l.all isWs = true
    · simp only [dropWsLines, hl, if_true]
      rcases ih with h | ⟨a, post, hs, ha, he⟩
      · exact Or.inl h
      · exact Or.inr ⟨a, post, hs.trans (List.suffix_cons l ls), ha, he⟩
    · have hl' : l.all isWs = false := by simpa using hl
      simp only [dropWsLines, hl', Bool.false_eq_true, if_false]
      exact Or.inr ⟨l, ls, List.suffix_refl _, hl', rfl⟩

/-! ### reversing a text, line by line -/

def revLines (u : List Str) : List Str := u.reverse.map List.reverse

theorem reverse_comp_reverse : (List.reverse ∘ List.reverse : Str → Str) = id := by
  funext x; simp

theorem revLines_revLines (u : List Str) : revLines (revLines u) = u := by
  simp [revLines, List.map_reverse, reverse_comp_reverse]

theorem joinNl_concat (xs : List Str) (l : Str) (h : xs ≠ []) :
    joinNl (xs ++ [l]) = joinNl xs ++ '\n' :: l := by
  induction xs with
  | nil => exact absurd rfl h
  | cons a xs ih =>
    cases xs with
    | nil => simp [joinNl, joinWith]
    | cons b xs =>
      have := ih (by simp)
      simp only [joinNl] at this ⊢
      rw [List.cons_append, List.cons_append, joinWith_cons_cons, ← List.cons_append, this,
        joinWith_cons_cons]
      simp

theorem reverse_joinNl (u : List Str) : (joinNl u).reverse = joinNl (revLines u) := by
  induction u with
  | nil => rfl
  | cons l ls ih =>
    cases ls with
    | nil => simp [joinNl, joinWith, revLines]
    | cons m ms =>
      have hne : revLines (m :: ms) ≠ [] := by simp [revLines]
      have : revLines (l :: m :: ms) = revLines (m :: ms) ++ [l.reverse] := by simp [revLines]
      rw [this, joinNl_concat _ _ hne, ← ih]
      simp only [joinNl]
      rw [joinWith_cons_cons]
      simp

/-- the lines of the trimmed text -/
def trimLines (t : List Str) : List Str := revLines (dropWsLines (revLines (dropWsLines t)))

/-- **`trim`, line by line** -/
theorem trim_joinNl (t : List Str) : trim (joinNl t) = joinNl (trimLines t) := by
  unfold trim trimStart trimEnd trimLines
  rw [dropWhile_joinNl, reverse_joinNl, dropWhile_joinNl, reverse_joinNl]

/-! ### what the line-wise operations preserve -/

def NoNl (u : List Str) : Prop := ∀ l ∈ u, '\n' ∉ l
def HeadNoCr (u : List Str) : Prop := ∀ l ∈ u, l.head? ≠ some '\r'
/-- no two consecutive empty lines -/
def NoTwo (u : List Str) : Prop := ¬ [[], []] <:+: u

theorem noNl_dropWsLines (v : List Str) (h : NoNl v) : NoNl (dropWsLines v) := by
  rcases dropWsLines_spec v with h0 | ⟨l, post, hs, _, he⟩
  · rw [h0]; intro x hx; cases hx
  · rw [he]
    intro x hx
    simp only [List.mem_cons] at hx
    rcases hx with rfl | hx
    · intro hm
      exact h l (hs.subset (by simp)) ((List.dropWhile_sublist _).subset hm)
    · exact h x (hs.subset (by simp [hx]))

theorem getLast?_suffix (d l : Str) (hs : d <:+ l) (c : Char) (h : d.getLast? = some c) :
    l.getLast? = some c := by
  obtain ⟨pre, rfl⟩ := hs
  rw [List.getLast?_append, h]; rfl

theorem noCr_dropWsLines (v : List Str) (h : NoCr v) : NoCr (dropWsLines v) := by
  rcases dropWsLines_spec v with h0 | ⟨l, post, hs, _, he⟩
  · rw [h0]; intro x hx; cases hx
  · rw [he]
    intro x hx
    simp only [List.mem_cons] at hx
    rcases hx with rfl | hx
    · intro hm
      exact h l (hs.subset (by simp)) (getLast?_suffix _ l (List.dropWhile_suffix _) _ hm)
    · exact h x (hs.subset (by simp [hx]))

theorem headNoCr_dropWsLines (v : List Str) (h : HeadNoCr v) : HeadNoCr (dropWsLines v) := by
  rcases dropWsLines_spec v with h0 | ⟨l, post, hs, _, he⟩
  · rw [h0]; intro x hx; cases hx
  · rw [he]
    intro x hx
    simp only [List.mem_cons] at hx
    rcases hx with rfl | hx
    · intro hm
      have := head_dropWhile_isWs l '\r' hm
      exact absurd this (by decide)
    · exact h x (hs.subset (by simp [hx]))

theorem noTwo_dropWsLines (v : List Str) (h : NoTwo v) : NoTwo (dropWsLines v) := by
  rcases dropWsLines_spec v with h0 | ⟨l, post, hs, hl, he⟩
  · rw [h0]; intro hx; simp at hx
  · rw [he]
    intro hx
    rw [List.infix_cons_iff] at hx
    rcases hx with hx | hx
    · rw [List.cons_prefix_cons] at hx
      exact dropWhile_ne_nil_of_not_all l hl hx.1.symm
    · have h1 : post <:+ v := (List.suffix_cons l post).trans hs
      exact h (hx.trans h1.isInfix)

theorem head_dropWsLines (v : List Str) : (dropWsLines v).head? ≠ some [] := by
  rcases dropWsLines_spec v with h0 | ⟨l, post, _, hl, he⟩
  · rw [h0]; simp
  · rw [he]
    simp only [List.head?_cons, ne_eq, Option.some.injEq]
    exact dropWhile_ne_nil_of_not_all l hl

theorem mem_revLines (u : List Str) (l : Str) : l ∈ revLines u ↔ l.reverse ∈ u := by
  simp only [revLines, List.mem_map, List.mem_reverse]
  constructor
  · rintro ⟨a, ha, rfl⟩; simpa using ha
  · intro h; exact ⟨l.reverse, h, by simp⟩

theorem noNl_revLines (u : List Str) (h : NoNl u) : NoNl (revLines u) := by
  intro l hl hm
  exact h _ ((mem_revLines u l).mp hl) (by simpa using hm)

theorem headNoCr_revLines (u : List Str) (h : NoCr u) : HeadNoCr (revLines u) := by
  intro l hl hm
  apply h _ ((mem_revLines u l).mp hl)
  rw [List.getLast?_reverse]; exact hm

theorem noCr_revLines (v : List Str) (h : HeadNoCr v) : NoCr (revLines v) := by
  intro l hl hm
  apply h _ ((mem_revLines v l).mp hl)
  rw [List.head?_reverse]; exact hm

theorem noTwo_revLines (u : List Str) (h : NoTwo u) : NoTwo (revLines u) := by
  intro hx
  apply h
  have h1 := List.IsInfix.map List.reverse hx
  have h2 : (revLines u).map List.reverse = u.reverse := by
    simp [revLines, reverse_comp_reverse]
  rw [h2] at h1
  have h3 : [[], []] = ([[], []] : List Str).reverse := rfl
  have h4 : List.map List.reverse ([[], []] : List Str) = [[], []] := rfl
  rw [h4, h3, List.reverse_infix] at h1
  exact h1

theorem getLast?_revLines (v : List Str) : (revLines v).getLast? = v.head?.map List.reverse := by
  simp [revLines, List.getLast?_reverse]

theorem trimLines_last (t : List Str) : (trimLines t).getLast? ≠ some [] := by
  unfold trimLines
  rw [getLast?_revLines]
  intro h
  cases hh : (dropWsLines (revLines (dropWsLines t))).head? with
  | none => rw [hh] at h; simp at h
  | some a =>
    rw [hh] at h
    simp only [Option.map_some, Option.some.injEq, List.reverse_eq_nil_iff] at h
    subst h
    exact head_dropWsLines _ hh

/-! ### `multiOk` is: no two consecutive empty lines, and the last line is not empty -/

theorem multiOk_noTwo (pend : Bool) (u : List Str) (h : multiOk pend u = true) : NoTwo u := by
  induction u generalizing pend with
  | nil => intro hx; simp at hx
  | cons a u ih =>
    intro hx
    rw [List.infix_cons_iff] at hx
    simp only [multiOk] at h
    rcases hx with hx | hx
    · -- the two empty lines are in front
      rw [List.cons_prefix_cons] at hx
      obtain ⟨ha, hx⟩ := hx
      subst ha
      cases u with
      | nil => simp at hx
      | cons b u' =>
        rw [List.cons_prefix_cons] at hx
        obtain ⟨hb, _⟩ := hx
        subst hb
        simp [multiOk] at h
    · split at h
      · simp only [Bool.and_eq_true] at h
        exact ih true h.2 hx
      · exact ih false h hx

theorem multiOk_of_noTwo (pend : Bool) (u : List Str) (h2 : NoTwo u)
    (hlast : u.getLast? ≠ some [])
    (hp : pend = true → ∃ a r, u = a :: r ∧ a ≠ []) : multiOk pend u = true := by
  induction u generalizing pend with
  | nil =>
    cases pend with
    | false => rfl
    | true => obtain ⟨a, r, h, _⟩ := hp rfl; cases h
  | cons a u ih =>
    have h2' : NoTwo u := fun hx => h2 (hx.trans (List.suffix_cons a u).isInfix)
    have hlast' : u ≠ [] → u.getLast? ≠ some [] := by
      intro hne
      rw [List.getLast?_cons_of_ne_nil hne] at hlast
      exact hlast
    simp only [multiOk]
    by_cases ha : a = []
    · subst ha
      have hpend : pend = false := by
        cases pend with
        | false => rfl
        | true => obtain ⟨b, r, h, hb⟩ := hp rfl; simp at h; exact absurd h.1 hb
      subst hpend
      simp only [List.isEmpty_nil, ↓reduceIte, Bool.not_false, Bool.true_and]
      cases u with
      | nil => simp at hlast
      | cons b u' =>
        apply ih true h2' (hlast' (by simp))
        intro _
        refine ⟨b, u', rfl, ?_⟩
        intro hb
        subst hb
        exact h2 ⟨[], u', rfl⟩
    · have : a.isEmpty = false := by cases a <;> simp_all
      simp only [this, Bool.false_eq_true, ↓reduceIte]
      by_cases hu : u = []
      · subst hu; rfl
      · exact ih false h2' (hlast' hu) (by intro h; cases h)

/-! ### the guard holds of every text the parser returns -/

theorem splitNl_joinNl (ls : List Str) (hne : ls ≠ []) (h : NoNl ls) : splitNl (joinNl ls) = ls := by
  induction ls with
  | nil => exact absurd rfl hne
  | cons l ls ih =>
    cases ls with
    | nil => simpa [joinNl, joinWith] using splitNl_noNl l (h l (by simp))
    | cons m ms =>
      simp only [joinNl] at ih ⊢
      rw [joinWith_cons_cons, List.append_assoc, List.singleton_append,
        splitNl_append_nl l _ (h l (by simp)), ih (by simp) (fun x hx => h x (by simp [hx]))]

theorem textLines_joinNl (u : List Str) (hn : NoNl u) (hlast : u.getLast? ≠ some []) :
    textLines (joinNl u) = u := by
  by_cases hu : u = []
  · subst hu; rfl
  · have hs := splitNl_joinNl u hu hn
    unfold textLines
    split
    · rename_i he
      have : joinNl u = [] := by simpa using he
      rw [this] at hs
      rw [← hs] at hlast
      exact absurd rfl hlast
    · exact hs

/-- **The multi-line text the parser returns for a well-formed block of lines is writable.** -/
theorem multiTextOk_of_lines (t : List Str) (hm : multiOk false t = true)
    (hl : ∀ l ∈ t, LineOk l) : MultiTextOk (multiTextOf t) := by
  have hn : NoNl t := fun l h => (hl l h).1
  have hc : NoCr t := fun l h => (hl l h).2
  have h2 : NoTwo t := multiOk_noTwo false t hm
  have hn' : NoNl (trimLines t) :=
    noNl_revLines _ (noNl_dropWsLines _ (noNl_revLines _ (noNl_dropWsLines _ hn)))
  have hc' : NoCr (trimLines t) :=
    noCr_revLines _ (headNoCr_dropWsLines _ (headNoCr_revLines _ (noCr_dropWsLines _ hc)))
  have h2' : NoTwo (trimLines t) :=
    noTwo_revLines _ (noTwo_dropWsLines _ (noTwo_revLines _ (noTwo_dropWsLines _ h2)))
  have hlast := trimLines_last t
  have htl : textLines (multiTextOf t) = trimLines t := by
    unfold multiTextOf
    rw [trim_joinNl, textLines_joinNl _ hn' hlast]
  refine ⟨trim_idem _, ?_, ?_⟩
  · rw [htl]; exact hc'
  · rw [htl]
    exact multiOk_of_noTwo false _ h2' hlast (by intro h; cases h)

end Slt
