/-
C05, step 2: the canonical item of a writable record is well-formed (`WF` of `Render.lean`), and
the values written as text (numbers, durations, retry clauses, type strings, multi-line texts) are
read back as the values they stand for.
-/
import SltVerif.Lemmas.UnparseText
import SltVerif.Lemmas.UnparseDur
namespace Slt

variable (cfg : PCfg)

/-! ### values written as text -/

theorem numOf_natToStr (n : Nat) (h : n < 2 ^ 64) : numOf (natToStr n) = n := by
  simp [numOf, natStr_parse n h]

theorem durOf_fmt (d : Dur) (hs : d.secs < 2 ^ 64) (hn : d.nanos < 1000000000) :
    durOf (formatDurationCompact d) = d := by
  simp [durOf, fmtDur_parse d hs hn]

theorem retryOf_canon (rt : Option Retry) (h : RetryVal rt) : retryOf (canonRetry rt) = rt := by
  cases rt with
  | none => rfl
  | some r =>
    obtain ⟨_, ha, hs, hn⟩ := h
    simp [canonRetry, retryOf, numOf_natToStr _ ha, durOf_fmt _ hs hn]

theorem retryOk_canon (rt : Option Retry) (h : RetryVal rt) : RetryOk (canonRetry rt) := by
  cases rt with
  | none => trivial
  | some r =>
    obtain ⟨h0, ha, hs, hn⟩ := h
    simp only [canonRetry, RetryOk]
    rw [numOf_natToStr _ ha, durOf_fmt _ hs hn]
    exact ⟨h0, fmtDur_parse _ hs hn⟩

theorem retryToks_isTok (rt : Option Retry) : ∀ t ∈ retryToks (canonRetry rt), IsTok isWs t := by
  cases rt with
  | none => intro t ht; cases ht
  | some r =>
    intro t ht
    simp only [canonRetry, retryToks, RetryTok.toks, List.mem_cons, List.not_mem_nil,
      or_false] at ht
    rcases ht with rfl | rfl | rfl | rfl
    · decide
    · exact natStr_isTok _
    · decide
    · exact fmtDur_isTok _

theorem canonRetry_none : canonRetry none = none := rfl

theorem toChar_noWs (t : ColT) : isWs t.toChar = false := by cases t <;> decide

theorem typesOf_canon (types : List ColT) (h : ∀ t ∈ types, cfg.fromChar t.toChar = some t) :
    typesOf cfg (types.map ColT.toChar) = types := by
  induction types with
  | nil => rfl
  | cons t ts ih =>
    have ht := h t (by simp)
    have := ih (fun x hx => h x (by simp [hx]))
    simp only [typesOf] at this ⊢
    simp [ht, this]

theorem types_isTok (types : List ColT) (hne : types ≠ []) :
    IsTok isWs (types.map ColT.toChar) := by
  refine ⟨by simpa using hne, ?_⟩
  intro c hc
  simp only [List.mem_map] at hc
  obtain ⟨t, _, rfl⟩ := hc
  exact toChar_noWs t

theorem types_ne_error (types : List ColT) : types.map ColT.toChar ≠ kw "error" := by
  cases types with
  | nil => decide
  | cons t ts => cases t <;> simp [ColT.toChar, kw]

theorem sortMode_isTok (m : SortMode) : IsTok isWs m.toStr := by cases m <;> decide

theorem resultMode_isTok (m : ResultMode) : IsTok isWs m.toStr := by cases m <;> decide

/-- a multi-line text is its lines joined again (and trimming changes nothing) -/
theorem multiTextOf_textLines (t : Str) (h : trim t = t) : multiTextOf (textLines t) = t := by
  unfold multiTextOf textLines
  split
  · rename_i he
    have : t = [] := by simpa using he
    subst this; rfl
  · rw [joinNl_splitNl, h]

/-! ### header words -/

theorem canonErr_isTok (e : ExpErr) : ∀ t ∈ (canonErr e).toks, IsTok isWs t := by
  cases e with
  | inline re => exact words_isTok re
  | _ => intro t ht; cases ht

theorem canonStmt_isTok (e : SExp) : ∀ t ∈ (canonStmt e).toks, IsTok isWs t := by
  cases e with
  | ok => intro t ht; simp [canonStmt, StmtForm.toks] at ht; subst ht; decide
  | count n =>
    intro t ht
    simp only [canonStmt, StmtForm.toks, List.mem_cons, List.not_mem_nil, or_false] at ht
    rcases ht with rfl | rfl
    · decide
    · exact natStr_isTok _
  | error e =>
    intro t ht
    simp only [canonStmt, StmtForm.toks, List.mem_cons] at ht
    rcases ht with rfl | ht
    · decide
    · exact canonErr_isTok e t ht

theorem canonQuery_isTok (e : QExp) (rt : Option Retry) (h : e.Ok cfg rt) :
    ∀ t ∈ (canonQuery e).toks, IsTok isWs t := by
  cases e with
  | error e =>
    intro t ht
    simp only [canonQuery, QueryForm.toks, List.mem_cons] at ht
    rcases ht with rfl | ht
    · decide
    · exact canonErr_isTok e t ht
  | results types sort rmode label res =>
    obtain ⟨_, _, _, hlb, _⟩ := h
    by_cases hty : types = []
    · intro t ht; simp [canonQuery, hty, QueryForm.toks] at ht
    · intro t ht
      simp only [canonQuery, hty, ↓reduceIte, QueryForm.toks, List.mem_cons, List.mem_append,
        Option.mem_toList, Option.map_eq_some_iff] at ht
      rcases ht with (rfl | ⟨m, _, rfl⟩) | hl
      · exact types_isTok types hty
      · exact sortMode_isTok m
      · rw [hl] at hlb; exact hlb.1

theorem control_isTok (c : Control) : ∀ t ∈ c.toks, IsTok isWs t := by
  cases c with
  | sortMode m =>
    intro t ht
    simp only [Control.toks, List.mem_cons, List.not_mem_nil, or_false] at ht
    rcases ht with rfl | rfl
    · decide
    · exact sortMode_isTok m
  | resultMode m =>
    intro t ht
    simp only [Control.toks, List.mem_cons, List.not_mem_nil, or_false] at ht
    rcases ht with rfl | rfl
    · decide
    · exact resultMode_isTok m
  | substitution b =>
    intro t ht
    simp only [Control.toks, List.mem_cons, List.not_mem_nil, or_false] at ht
    rcases ht with rfl | rfl
    · decide
    · cases b <;> decide

/-! ### side conditions -/

theorem canonErr_wf (e : ExpErr) (rt : Option Retry) (h : e.Ok cfg rt) :
    (canonErr e).WF cfg (canonRetry rt) := by
  cases e with
  | empty => trivial
  | multi t => trivial
  | inline re =>
    obtain ⟨hne, hj, hshape, hre, hrt⟩ := h
    subst hrt
    refine ⟨?_, ?_, ?_, rfl⟩
    · intro hw; rw [hw] at hj; exact hne hj.symm
    · rw [retryShaped_eq]; exact hshape
    · rw [hj]; exact hre

theorem canonErr_tail_wf (e : ExpErr) (rt : Option Retry) (h : e.Ok cfg rt) :
    (canonErr e).tail.WF := by
  cases e with
  | empty => trivial
  | inline re => trivial
  | multi t => exact h.2.2

theorem canonStmt_wf (e : SExp) (rt : Option Retry) (h : e.Ok cfg rt) :
    (canonStmt e).WF cfg (canonRetry rt) ∧ (canonStmt e).tail.WF := by
  cases e with
  | ok => exact ⟨trivial, trivial⟩
  | count n =>
    refine ⟨?_, trivial⟩
    simp only [canonStmt, StmtForm.WF]
    rw [natStr_parse n h]; rfl
  | error e => exact ⟨canonErr_wf cfg e rt h, canonErr_tail_wf cfg e rt h⟩

theorem canonQuery_wf (e : QExp) (rt : Option Retry) (h : e.Ok cfg rt) :
    (canonQuery e).WF cfg (canonRetry rt) ∧ (canonQuery e).tail.WF := by
  cases e with
  | error e => exact ⟨canonErr_wf cfg e rt h, canonErr_tail_wf cfg e rt h⟩
  | results types sort rmode label res =>
    obtain ⟨_, hty, hemp, hlb, hres⟩ := h
    have hres' : ∀ l ∈ res, l ≠ [] := fun l hl => (hres l hl).1
    by_cases ht : types = []
    · obtain ⟨_, _, hr⟩ := hemp ht
      subst hr
      simp only [canonQuery, ht, ↓reduceIte, QueryForm.WF, QueryForm.tail, resultsTail, Tail.WF]
      exact ⟨rfl, hres'⟩
    · simp only [canonQuery, ht, ↓reduceIte, QueryForm.WF, QueryForm.tail, resultsTail, Tail.WF]
      refine ⟨⟨types_ne_error types, ?_, ?_⟩, hres'⟩
      · intro c hc
        simp only [List.mem_map] at hc
        obtain ⟨t, htm, rfl⟩ := hc
        rw [hty t htm]; rfl
      · cases label with
        | none => trivial
        | some l => exact ⟨hlb.2.1, hlb.2.2⟩

theorem stdout_wf (o : Option Str) (h : StdoutOk o) : (stdoutTail (o.map textLines)).WF := by
  cases o with
  | none => trivial
  | some t => exact h.2.2

/-! ### the canonical item is well-formed -/

theorem kw_isTok_statement : IsTok isWs (kw "statement") := by decide
theorem kw_isTok_query : IsTok isWs (kw "query") := by decide
theorem kw_isTok_system : IsTok isWs (kw "system") := by decide
theorem kw_isTok_ok : IsTok isWs (kw "ok") := by decide

theorem layOk_queryLay (f : QueryForm) (rt : Option RetryTok) (hb : ∀ rs, f = .bare rs → rt = none) :
    LayOk (kw "query" :: f.toks ++ retryToks rt) (queryLay f (kw "query" :: f.toks ++ retryToks rt)) := by
  cases f with
  | bare rs =>
    have := hb rs rfl
    subst this
    simp only [queryLay, QueryForm.toks, retryToks, List.append_nil]
    refine ⟨(by intro c hc; cases hc), rfl, ?_, ?_⟩
    · intro s hs
      simp only [List.mem_singleton] at hs
      subst hs
      intro c hc; simp at hc; subst hc; decide
    · intro s hs; simp at hs
  | typed ty so lb rs => exact layOk_canonLay _
  | error e => exact layOk_canonLay _

/-- **Well-formed**: the item a writable record is written as satisfies every side condition of
the grammar of `Render.lean`. -/
theorem canonItem_wf (r : Rec) (h : RecOk cfg r) : WF cfg (canonItem r) := by
  cases r with
  | statement l c cn sql e rt =>
    obtain ⟨hsql, he, hrt⟩ := h
    obtain ⟨hf, htail⟩ := canonStmt_wf cfg e rt he
    refine ⟨⟨?_, layOk_canonLay _⟩, hf, retryOk_canon rt hrt, hsql.2, htail⟩
    intro t ht
    simp only [canonItem, Item.toks, List.cons_append, List.mem_cons, List.mem_append] at ht
    rcases ht with rfl | ht | ht
    · exact kw_isTok_statement
    · exact canonStmt_isTok e t ht
    · exact retryToks_isTok rt t ht
  | query l c cn sql e rt =>
    obtain ⟨hsql, he, hrt⟩ := h
    obtain ⟨hf, htail⟩ := canonQuery_wf cfg e rt he
    refine ⟨⟨?_, ?_⟩, hf, retryOk_canon rt hrt, hsql.2, htail⟩
    · intro t ht
      simp only [canonItem, Item.toks, List.cons_append, List.mem_cons, List.mem_append] at ht
      rcases ht with rfl | ht | ht
      · exact kw_isTok_query
      · exact canonQuery_isTok cfg e rt he t ht
      · exact retryToks_isTok rt t ht
    · apply layOk_queryLay
      intro rs hrs
      cases e with
      | error e => simp [canonQuery] at hrs
      | results types sort rmode label res =>
        by_cases hty : types = []
        · rw [(he.2.2.1 hty).2.2]; rfl
        · simp [canonQuery, hty] at hrs
  | system l c cmd o rt =>
    obtain ⟨hcmd, ho, hrt⟩ := h
    refine ⟨⟨?_, layOk_canonLay _⟩, retryOk_canon rt hrt, hcmd.2, stdout_wf o ho⟩
    intro t ht
    simp only [canonItem, Item.toks, List.mem_cons] at ht
    rcases ht with rfl | rfl | ht
    · exact kw_isTok_system
    · exact kw_isTok_ok
    · exact retryToks_isTok rt t ht
  | sleep l d =>
    obtain ⟨hs, hn⟩ := h
    refine ⟨⟨?_, layOk_canonLay _⟩, ?_⟩
    · intro t ht
      simp only [canonItem, Item.toks, List.mem_cons, List.not_mem_nil, or_false] at ht
      rcases ht with rfl | rfl
      · decide
      · exact fmtDur_isTok d
    · simp only [canonItem, Item.Side]
      rw [durOf_fmt d hs hn]; exact fmtDur_parse d hs hn
  | hashThreshold l n =>
    refine ⟨⟨?_, layOk_canonLay _⟩, ?_⟩
    · intro t ht
      simp only [canonItem, Item.toks, List.mem_cons, List.not_mem_nil, or_false] at ht
      rcases ht with rfl | rfl
      · decide
      · exact natStr_isTok n
    · simp only [canonItem, Item.Side]
      rw [natStr_parse n h]; rfl
  | incl l f =>
    refine ⟨⟨?_, layOk_canonLay _⟩, trivial⟩
    intro t ht
    simp only [canonItem, Item.toks, List.mem_cons, List.not_mem_nil, or_false] at ht
    rcases ht with rfl | rfl
    · decide
    · exact h
  | subtest l n =>
    refine ⟨⟨?_, layOk_canonLay _⟩, trivial⟩
    intro t ht
    simp only [canonItem, Item.toks, List.mem_cons, List.not_mem_nil, or_false] at ht
    rcases ht with rfl | rfl
    · decide
    · exact h
  | halt l =>
    refine ⟨⟨?_, layOk_canonLay _⟩, trivial⟩
    intro t ht
    simp only [canonItem, Item.toks, List.mem_cons, List.not_mem_nil, or_false] at ht
    subst ht; decide
  | control c =>
    refine ⟨⟨?_, layOk_canonLay _⟩, trivial⟩
    intro t ht
    simp only [canonItem, Item.toks, List.mem_cons] at ht
    rcases ht with rfl | ht
    · decide
    · exact control_isTok c t ht
  | condition c =>
    cases c with
    | onlyIf lb =>
      refine ⟨⟨?_, layOk_canonLay _⟩, trivial⟩
      intro t ht
      simp only [canonItem, Item.toks, List.mem_cons, List.not_mem_nil, or_false] at ht
      rcases ht with rfl | rfl
      · decide
      · exact h
    | skipIf lb =>
      refine ⟨⟨?_, layOk_canonLay _⟩, trivial⟩
      intro t ht
      simp only [canonItem, Item.toks, List.mem_cons, List.not_mem_nil, or_false] at ht
      rcases ht with rfl | rfl
      · decide
      · exact h
  | connection c =>
    cases c with
    | dflt =>
      refine ⟨⟨?_, layOk_canonLay _⟩, trivial⟩
      intro t ht
      simp only [canonItem, Item.toks, List.mem_cons, List.not_mem_nil, or_false] at ht
      rcases ht with rfl | rfl <;> decide
    | named n =>
      refine ⟨⟨?_, layOk_canonLay _⟩, trivial⟩
      intro t ht
      simp only [canonItem, Item.toks, List.mem_cons, List.not_mem_nil, or_false] at ht
      rcases ht with rfl | rfl
      · decide
      · exact h.1
  | comment ls => exact ⟨trivial, trivial⟩
  | newline => exact ⟨trivial, trivial⟩
  | beginInclude f => exact absurd h (by simp [RecOk])
  | endInclude f => exact absurd h (by simp [RecOk])

theorem canonItems_wf (R : List Rec) (h : ∀ r ∈ R, RecOk cfg r) :
    ∀ i ∈ canonItems R, WF cfg i := by
  intro i hi
  simp only [canonItems, List.mem_map] at hi
  obtain ⟨r, hr, rfl⟩ := hi
  exact canonItem_wf cfg r (h r hr)

end Slt
