/-
Helper lemmas for C08, part 6: the guard of `atomic_prefix` (no path open twice at the same time)
holds for everything `parse_file` produces.  An include cycle makes `parse_file` fail (here: run
out of fuel; in reality: recurse forever), because the expansion of a file is strictly larger
than the expansion of every file it includes, and the size of an expansion depends on the file
only.  Built on the reference splicing `Spliced` of C14.
-/
import SltVerif.Lemmas.UpdateNested
namespace Slt

/-- two jobs that differ at most in the chain of include sites they report -/
def Job.SameShape : Job → Job → Prop
  | .file f _, .file f' _ => f = f'
  | .recs f _ rs, .recs f' _ rs' => f = f' ∧ rs = rs'
  | .files i l _ ns, .files i' l' _ ns' => i = i' ∧ l = l' ∧ ns = ns'
  | _, _ => False

/-- the size of an expansion does not depend on where the file is included from -/
theorem Spliced.length_indep {cfg : PCfg} {fs : Fs} {j₁ j₂ : Job} {o₁ o₂ : List LRec}
    (h₁ : Spliced cfg fs j₁ o₁) (h₂ : Spliced cfg fs j₂ o₂) (hs : j₁.SameShape j₂) :
    o₁.length = o₂.length := by
  induction h₁ generalizing j₂ o₂ with
  | file hr hp _ ih =>
    cases h₂ with
    | file hr' hp' h' =>
      simp only [Job.SameShape] at hs
      subst hs
      rw [hr] at hr'; cases hr'
      rw [hp] at hp'; cases hp'
      exact ih h' ⟨rfl, rfl⟩
    | _ => exact hs.elim
  | recsNil =>
    cases h₂ with
    | recsNil => rfl
    | recsOther _ _ => exact absurd hs.2 (by simp)
    | recsIncl _ _ _ => exact absurd hs.2 (by simp)
    | _ => exact hs.elim
  | recsOther hr _ ih =>
    cases h₂ with
    | recsNil => exact absurd hs.2 (by simp)
    | recsOther _ h' =>
      obtain ⟨hf, hrs⟩ := hs
      cases hrs
      simp only [List.length_cons]
      rw [ih h' ⟨hf, rfl⟩]
    | recsIncl _ _ _ =>
      obtain ⟨_, hrs⟩ := hs
      cases hrs
      exact absurd rfl (hr _ _)
    | _ => exact hs.elim
  | recsIncl _ _ _ ih1 ih2 =>
    cases h₂ with
    | recsNil => exact absurd hs.2 (by simp)
    | recsOther hr' _ =>
      obtain ⟨_, hrs⟩ := hs
      cases hrs
      exact absurd rfl (hr' _ _)
    | recsIncl _ h1' h2' =>
      obtain ⟨hf, hrs⟩ := hs
      cases hrs
      subst hf
      simp only [List.length_cons, List.length_append]
      rw [ih1 h1' ⟨rfl, rfl, rfl⟩, ih2 h2' ⟨rfl, rfl⟩]
    | _ => exact hs.elim
  | filesNil =>
    cases h₂ with
    | filesNil => rfl
    | filesCons _ _ => exact absurd hs.2.2 (by simp)
    | _ => exact hs.elim
  | filesCons _ _ ih1 ih2 =>
    cases h₂ with
    | filesNil => exact absurd hs.2.2 (by simp)
    | filesCons h1' h2' =>
      obtain ⟨hi, hl, hn⟩ := hs
      cases hn
      simp only [List.length_cons, List.length_append]
      rw [ih1 h1' rfl, ih2 h2' ⟨hi, hl, rfl⟩]
    | _ => exact hs.elim

/-- `n` is the size of the expansion of file `k` (from wherever it is included) -/
def ExpSize (cfg : PCfg) (fs : Fs) (k : Str) (n : Nat) : Prop :=
  ∃ u o, Spliced cfg fs (.file k u) o ∧ o.length = n

theorem ExpSize.unique {cfg : PCfg} {fs : Fs} {k : Str} {n m : Nat}
    (h₁ : ExpSize cfg fs k n) (h₂ : ExpSize cfg fs k m) : n = m := by
  obtain ⟨u₁, o₁, s₁, rfl⟩ := h₁
  obtain ⟨u₂, o₂, s₂, rfl⟩ := h₂
  exact s₁.length_indep s₂ rfl

/-- every open file has an expansion of size at least `m` -/
def Roomy (cfg : PCfg) (fs : Fs) (st : List Str) (m : Nat) : Prop :=
  ∀ k ∈ st, ∃ n, ExpSize cfg fs k n ∧ m ≤ n

theorem Roomy.mono {cfg : PCfg} {fs : Fs} {st : List Str} {m m' : Nat}
    (h : Roomy cfg fs st m) (hm : m' ≤ m) : Roomy cfg fs st m' := by
  intro k hk
  obtain ⟨n, hn, hle⟩ := h k hk
  exact ⟨n, hn, by omega⟩

/-- a file whose expansion is smaller than that of every open file is not open -/
theorem Roomy.not_mem {cfg : PCfg} {fs : Fs} {st : List Str} {m : Nat} {g : Str} {n : Nat}
    (h : Roomy cfg fs st m) (hg : ExpSize cfg fs g n) (hlt : n < m) : g ∉ st := by
  intro hmem
  obtain ⟨n', hn', hle⟩ := h g hmem
  have := hg.unique hn'
  omega

/-- what the absence of include cycles means for the output of each kind of job
    (continuation style: `rest` is what follows) -/
def Job.DistinctOut (cfg : PCfg) (fs : Fs) : Job → List LRec → Prop
  | .file g _, out => ∀ st rest, st.Nodup → Roomy cfg fs st (out.length + 1) →
      DistinctOpen (g :: st) rest → DistinctOpen (g :: st) (out.map (·.record) ++ rest)
  | .recs _ _ _, out => ∀ st rest, st.Nodup → Roomy cfg fs st out.length →
      DistinctOpen st rest → DistinctOpen st (out.map (·.record) ++ rest)
  | .files _ _ _ _, out => ∀ st rest, st.Nodup → Roomy cfg fs st out.length →
      DistinctOpen st rest → DistinctOpen st (out.map (·.record) ++ rest)

theorem Spliced.distinct {cfg : PCfg} {fs : Fs} {j : Job} {out : List LRec}
    (h : Spliced cfg fs j out) : j.noMk → j.DistinctOut cfg fs out := by
  induction h with
  | @file f upper script recs out hr hp hsub ih =>
    intro _ st rest hnd hroom hrest
    refine ih (parse_noMarker _ _ _ hp) (f :: st) rest hrest.nodup ?_ hrest
    intro k hk
    rcases List.mem_cons.mp hk with rfl | hk
    · exact ⟨out.length, ⟨upper, out, .file hr hp hsub, rfl⟩, Nat.le_refl _⟩
    · obtain ⟨n, hn, hle⟩ := hroom k hk
      exact ⟨n, hn, by omega⟩
  | recsNil => intro _ st rest _ _ hrest; exact hrest
  | @recsOther file upper r rs rest' hr _ ih =>
    intro hm st rest hnd hroom hrest
    have hr' : r.isInjected = false := by
      rw [isInjected_eq_isMarker]; exact hm _ List.mem_cons_self
    show DistinctOpen st (r :: (rest'.map (·.record) ++ rest))
    refine ⟨hnd, ?_⟩
    rw [openAfter_of_not_injected _ hr']
    exact ih (fun x hx => hm x (List.mem_cons_of_mem _ hx)) st rest hnd
      (hroom.mono (by simp)) hrest
  | @recsIncl file upper line pat rs inner rest' _ _ _ ih1 ih2 =>
    intro hm st rest hnd hroom hrest
    show DistinctOpen st (Rec.incl line pat :: ((inner ++ rest').map (·.record) ++ rest))
    refine ⟨hnd, ?_⟩
    rw [List.map_append, List.append_assoc]
    exact ih1 trivial st _ hnd (hroom.mono (by simp <;> omega))
      (ih2 (fun x hx => hm x (List.mem_cons_of_mem _ hx)) st rest hnd
        (hroom.mono (by simp <;> omega)) hrest)
  | filesNil => intro _ st rest _ _ hrest; exact hrest
  | @filesCons including line upper g names inner more h1 _ ih1 ih2 =>
    intro _ st rest hnd hroom hrest
    have hg : g ∉ st :=
      hroom.not_mem ⟨_, inner, h1, rfl⟩ (by simp <;> omega)
    have hmore := ih2 trivial st rest hnd (hroom.mono (by simp <;> omega)) hrest
    show DistinctOpen st (Rec.beginInclude g ::
      ((inner ++ ⟨.endInclude g, including, upper⟩ :: more).map (·.record) ++ rest))
    refine ⟨hnd, ?_⟩
    rw [List.map_append, List.append_assoc]
    refine ih1 trivial st _ hnd (hroom.mono (by simp <;> omega)) ?_
    exact ⟨List.nodup_cons.mpr ⟨hg, hnd⟩, hmore⟩

/-- **No include cycle, no path open twice**: in everything a successful `parse_file` returns,
the files open at any moment (root and nested includes) are pairwise distinct. -/
theorem parseFile_distinctOpen {cfg : PCfg} {fs : Fs} {fuel : Nat} {f : Str}
    {upper : List (Str × Nat)} {out : List LRec}
    (h : parseFile cfg fs fuel f upper = .ok out) : DistinctOpen [f] (out.map (·.record)) := by
  have := (spliced_of_parseFile fuel f upper out h).distinct trivial [] [] List.nodup_nil
    (fun k hk => by cases hk) (by show [f].Nodup; simp)
  simpa using this

end Slt
