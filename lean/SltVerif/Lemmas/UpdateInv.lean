/-
Helper lemmas for C08, part 3: the invariants of `update_test_file`.

* `InvA`  — the temp file of every open output file holds exactly the bytes written so far, and
            at every crash point an original path holds its old content or a complete content
            that was renamed onto it (`AtomicEvs`);
* `KeysIn` — the only temp files that exist belong to open output files;
* `InvS`  — every buffer is a sequence of `writeln!`-ed records, every renamed content is the
            `fmtFile` of such a sequence;
* `MarkersBalanced` / `DistinctOpen` — the well-bracketing predicates on the flattened record list.
-/
import SltVerif.Lemmas.UpdateStep
namespace Slt

/-! ### the file system at a crash point -/

/-- file system after the events `evs`, started from the original files `fs0` and no temp file -/
def fsAt (fs0 : List (Str × Str)) (evs : List UEv) : FsState :=
  applyFsOps ⟨fs0, []⟩ (fsOpsOf evs)

theorem fsAt_nil (fs0 : List (Str × Str)) : fsAt fs0 [] = ⟨fs0, []⟩ := rfl

theorem fsAt_append (fs0 : List (Str × Str)) (evs q : List UEv) :
    fsAt fs0 (evs ++ q) = applyFsOps (fsAt fs0 evs) (fsOpsOf q) := by
  simp [fsAt, fsOpsOf_append, applyFsOps_append]

theorem fsAt_snoc_fs (fs0 : List (Str × Str)) (evs : List UEv) (op : FsOp) :
    fsAt fs0 (evs ++ [.fs op]) = op.apply (fsAt fs0 evs) := by
  rw [fsAt_append]; rfl

theorem fsAt_snoc_db (fs0 : List (Str × Str)) (evs : List UEv) (e : Ev) :
    fsAt fs0 (evs ++ [.db e]) = fsAt fs0 evs := by
  rw [fsAt_append]; rfl

theorem fsAt_append_dbs (fs0 : List (Str × Str)) (evs : List UEv) (dbs : List Ev) :
    fsAt fs0 (evs ++ dbs.map UEv.db) = fsAt fs0 evs := by
  rw [fsAt_append, fsOpsOf_map_db]; rfl

theorem fsAt_append_fs (fs0 : List (Str × Str)) (evs : List UEv) (ops : List FsOp) :
    fsAt fs0 (evs ++ ops.map UEv.fs) = applyFsOps (fsAt fs0 evs) ops := by
  rw [fsAt_append, fsOpsOf_map_fs]

def UEv.isRename : UEv → Bool
  | .fs op => op.isRename
  | .db _ => false

theorem fsAt_snoc_files_of_not_rename (fs0 : List (Str × Str)) (evs : List UEv) (e : UEv)
    (h : e.isRename = false) : (fsAt fs0 (evs ++ [e])).files = (fsAt fs0 evs).files := by
  cases e with
  | db e => rw [fsAt_snoc_db]
  | fs op => rw [fsAt_snoc_fs]; exact FsOp.apply_files_of_not_rename _ _ h

/-! ### old content or complete new content, at every prefix -/

/-- an original path holds its old content or a complete content that was renamed onto it -/
def OldOrNew (fs0 final files : List (Str × Str)) (f : Str) : Prop :=
  getFile files f = getFile fs0 f ∨ ∃ c, (f, c) ∈ final ∧ getFile files f = some c

/-- … at every crash point of `evs` -/
def AtomicEvs (fs0 final : List (Str × Str)) (evs : List UEv) : Prop :=
  ∀ p, p <+: evs → ∀ f, OldOrNew fs0 final (fsAt fs0 p).files f

theorem AtomicEvs.nil (fs0 final : List (Str × Str)) : AtomicEvs fs0 final [] := by
  intro p hp f
  have : p = [] := List.prefix_nil.mp hp
  subst this
  exact Or.inl rfl

theorem AtomicEvs.mono {fs0 final final' : List (Str × Str)} {evs : List UEv}
    (h : AtomicEvs fs0 final evs) (hsub : ∀ x ∈ final, x ∈ final') : AtomicEvs fs0 final' evs := by
  intro p hp f
  rcases h p hp f with h | ⟨c, hc, h⟩
  · exact Or.inl h
  · exact Or.inr ⟨c, hsub _ hc, h⟩

theorem AtomicEvs.snoc {fs0 final : List (Str × Str)} {evs : List UEv}
    (h : AtomicEvs fs0 final evs) (e : UEv)
    (hnew : ∀ f, OldOrNew fs0 final (fsAt fs0 (evs ++ [e])).files f) :
    AtomicEvs fs0 final (evs ++ [e]) := by
  intro p hp f
  rcases List.prefix_concat_iff.mp hp with hp | hp
  · subst hp; exact hnew f
  · exact h p hp f

theorem AtomicEvs.snoc_not_rename {fs0 final : List (Str × Str)} {evs : List UEv}
    (h : AtomicEvs fs0 final evs) (e : UEv) (he : e.isRename = false) :
    AtomicEvs fs0 final (evs ++ [e]) := by
  refine h.snoc e (fun f => ?_)
  rw [fsAt_snoc_files_of_not_rename fs0 evs e he]
  exact h evs (List.prefix_refl _) f

theorem AtomicEvs.append_no_rename {fs0 final : List (Str × Str)} (q : List UEv) :
    ∀ {evs : List UEv}, AtomicEvs fs0 final evs → (∀ e ∈ q, UEv.isRename e = false) →
      AtomicEvs fs0 final (evs ++ q) := by
  induction q with
  | nil => intro evs h _; simpa using h
  | cons e q ih =>
    intro evs h hq
    have h1 := h.snoc_not_rename e (hq e List.mem_cons_self)
    have h2 := ih h1 (fun e' he' => hq e' (List.mem_cons_of_mem _ he'))
    simpa [List.append_assoc] using h2

/-- a `rename` of a temp file whose content is recorded in `final` keeps the property -/
theorem AtomicEvs.snoc_rename {fs0 final : List (Str × Str)} {evs : List UEv}
    (h : AtomicEvs fs0 final evs) (f c : Str)
    (ht : getFile (fsAt fs0 evs).temps f = some c) (hm : (f, c) ∈ final) :
    AtomicEvs fs0 final (evs ++ [.fs (.rename f)]) := by
  refine h.snoc _ (fun g => ?_)
  rw [fsAt_snoc_fs]
  simp only [FsOp.apply, ht]
  unfold OldOrNew
  by_cases hg : g = f
  · subst hg
    exact Or.inr ⟨c, hm, getFile_setFile_same _ _ _⟩
  · rw [getFile_setFile_other _ _ _ _ hg]
    exact h evs (List.prefix_refl _) g

/-! ### invariant A: temp contents and atomicity -/

structure InvA (fs0 : List (Str × Str)) (stack : List OutItem) (evs : List UEv)
    (final : List (Str × Str)) : Prop where
  temps : ∀ it ∈ stack, getFile (fsAt fs0 evs).temps it.file = some it.written
  atomic : AtomicEvs fs0 final evs

theorem InvA.init (fs0 : List (Str × Str)) (root : Str) :
    InvA fs0 [⟨root, [], false⟩] [.fs (.create root)] [] := by
  constructor
  · intro it hit
    simp only [List.mem_singleton] at hit
    subst hit
    simp [fsAt, fsOpsOf, applyFsOps, FsOp.apply, setFile, getFile]
  · have := (AtomicEvs.nil fs0 []).snoc_not_rename (.fs (.create root)) rfl
    simpa using this

theorem InvA.opened {fs0 : List (Str × Str)} {stack : List OutItem} {evs : List UEv}
    {final : List (Str × Str)} (h : InvA fs0 stack evs final) (f : Str) (halt : Bool)
    (hf : f ∉ stack.map (·.file)) :
    InvA fs0 (⟨f, [], halt⟩ :: stack) (evs ++ [.fs (.create f)]) final := by
  constructor
  · intro it hit
    rw [fsAt_snoc_fs]
    simp only [FsOp.apply]
    rcases List.mem_cons.mp hit with hit | hit
    · subst hit
      exact getFile_setFile_same _ _ _
    · have hne : it.file ≠ f := by
        intro he
        exact hf (List.mem_map.mpr ⟨it, hit, he⟩)
      rw [getFile_setFile_other _ _ _ _ hne]
      exact h.temps it hit
  · exact h.atomic.snoc_not_rename _ rfl

theorem InvA.wrote {fs0 : List (Str × Str)} {it : OutItem} {rest : List OutItem}
    {evs : List UEv} {final : List (Str × Str)} (h : InvA fs0 (it :: rest) evs final)
    (text : Str) (dbs : List Ev) (halt' : Bool) (hf : it.file ∉ rest.map (·.file)) :
    InvA fs0 (⟨it.file, it.written ++ text, halt'⟩ :: rest)
      (evs ++ dbs.map UEv.db ++ [.fs (.append it.file text)]) final := by
  constructor
  · intro it' hit
    rw [fsAt_snoc_fs, fsAt_append_dbs]
    simp only [FsOp.apply]
    rcases List.mem_cons.mp hit with hit | hit
    · subst hit
      simp only
      rw [getFile_setFile_same, h.temps it List.mem_cons_self]
      rfl
    · have hne : it'.file ≠ it.file := by
        intro he
        exact hf (List.mem_map.mpr ⟨it', hit, he⟩)
      rw [getFile_setFile_other _ _ _ _ hne]
      exact h.temps it' (List.mem_cons_of_mem _ hit)
  · refine AtomicEvs.snoc_not_rename ?_ _ rfl
    refine AtomicEvs.append_no_rename _ h.atomic ?_
    intro e he
    obtain ⟨d, _, rfl⟩ := List.mem_map.mp he
    rfl

theorem closeOps_fst (it : OutItem) :
    (closeOps it).1.map UEv.fs =
      (trimOps it.file (it.written.length + 1) it.written).1.map UEv.fs ++
        [.fs (.rename it.file)] := by
  simp [closeOps]

theorem closeOps_snd (it : OutItem) :
    (closeOps it).2 = (trimOps it.file (it.written.length + 1) it.written).2 := rfl

/-- file system right after an output file has been closed -/
theorem fsAt_close {fs0 : List (Str × Str)} {it : OutItem} {evs : List UEv}
    (ht : getFile (fsAt fs0 evs).temps it.file = some it.written) :
    fsAt fs0 (evs ++ (closeOps it).1.map UEv.fs) =
      { files := setFile (fsAt fs0 evs).files it.file (closeOps it).2,
        temps := delFile (setFile (fsAt fs0 evs).temps it.file (closeOps it).2) it.file } := by
  rw [closeOps_fst, ← List.append_assoc, fsAt_snoc_fs, fsAt_append_fs,
    trimOps_apply it.file _ _ _ ht]
  simp only [FsOp.apply, getFile_setFile_same, closeOps_snd]

theorem InvA.closed {fs0 : List (Str × Str)} {it : OutItem} {rest : List OutItem}
    {evs : List UEv} {final : List (Str × Str)} (h : InvA fs0 (it :: rest) evs final)
    (hf : it.file ∉ rest.map (·.file)) :
    InvA fs0 rest (evs ++ (closeOps it).1.map UEv.fs) (final ++ [(it.file, (closeOps it).2)]) := by
  have ht := h.temps it List.mem_cons_self
  constructor
  · intro it' hit
    rw [fsAt_close ht]
    simp only
    have hne : it'.file ≠ it.file := by
      intro he
      exact hf (List.mem_map.mpr ⟨it', hit, he⟩)
    rw [getFile_delFile_other _ _ _ hne, getFile_setFile_other _ _ _ _ hne]
    exact h.temps it' (List.mem_cons_of_mem _ hit)
  · rw [closeOps_fst, ← List.append_assoc]
    have h0 : AtomicEvs fs0 (final ++ [(it.file, (closeOps it).2)]) evs :=
      h.atomic.mono (fun x hx => List.mem_append_left _ hx)
    have h1 : AtomicEvs fs0 (final ++ [(it.file, (closeOps it).2)])
        (evs ++ (trimOps it.file (it.written.length + 1) it.written).1.map UEv.fs) := by
      refine AtomicEvs.append_no_rename _ h0 ?_
      intro e he
      obtain ⟨op, hop, rfl⟩ := List.mem_map.mp he
      obtain ⟨k, _, _, rfl⟩ := trimOps_ops_dropTail _ _ _ op hop
      rfl
    refine h1.snoc_rename it.file (closeOps it).2 ?_ (by simp)
    rw [fsAt_append_fs, trimOps_apply it.file _ _ _ ht]
    simp only [getFile_setFile_same, closeOps_snd]

theorem InvA.set_halt {fs0 : List (Str × Str)} {parent : OutItem} {rest : List OutItem}
    {evs : List UEv} {final : List (Str × Str)} (h : InvA fs0 (parent :: rest) evs final)
    (b : Bool) : InvA fs0 ({ parent with halt := b } :: rest) evs final := by
  constructor
  · intro it hit
    rcases List.mem_cons.mp hit with hit | hit
    · subst hit
      exact h.temps parent List.mem_cons_self
    · exact h.temps it (List.mem_cons_of_mem _ hit)
  · exact h.atomic

theorem InvA.drop_stack {fs0 : List (Str × Str)} {stack : List OutItem}
    {evs : List UEv} {final : List (Str × Str)} (h : InvA fs0 stack evs final) :
    InvA fs0 [] evs final :=
  ⟨fun _ hit => (by cases hit), h.atomic⟩

/-! ### which files are open: the bracketing predicates -/

/-- names of the open output files after one more record -/
def openAfter (st : List Str) : Rec → List Str
  | .beginInclude f => f :: st
  | .endInclude _ => st.drop 1
  | _ => st

theorem openAfter_of_not_injected (st : List Str) {r : Rec} (h : r.isInjected = false) :
    openAfter st r = st := by
  cases r <;> first | rfl | (simp [Rec.isInjected] at h)

/-- no path is open twice at the same time (no file includes itself, directly or indirectly);
`st` = the currently open files, innermost first -/
def DistinctOpen : List Str → List Rec → Prop
  | st, [] => st.Nodup
  | st, r :: rs => st.Nodup ∧ DistinctOpen (openAfter st r) rs

instance instDecidableDistinctOpen : (st : List Str) → (rs : List Rec) →
    Decidable (DistinctOpen st rs)
  | st, [] => inferInstanceAs (Decidable st.Nodup)
  | st, r :: rs =>
    have := instDecidableDistinctOpen (openAfter st r) rs
    inferInstanceAs (Decidable (st.Nodup ∧ DistinctOpen (openAfter st r) rs))

theorem DistinctOpen.nodup {st : List Str} {rs : List Rec} (h : DistinctOpen st rs) :
    st.Nodup := by
  cases rs with
  | nil => exact h
  | cons r rs => exact h.1

/-- the begin/end markers are balanced; `d` = number of includes currently open -/
def MarkersBalanced : Nat → List Rec → Prop
  | d, [] => d = 0
  | d, r :: rs =>
    match r with
    | .beginInclude _ => MarkersBalanced (d + 1) rs
    | .endInclude _ => d ≠ 0 ∧ MarkersBalanced (d - 1) rs
    | _ => MarkersBalanced d rs

instance instDecidableMarkersBalanced : (d : Nat) → (rs : List Rec) → Decidable (MarkersBalanced d rs)
  | d, [] => inferInstanceAs (Decidable (d = 0))
  | d, r :: rs =>
    match r with
    | .beginInclude _ => instDecidableMarkersBalanced (d + 1) rs
    | .endInclude _ =>
      have := instDecidableMarkersBalanced (d - 1) rs
      inferInstanceAs (Decidable (d ≠ 0 ∧ MarkersBalanced (d - 1) rs))
    | .incl .. | .statement .. | .query .. | .system .. | .sleep .. | .subtest .. | .halt ..
    | .control .. | .hashThreshold .. | .condition .. | .connection .. | .comment ..
    | .newline => instDecidableMarkersBalanced d rs

theorem MarkersBalanced_cons_of_not_injected (d : Nat) {r : Rec} (rs : List Rec)
    (h : r.isInjected = false) : MarkersBalanced d (r :: rs) ↔ MarkersBalanced d rs := by
  cases r <;> first | exact Iff.rfl | (simp [Rec.isInjected] at h)

/-- names of the open files follow `openAfter` -/
theorem UStep.files {σ : Type} {uc : UCfg} {format : Bool} {s s' : UState σ} {r : Rec}
    (h : UStep uc format s s' r)
    (hc : s'.crashed = false) :
    s'.stack.map (·.file) = openAfter (s.stack.map (·.file)) r := by
  match h with
  | .frozen _ _ hc' _ _ _ => rw [hc'] at hc; cases hc
  | .opened f halt _ _ hs _ _ => rw [hs]; rfl
  | .closed g it parent rest _ _ hs hs' _ _ => rw [hs, hs']; rfl
  | .wrote _ r' it rest u dbs halt' _ _ hr hs _ _ hs' _ _ =>
    rw [openAfter_of_not_injected _ hr, hs, hs']; rfl

/-- a step from a crashed state goes nowhere; a step to a live state starts in a live state -/
theorem UStep.live {σ : Type} {uc : UCfg} {format : Bool} {s s' : UState σ} {r : Rec}
    (h : UStep uc format s s' r)
    (hc : s'.crashed = false) : s.crashed = false := by
  match h with
  | .frozen _ _ hc' _ _ _ => rw [hc'] at hc; cases hc
  | .opened _ _ h0 _ _ _ _ => exact h0
  | .closed _ _ _ _ h0 _ _ _ _ _ => exact h0
  | .wrote _ _ _ _ _ _ _ h0 _ _ _ _ _ _ _ _ => exact h0

theorem InvA.step {σ : Type} {uc : UCfg} {format : Bool} {fs0 : List (Str × Str)}
    {s s' : UState σ} {r : Rec}
    (h : InvA fs0 s.stack s.evs s.final) (hst : UStep uc format s s' r)
    (hnd : s.crashed = false → (s.stack.map (·.file)).Nodup ∧
      (openAfter (s.stack.map (·.file)) r).Nodup) :
    InvA fs0 s'.stack s'.evs s'.final := by
  match hst with
  | .frozen _ _ _ h1 h2 h3 => rw [h1, h2, h3]; exact h
  | .opened f halt hc _ hs he hf =>
    rw [hs, he, hf]
    have := (hnd hc).2
    simp only [openAfter, List.nodup_cons] at this
    exact h.opened f halt this.1
  | .closed g it parent rest hc _ hs hs' he hf =>
    rw [hs', he, hf]
    rw [hs] at h
    have := (hnd hc).1
    rw [hs] at this
    simp only [List.map_cons, List.nodup_cons] at this
    exact (h.closed (by simpa using this.1)).set_halt _
  | .wrote _ r' it rest u dbs halt' hc _ hr hs _ _ hs' he hf =>
    rw [hs', he, hf]
    rw [hs] at h
    have := (hnd hc).1
    rw [hs] at this
    simp only [List.map_cons, List.nodup_cons] at this
    exact h.wrote _ dbs halt' this.1

theorem foldl_updateStep_InvA {σ : Type} (E : Env σ) (cfg : RCfg) (uc : UCfg) (format : Bool)
    (fs0 : List (Str × Str)) : ∀ (rs : List Rec) (s : UState σ),
    InvA fs0 s.stack s.evs s.final →
    (s.crashed = false → DistinctOpen (s.stack.map (·.file)) rs) →
    InvA fs0 (rs.foldl (updateStep E cfg uc format) s).stack
      (rs.foldl (updateStep E cfg uc format) s).evs
      (rs.foldl (updateStep E cfg uc format) s).final ∧
    ((rs.foldl (updateStep E cfg uc format) s).crashed = false →
      ((rs.foldl (updateStep E cfg uc format) s).stack.map (·.file)).Nodup) := by
  intro rs
  induction rs with
  | nil => intro s h hd; exact ⟨h, hd⟩
  | cons r rs ih =>
    intro s h hd
    rw [List.foldl_cons]
    have hst := updateStep_step E cfg uc format s r
    refine ih _ (h.step hst ?_) ?_
    · intro hc
      exact ⟨(hd hc).1, (hd hc).2.nodup⟩
    · intro hc'
      rw [hst.files hc']
      exact (hd (hst.live hc')).2

/-- the state `updateFile` starts from -/
abbrev updateInit {σ : Type} (w : World σ) (root : Str) : UState σ :=
  { world := w, stack := [⟨root, [], false⟩], evs := [.fs (.create root)] }

/-- the state after the records `recs` (before the root file is closed) -/
abbrev updateRun {σ : Type} (E : Env σ) (cfg : RCfg) (uc : UCfg) (format : Bool) (w : World σ)
    (root : Str) (recs : List Rec) : UState σ :=
  recs.foldl (updateStep E cfg uc format) (updateInit w root)

/-- `updateFile` unfolded -/
theorem updateFile_eq {σ : Type} (E : Env σ) (cfg : RCfg) (uc : UCfg) (format : Bool)
    (w : World σ) (root : Str) (recs : List Rec) :
    updateFile E cfg uc format w root recs =
      (let s := recs.foldl (updateStep E cfg uc format)
          { world := w, stack := [⟨root, [], false⟩], evs := [.fs (.create root)] }
       if s.crashed then s else
       match s.stack with
       | it :: _ =>
         { s with stack := [], evs := s.evs ++ (closeOps it).1.map UEv.fs,
                  final := s.final ++ [(it.file, (closeOps it).2)] }
       | [] => { s with crashed := true }) := rfl

theorem updateFile_InvA {σ : Type} (E : Env σ) (cfg : RCfg) (uc : UCfg) (format : Bool)
    (w : World σ) (root : Str) (recs : List Rec) (fs0 : List (Str × Str))
    (hd : DistinctOpen [root] recs) :
    InvA fs0 (updateFile E cfg uc format w root recs).stack
      (updateFile E cfg uc format w root recs).evs
      (updateFile E cfg uc format w root recs).final := by
  have h := foldl_updateStep_InvA E cfg uc format fs0 recs
    { world := w, stack := [⟨root, [], false⟩], evs := [.fs (.create root)] }
    (InvA.init fs0 root) (fun _ => hd)
  rw [updateFile_eq]
  simp only
  split
  · exact h.1
  · rename_i hc
    have hnd := h.2 (by simpa using hc)
    split
    · rename_i it tl hs
      rw [hs] at h hnd
      simp only [List.map_cons, List.nodup_cons] at hnd
      exact (h.1.closed hnd.1).drop_stack
    · exact h.1

/-! ### invariant K: the only temp files are those of open output files -/

def KeysIn (st : FsState) (K : List Str) : Prop := ∀ x ∈ st.temps, x.1 ∈ K

theorem KeysIn.setFile {st : FsState} {K : List Str} (h : KeysIn st K) (f c : Str) (hf : f ∈ K) :
    KeysIn { st with temps := Slt.setFile st.temps f c } K := by
  intro x hx
  rcases mem_setFile hx with hx | hx
  · exact h x hx
  · subst hx; exact hf

theorem KeysIn.mono {st : FsState} {K K' : List Str} (h : KeysIn st K) (hsub : ∀ f ∈ K, f ∈ K') :
    KeysIn st K' := fun x hx => hsub _ (h x hx)

theorem KeysIn.create {st : FsState} {K : List Str} (h : KeysIn st K) (f : Str) :
    KeysIn ((FsOp.create f).apply st) (f :: K) :=
  (h.mono (fun _ hg => List.mem_cons_of_mem _ hg)).setFile f [] List.mem_cons_self

theorem KeysIn.append {st : FsState} {K : List Str} (h : KeysIn st K) (f t : Str) (hf : f ∈ K) :
    KeysIn ((FsOp.append f t).apply st) K := h.setFile f _ hf

theorem KeysIn.dropTail {st : FsState} {K : List Str} (h : KeysIn st K) (f : Str) (k : Nat)
    (hf : f ∈ K) : KeysIn ((FsOp.dropTail f k).apply st) K := h.setFile f _ hf

theorem KeysIn.rename {st : FsState} {K : List Str} (f : Str) (h : KeysIn st (f :: K)) :
    KeysIn ((FsOp.rename f).apply st) K := by
  intro x hx
  simp only [FsOp.apply] at hx
  cases hg : getFile st.temps f with
  | none =>
    rw [hg] at hx
    simp only at hx
    rcases List.mem_cons.mp (h x hx) with hxf | hxf
    · have := getFile_isSome_of_mem hx
      rw [hxf, hg] at this
      cases this
    · exact hxf
  | some c =>
    rw [hg] at hx
    simp only at hx
    have hx' := mem_delFile.mp hx
    rcases List.mem_cons.mp (h x hx'.1) with hxf | hxf
    · exact absurd hxf hx'.2
    · exact hxf

theorem KeysIn.dropTails {K : List Str} (f : Str) (hf : f ∈ K) : ∀ (ops : List FsOp) (st : FsState),
    KeysIn st K → (∀ op ∈ ops, ∃ k, op = FsOp.dropTail f k) → KeysIn (applyFsOps st ops) K := by
  intro ops
  induction ops with
  | nil => intro st h _; exact h
  | cons op ops ih =>
    intro st h hops
    rw [applyFsOps_cons]
    obtain ⟨k, rfl⟩ := hops op List.mem_cons_self
    exact ih _ (h.dropTail f k hf) (fun o ho => hops o (List.mem_cons_of_mem _ ho))

/-- closing an output file removes its temp file and creates no other -/
theorem KeysIn.closed {fs0 : List (Str × Str)} {it : OutItem} {K : List Str} {evs : List UEv}
    (h : KeysIn (fsAt fs0 evs) (it.file :: K)) :
    KeysIn (fsAt fs0 (evs ++ (closeOps it).1.map UEv.fs)) K := by
  rw [closeOps_fst, ← List.append_assoc, fsAt_snoc_fs, fsAt_append_fs]
  refine KeysIn.rename it.file ?_
  refine KeysIn.dropTails it.file List.mem_cons_self _ _ h ?_
  intro op hop
  obtain ⟨k, _, _, hk⟩ := trimOps_ops_dropTail _ _ _ op hop
  exact ⟨k, hk⟩

theorem KeysIn.step {σ : Type} {uc : UCfg} {format : Bool} {fs0 : List (Str × Str)}
    {s s' : UState σ} {r : Rec}
    (h : KeysIn (fsAt fs0 s.evs) (s.stack.map (·.file))) (hst : UStep uc format s s' r) :
    KeysIn (fsAt fs0 s'.evs) (s'.stack.map (·.file)) := by
  match hst with
  | .frozen _ _ _ h1 h2 _ => rw [h1, h2]; exact h
  | .opened f halt _ _ hs he _ =>
    rw [hs, he, fsAt_snoc_fs]
    exact h.create f
  | .closed g it parent rest _ _ hs hs' he _ =>
    rw [hs', he]
    rw [hs] at h
    exact KeysIn.closed h
  | .wrote _ r' it rest u dbs halt' _ _ _ hs _ _ hs' he _ =>
    rw [hs', he, fsAt_snoc_fs, fsAt_append_dbs]
    rw [hs] at h
    exact h.append _ _ List.mem_cons_self

theorem foldl_updateStep_KeysIn {σ : Type} (E : Env σ) (cfg : RCfg) (uc : UCfg) (format : Bool)
    (fs0 : List (Str × Str)) : ∀ (rs : List Rec) (s : UState σ),
    KeysIn (fsAt fs0 s.evs) (s.stack.map (·.file)) →
    KeysIn (fsAt fs0 (rs.foldl (updateStep E cfg uc format) s).evs)
      ((rs.foldl (updateStep E cfg uc format) s).stack.map (·.file)) := by
  intro rs
  induction rs with
  | nil => intro s h; exact h
  | cons r rs ih =>
    intro s h
    rw [List.foldl_cons]
    exact ih _ (h.step (updateStep_step E cfg uc format s r))

theorem KeysIn.init (fs0 : List (Str × Str)) (root : Str) :
    KeysIn (fsAt fs0 [.fs (.create root)]) [root] := by
  intro x hx
  simp [fsAt, fsOpsOf, applyFsOps, FsOp.apply, Slt.setFile] at hx
  simp [hx]

theorem KeysIn.nil_temps {st : FsState} (h : KeysIn st []) : st.temps = [] := by
  cases ht : st.temps with
  | nil => rfl
  | cons x xs =>
    have := h x (by rw [ht]; exact List.mem_cons_self)
    cases this

/-! ### balanced markers: no crash, one open file at the end -/

theorem UStep.balanced {σ : Type} {uc : UCfg} {format : Bool} {s s' : UState σ} {r : Rec}
    {rs : List Rec}
    {d : Nat} (hst : UStep uc format s s' r) (hc : s.crashed = false) (hl : s.stack.length = d + 1)
    (hb : MarkersBalanced d (r :: rs)) :
    ∃ d', s'.crashed = false ∧ s'.stack.length = d' + 1 ∧ MarkersBalanced d' rs := by
  match hst with
  | .frozen _ hreason _ _ _ _ =>
    rcases hreason with h | h | ⟨g, rfl, h⟩
    · rw [hc] at h; cases h
    · rw [h] at hl; simp at hl
    · have : d = 0 := by omega
      subst this
      exact absurd rfl hb.1
  | .opened f halt _ hc' hs _ _ =>
    exact ⟨d + 1, hc', by rw [hs]; simp [hl], hb⟩
  | .closed g it parent rest _ hc' hs hs' _ _ =>
    refine ⟨d - 1, hc', ?_, hb.2⟩
    rw [hs] at hl
    rw [hs']
    simp at hl ⊢
    omega
  | .wrote _ r' it rest u dbs halt' _ hc' hr hs _ _ hs' _ _ =>
    refine ⟨d, hc', ?_, (MarkersBalanced_cons_of_not_injected d rs hr).mp hb⟩
    rw [hs] at hl
    rw [hs']
    simpa using hl

theorem foldl_updateStep_balanced {σ : Type} (E : Env σ) (cfg : RCfg) (uc : UCfg)
    (format : Bool) : ∀ (rs : List Rec) (s : UState σ) (d : Nat),
    s.crashed = false → s.stack.length = d + 1 → MarkersBalanced d rs →
    (rs.foldl (updateStep E cfg uc format) s).crashed = false ∧
    (rs.foldl (updateStep E cfg uc format) s).stack.length = 1 := by
  intro rs
  induction rs with
  | nil =>
    intro s d hc hl hb
    have : d = 0 := hb
    subst this
    exact ⟨hc, hl⟩
  | cons r rs ih =>
    intro s d hc hl hb
    rw [List.foldl_cons]
    obtain ⟨d', h1, h2, h3⟩ := (updateStep_step E cfg uc format s r).balanced hc hl hb
    exact ih _ d' h1 h2 h3

/-! ### invariant S: buffers are sequences of written records -/

theorem writeRecords_snoc {rs : List Rec} {w : Str} {r : Rec} {u : Str}
    (h : writeRecords rs = some w) (hu : unparse r = some u) :
    writeRecords (rs ++ [r]) = some (w ++ (u ++ ['\n'])) := by
  induction rs generalizing w with
  | nil =>
    simp [writeRecords] at h
    subst h
    simp [writeRecords, hu]
  | cons r0 rs ih =>
    simp only [writeRecords, List.cons_append] at h ⊢
    cases h0 : unparse r0 with
    | none => rw [h0] at h; simp at h
    | some a =>
      cases h1 : writeRecords rs with
      | none => rw [h0, h1] at h; simp at h
      | some b =>
        rw [h0, h1] at h
        simp only [Option.some.injEq] at h
        subst h
        rw [ih h1]
        simp

theorem writeRecords_shape : ∀ {rs : List Rec} {w : Str}, writeRecords rs = some w → NlShape w := by
  intro rs
  induction rs with
  | nil =>
    intro w h
    simp [writeRecords] at h
    exact Or.inl h
  | cons r0 rs ih =>
    intro w h
    simp only [writeRecords] at h
    cases h0 : unparse r0 with
    | none => rw [h0] at h; simp at h
    | some a =>
      cases h1 : writeRecords rs with
      | none => rw [h0, h1] at h; simp at h
      | some b =>
        rw [h0, h1] at h
        simp only [Option.some.injEq] at h
        subst h
        right
        rcases ih h1 with hb | hb
        · subst hb
          simp
        · have : b ≠ [] := by intro hb'; subst hb'; simp at hb
          obtain ⟨c, cs, rfl⟩ := List.exists_cons_of_ne_nil this
          simp [List.getLast?_append, hb]

/-- what closing leaves of a buffer of written records: `normalizeTail` of it -/
theorem closeOps_of_shape (it : OutItem) (h : NlShape it.written) :
    (closeOps it).2 = normalizeTail it.written := by
  rw [closeOps_snd, ← trimRun_eq]
  have := trimRun_shape it.file it.written h (it.written.length + 1)
    (by have := trailingNl_le_length it.written; omega)
  rw [this]

structure InvS (stack : List OutItem) (final : List (Str × Str)) : Prop where
  written : ∀ it ∈ stack, ∃ rs, writeRecords rs = some it.written
  final : ∀ x ∈ final, ∃ rs, fmtFile rs = some x.2

theorem InvS.closed {it : OutItem} {rest : List OutItem} {final : List (Str × Str)}
    (h : InvS (it :: rest) final) : InvS rest (final ++ [(it.file, (closeOps it).2)]) := by
  constructor
  · intro it' hit
    exact h.written it' (List.mem_cons_of_mem _ hit)
  · intro x hx
    rcases List.mem_append.mp hx with hx | hx
    · exact h.final x hx
    · simp only [List.mem_singleton] at hx
      subst hx
      obtain ⟨rs, hrs⟩ := h.written it List.mem_cons_self
      refine ⟨rs, ?_⟩
      simp only [fmtFile, hrs, Option.map_some]
      rw [closeOps_of_shape it (writeRecords_shape hrs)]

theorem InvS.step {σ : Type} {uc : UCfg} {format : Bool} {s s' : UState σ} {r : Rec}
    (h : InvS s.stack s.final) (hst : UStep uc format s s' r) : InvS s'.stack s'.final := by
  match hst with
  | .frozen _ _ _ h1 _ h3 => rw [h1, h3]; exact h
  | .opened f halt _ _ hs _ hf =>
    rw [hs, hf]
    constructor
    · intro it hit
      rcases List.mem_cons.mp hit with hit | hit
      · subst hit; exact ⟨[], rfl⟩
      · exact h.written it hit
    · exact h.final
  | .closed g it parent rest _ _ hs hs' _ hf =>
    rw [hs', hf]
    rw [hs] at h
    have h' := h.closed
    constructor
    · intro it' hit
      rcases List.mem_cons.mp hit with hit | hit
      · subst hit; exact h'.written parent List.mem_cons_self
      · exact h'.written it' (List.mem_cons_of_mem _ hit)
    · exact h'.final
  | .wrote _ r' it rest u dbs halt' _ _ _ hs _ hu hs' _ hf =>
    rw [hs', hf]
    rw [hs] at h
    constructor
    · intro it' hit
      rcases List.mem_cons.mp hit with hit | hit
      · subst hit
        obtain ⟨rs, hrs⟩ := h.written it List.mem_cons_self
        exact ⟨rs ++ [r'], writeRecords_snoc hrs hu⟩
      · exact h.written it' (List.mem_cons_of_mem _ hit)
    · exact h.final

theorem foldl_updateStep_InvS {σ : Type} (E : Env σ) (cfg : RCfg) (uc : UCfg) (format : Bool) :
    ∀ (rs : List Rec) (s : UState σ), InvS s.stack s.final →
    InvS (rs.foldl (updateStep E cfg uc format) s).stack
      (rs.foldl (updateStep E cfg uc format) s).final := by
  intro rs
  induction rs with
  | nil => intro s h; exact h
  | cons r rs ih =>
    intro s h
    rw [List.foldl_cons]
    exact ih _ (h.step (updateStep_step E cfg uc format s r))

theorem InvS.init (root : Str) : InvS [⟨root, [], false⟩] [] := by
  constructor
  · intro it hit
    simp only [List.mem_singleton] at hit
    subst hit
    exact ⟨[], rfl⟩
  · intro x hx; cases hx

theorem updateFile_InvS {σ : Type} (E : Env σ) (cfg : RCfg) (uc : UCfg) (format : Bool)
    (w : World σ) (root : Str) (recs : List Rec) :
    InvS (updateFile E cfg uc format w root recs).stack
      (updateFile E cfg uc format w root recs).final := by
  have h := foldl_updateStep_InvS E cfg uc format recs
    { world := w, stack := [⟨root, [], false⟩], evs := [.fs (.create root)] } (InvS.init root)
  rw [updateFile_eq]
  simp only
  split
  · exact h
  · split
    · rename_i it tl hs
      rw [hs] at h
      exact ⟨fun _ hit => (by cases hit), h.closed.final⟩
    · exact h

/-- with balanced markers the update runs to completion: no crash, every output file closed,
no temp file left -/
theorem updateFile_balanced {σ : Type} (E : Env σ) (cfg : RCfg) (uc : UCfg) (format : Bool)
    (w : World σ) (root : Str) (recs : List Rec) (fs0 : List (Str × Str))
    (hb : MarkersBalanced 0 recs) :
    (updateFile E cfg uc format w root recs).crashed = false ∧
    (updateFile E cfg uc format w root recs).stack = [] ∧
    (fsAt fs0 (updateFile E cfg uc format w root recs).evs).temps = [] := by
  have h := foldl_updateStep_balanced E cfg uc format recs
    { world := w, stack := [⟨root, [], false⟩], evs := [.fs (.create root)] } 0 rfl rfl hb
  have hk := foldl_updateStep_KeysIn E cfg uc format fs0 recs
    { world := w, stack := [⟨root, [], false⟩], evs := [.fs (.create root)] }
    (KeysIn.init fs0 root)
  rw [updateFile_eq]
  simp only [h.1, Bool.false_eq_true, ↓reduceIte]
  split
  · rename_i it tl hs
    have hl := h.2
    rw [hs] at hl hk
    have : tl = [] := by
      cases tl with
      | nil => rfl
      | cons a b => simp at hl
    subst this
    refine ⟨rfl, rfl, ?_⟩
    exact (KeysIn.closed hk).nil_temps
  · rename_i hs
    have hl := h.2
    rw [hs] at hl
    simp at hl

/-! ### exactly one final newline -/

theorem normalizeTail_one_newline {w : Str} (h : NlShape w) :
    normalizeTail w = [] ∨
      ((normalizeTail w).getLast? = some '\n' ∧ ¬ ['\n', '\n'] <:+ normalizeTail w) := by
  rcases h with h | h
  · subst h; exact Or.inl rfl
  · have hne : w ≠ [] := by intro h0; subst h0; simp at h
    right
    rw [normalizeTail_of_shape hne h]
    refine ⟨by simp, ?_⟩
    rintro ⟨t, ht⟩
    have h1 : (t ++ ['\n']) ++ ['\n'] = stripNl w ++ ['\n'] := by simpa using ht
    have h2 : t ++ ['\n'] = stripNl w := List.append_cancel_right h1
    have := stripNl_getLast w
    rw [← h2] at this
    simp at this

theorem fmtFile_one_newline {rs : List Rec} {c : Str} (h : fmtFile rs = some c) :
    c = [] ∨ (c.getLast? = some '\n' ∧ ¬ ['\n', '\n'] <:+ c) := by
  unfold fmtFile at h
  cases hw : writeRecords rs with
  | none => rw [hw] at h; simp at h
  | some w =>
    rw [hw] at h
    simp only [Option.map_some, Option.some.injEq] at h
    subst h
    exact normalizeTail_one_newline (writeRecords_shape hw)

end Slt
