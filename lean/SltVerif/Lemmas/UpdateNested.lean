/-
Helper lemmas for C08, part 5: the bracketing guard of `no_debris` holds for everything
`parse_file` produces.  Bridge to the nesting theorem of C14 (`Nested`, `Chained`, `Spliced` from
`Lemmas/Include*.lean`).
-/
import SltVerif.Lemmas.UpdateOwn
import SltVerif.Lemmas.IncludeLoc
namespace Slt

theorem isInjected_eq_isMarker (r : Rec) : r.isInjected = r.isMarker := by
  cases r <;> rfl

/-- a Dyck word of markers (C14) is balanced in the sense the updater needs -/
theorem markersBalanced_of_nested {rs : List Rec} (h : Nested rs) : MarkersBalanced 0 rs := by
  induction h with
  | nil => exact MarkersBalanced.nil
  | plain hr _ ih => exact MarkersBalanced.plain (by rw [isInjected_eq_isMarker]; exact hr) ih
  | block _ _ ih1 ih2 => exact MarkersBalanced.block ih1 ih2

/-- the records of every successful `parse_file` have balanced markers -/
theorem parseFile_markersBalanced {cfg : PCfg} {fs : Fs} {fuel : Nat} {f : Str}
    {upper : List (Str × Nat)} {out : List LRec}
    (h : parseFile cfg fs fuel f upper = .ok out) : MarkersBalanced 0 (out.map (·.record)) :=
  markersBalanced_of_nested ((spliced_of_parseFile fuel f upper out h).chained trivial).nested

end Slt
