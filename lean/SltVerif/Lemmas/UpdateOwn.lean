/-
Helper lemmas for C08, part 4: ownership.  Every content renamed onto a path `f` is the
formatted output of exactly the records that lie between the begin marker of (one inclusion of)
`f` and its end marker, at nesting depth 0 — nothing of the including file, nothing of files
included further down — each record possibly replaced by its update.
-/
import SltVerif.Lemmas.UpdateInv
namespace Slt

/-- the records owned by the innermost file that is open at the start of the list: those at
nesting depth 0, up to (not including) the end marker of that file; `d` = current depth below it -/
def ownRecs : Nat → List Rec → List Rec
  | _, [] => []
  | d, r :: rs =>
    match r with
    | .beginInclude _ => ownRecs (d + 1) rs
    | .endInclude _ => if d = 0 then [] else ownRecs (d - 1) rs
    | _ => if d = 0 then r :: ownRecs 0 rs else ownRecs d rs

theorem ownRecs_nil (d : Nat) : ownRecs d [] = [] := by
  cases d <;> rfl

theorem ownRecs_begin (d : Nat) (f : Str) (rs : List Rec) :
    ownRecs d (.beginInclude f :: rs) = ownRecs (d + 1) rs := rfl

theorem ownRecs_end_zero (g : Str) (rs : List Rec) : ownRecs 0 (.endInclude g :: rs) = [] := rfl

theorem ownRecs_end_succ (d : Nat) (g : Str) (rs : List Rec) :
    ownRecs (d + 1) (.endInclude g :: rs) = ownRecs d rs := by
  simp [ownRecs]

theorem ownRecs_plain_zero {r : Rec} (h : r.isInjected = false) (rs : List Rec) :
    ownRecs 0 (r :: rs) = r :: ownRecs 0 rs := by
  cases r <;> first | rfl | (simp [Rec.isInjected] at h)

theorem ownRecs_plain_succ {r : Rec} (h : r.isInjected = false) (d : Nat) (rs : List Rec) :
    ownRecs (d + 1) (r :: rs) = ownRecs (d + 1) rs := by
  cases r <;> first | (simp [ownRecs]; done) | (simp [Rec.isInjected] at h)

/-- two lists of the same length related element by element -/
inductive ListRel {α β : Type} (R : α → β → Prop) : List α → List β → Prop
  | nil : ListRel R [] []
  | cons {x y xs ys} : R x y → ListRel R xs ys → ListRel R (x :: xs) (y :: ys)

theorem ListRel.length_eq {α β : Type} {R : α → β → Prop} {a : List α} {b : List β}
    (h : ListRel R a b) : a.length = b.length := by
  induction h with
  | nil => rfl
  | cons _ _ ih => simp [ih]

theorem ListRel.snoc {α β : Type} {R : α → β → Prop} {a : List α} {b : List β} {x : α} {y : β}
    (h : ListRel R a b) (hxy : R x y) : ListRel R (a ++ [x]) (b ++ [y]) := by
  induction h with
  | nil => exact .cons hxy .nil
  | cons h1 _ ih => exact .cons h1 ih

theorem ListRel.eq_of_eq {α : Type} {a b : List α} (h : ListRel (fun x y => y = x) a b) :
    b = a := by
  induction h with
  | nil => rfl
  | cons h1 _ ih => rw [h1, ih]

theorem ListRel.mono {α β : Type} {R S : α → β → Prop} {a : List α} {b : List β}
    (h : ListRel R a b) (himp : ∀ x y, R x y → S x y) : ListRel S a b := by
  induction h with
  | nil => exact .nil
  | cons h1 _ ih => exact .cons (himp _ _ h1) ih

theorem ListRel.of_mem {α β : Type} {R : α → β → Prop} {a : List α} {b : List β}
    (h : ListRel R a b) {x : α} (hx : x ∈ a) : ∃ y ∈ b, R x y := by
  induction h with
  | nil => cases hx
  | cons h1 _ ih =>
    rcases List.mem_cons.mp hx with hx | hx
    · subst hx; exact ⟨_, List.mem_cons_self, h1⟩
    · obtain ⟨y, hy, hr⟩ := ih hx
      exact ⟨y, List.mem_cons_of_mem _ hy, hr⟩

/-- when formatting, a record is written as it is -/
theorem UpdOf.format_eq {uc : UCfg} {r r' : Rec} (h : UpdOf uc true r r') : r' = r := by
  rcases h with h | ⟨h, _⟩
  · exact h
  · cases h

/-- where an output file `f` was opened: `none` = it is the root file, open from the start;
`some i` = by the begin marker at position `i` of the flattened list -/
def OriginAt (recs : List Rec) (root f : Str) : Option Nat → Prop
  | none => f = root
  | some i => recs[i]? = some (.beginInclude f)

/-- the records that follow that point -/
def sufOf (recs : List Rec) : Option Nat → List Rec
  | none => recs
  | some i => recs.drop (i + 1)

/-- the output file (`file`, `written`) at depth `j` of the stack was opened at `o`; `post` is
still to come -/
def OwnItem (uc : UCfg) (format : Bool) (recs : List Rec) (root : Str) (post : List Rec)
    (j : Nat) (file written : Str) (o : Option Nat) : Prop :=
  OriginAt recs root file o ∧
  ∃ acc rs', ownRecs 0 (sufOf recs o) = acc ++ ownRecs j post ∧
    ListRel (UpdOf uc format) acc rs' ∧ writeRecords rs' = some written

inductive OwnStack (uc : UCfg) (format : Bool) (recs : List Rec) (root : Str) (post : List Rec) :
    Nat → List OutItem → List (Option Nat) → Prop
  | nil {j} : OwnStack uc format recs root post j [] []
  | cons {j it o rest os} : OwnItem uc format recs root post j it.file it.written o →
      OwnStack uc format recs root post (j + 1) rest os →
      OwnStack uc format recs root post j (it :: rest) (o :: os)

/-- a renamed content and the point where its file was opened -/
def OwnEntry (uc : UCfg) (format : Bool) (recs : List Rec) (root : Str) (x : Str × Str)
    (o : Option Nat) : Prop :=
  OriginAt recs root x.1 o ∧
  ∃ rs', ListRel (UpdOf uc format) (ownRecs 0 (sufOf recs o)) rs' ∧ fmtFile rs' = some x.2

/-- re-indexing the stack when the next record is consumed -/
theorem OwnStack.shift {uc : UCfg} {format : Bool} {recs : List Rec} {root : Str}
    {post post' : List Rec} {stack : List OutItem} {so : List (Option Nat)} {j : Nat} (δ : Nat → Nat)
    (hδ : ∀ k, j ≤ k → ownRecs k post = ownRecs (δ k) post')
    (hmono : ∀ k, j ≤ k → δ (k + 1) = δ k + 1)
    (h : OwnStack uc format recs root post j stack so) :
    OwnStack uc format recs root post' (δ j) stack so := by
  induction h with
  | nil => exact .nil
  | @cons j it o rest os hit _ ih =>
    refine .cons ?_ ?_
    · obtain ⟨ho, acc, rs', hown, hall, hw⟩ := hit
      exact ⟨ho, acc, rs', by rw [hown, hδ j (Nat.le_refl _)], hall, hw⟩
    · rw [← hmono j (Nat.le_refl _)]
      exact ih (fun k hk => hδ k (by omega)) (fun k hk => hmono k (by omega))

/-- closing an item whose own records are complete -/
theorem OwnItem.closed {uc : UCfg} {format : Bool} {recs : List Rec} {root : Str}
    {post : List Rec} {it : OutItem} {o : Option Nat}
    (h : OwnItem uc format recs root post 0 it.file it.written o) (hpost : ownRecs 0 post = []) :
    OwnEntry uc format recs root (it.file, (closeOps it).2) o := by
  obtain ⟨ho, acc, rs', hown, hall, hw⟩ := h
  rw [hpost, List.append_nil] at hown
  refine ⟨ho, rs', by rw [hown]; exact hall, ?_⟩
  simp only [fmtFile, hw, Option.map_some]
  rw [closeOps_of_shape it (writeRecords_shape hw)]

/-- the ownership invariant: `os` lists where the files renamed so far were opened, `so` where
the currently open files were opened; no opening occurs twice -/
def OwnInv {σ : Type} (uc : UCfg) (format : Bool) (recs : List Rec) (root : Str)
    (pre post : List Rec) (s : UState σ) : Prop :=
  ∃ os : List (Option Nat), ListRel (OwnEntry uc format recs root) s.final os ∧ os.Nodup ∧
    (s.crashed = false → ∃ so : List (Option Nat),
      OwnStack uc format recs root post 0 s.stack so ∧ (so ++ os).Nodup ∧
      ∀ i, some i ∈ so ++ os → i < pre.length)

theorem nodup_move {α : Type} {o : α} {so os : List α} (h : ((o :: so) ++ os).Nodup) :
    (so ++ (os ++ [o])).Nodup ∧ (os ++ [o]).Nodup := by
  have hp : (so ++ (os ++ [o])).Perm ((o :: so) ++ os) := by
    rw [← List.append_assoc]
    exact List.perm_append_singleton o (so ++ os)
  have h1 : (so ++ (os ++ [o])).Nodup := hp.nodup_iff.mpr h
  exact ⟨h1, (List.nodup_append.mp h1).2.1⟩

theorem own_step {σ : Type} {uc : UCfg} {format : Bool} {recs pre post : List Rec} {root : Str}
    {s s' : UState σ} {r : Rec} (hrecs : recs = pre ++ r :: post)
    (hst : UStep uc format s s' r) (h : OwnInv uc format recs root pre (r :: post) s) :
    OwnInv uc format recs root (pre ++ [r]) post s' := by
  obtain ⟨os, hfin, hnd, hlive⟩ := h
  match hst with
  | .frozen _ _ hc' _ _ h3 =>
    refine ⟨os, by rw [h3]; exact hfin, hnd, fun hc => ?_⟩
    rw [hc'] at hc; cases hc
  | .opened f halt hc _ hst' _ hf =>
    obtain ⟨so, hstack, hnd2, hbound⟩ := hlive hc
    refine ⟨os, by rw [hf]; exact hfin, hnd, fun _ => ⟨some pre.length :: so, ?_, ?_, ?_⟩⟩
    · rw [hst']
      refine .cons ⟨?_, [], [], ?_, .nil, rfl⟩ ?_
      · show recs[pre.length]? = _
        rw [hrecs]; simp
      · show ownRecs 0 (recs.drop (pre.length + 1)) = [] ++ ownRecs 0 post
        rw [hrecs]; simp
      · exact hstack.shift (fun k => k + 1) (fun k _ => ownRecs_begin k f post) (fun _ _ => rfl)
    · rw [List.cons_append, List.nodup_cons]
      refine ⟨fun hmem => ?_, hnd2⟩
      have := hbound _ hmem
      omega
    · intro i hi
      rw [List.cons_append, List.mem_cons] at hi
      simp only [List.length_append, List.length_cons, List.length_nil]
      rcases hi with hi | hi
      · cases hi; omega
      · have := hbound i hi; omega
  | .closed g it parent rest hc _ hstk hst' _ hf =>
    obtain ⟨so, hstack, hnd2, hbound⟩ := hlive hc
    rw [hstk] at hstack
    cases hstack with
    | @cons _ _ o _ so' hit hrest =>
      have hmv := nodup_move hnd2
      refine ⟨os ++ [o], ?_, hmv.2, fun _ => ⟨so', ?_, hmv.1, ?_⟩⟩
      · rw [hf]
        exact hfin.snoc (hit.closed (ownRecs_end_zero g post))
      · rw [hst']
        have h1 := hrest.shift (fun k => k - 1)
          (fun k hk => by
            obtain ⟨k', rfl⟩ : ∃ k', k = k' + 1 := ⟨k - 1, by omega⟩
            exact ownRecs_end_succ k' g post)
          (fun k hk => by show k + 1 - 1 = k - 1 + 1; omega)
        cases h1 with
        | cons hp hr => exact .cons hp hr
      · intro i hi
        simp only [List.length_append, List.length_cons, List.length_nil]
        have : some i ∈ (o :: so') ++ os := by
          rcases List.mem_append.mp hi with hi | hi
          · exact List.mem_append_left _ (List.mem_cons_of_mem _ hi)
          · rcases List.mem_append.mp hi with hi | hi
            · exact List.mem_append_right _ hi
            · rw [List.mem_singleton.mp hi]
              exact List.mem_append_left _ List.mem_cons_self
        have := hbound i this
        omega
  | .wrote _ r' it rest u dbs halt' hc _ hr hstk hupd hu hst' _ hf =>
    obtain ⟨so, hstack, hnd2, hbound⟩ := hlive hc
    rw [hstk] at hstack
    refine ⟨os, by rw [hf]; exact hfin, hnd, fun _ => ⟨so, ?_, hnd2, ?_⟩⟩
    · rw [hst']
      cases hstack with
      | @cons _ _ o _ so' hit hrest =>
        refine .cons ?_ ?_
        · obtain ⟨ho, acc, rs', hown, hall, hw⟩ := hit
          refine ⟨ho, acc ++ [r], rs' ++ [r'], ?_, hall.snoc hupd, writeRecords_snoc hw hu⟩
          rw [hown, ownRecs_plain_zero hr]
          simp
        · exact hrest.shift (fun k => k)
            (fun k hk => by
              obtain ⟨k', rfl⟩ : ∃ k', k = k' + 1 := ⟨k - 1, by omega⟩
              exact ownRecs_plain_succ hr k' post)
            (fun _ _ => rfl)
    · intro i hi
      simp only [List.length_append, List.length_cons, List.length_nil]
      have := hbound i hi
      omega

theorem foldl_updateStep_own {σ : Type} (E : Env σ) (cfg : RCfg) (uc : UCfg) (format : Bool)
    (recs : List Rec) (root : Str) : ∀ (post pre : List Rec) (s : UState σ),
    recs = pre ++ post → OwnInv uc format recs root pre post s →
    OwnInv uc format recs root recs [] (post.foldl (updateStep E cfg uc format) s) := by
  intro post
  induction post with
  | nil =>
    intro pre s hrecs h
    obtain rfl : recs = pre := by rw [hrecs]; simp
    exact h
  | cons r post ih =>
    intro pre s hrecs h
    rw [List.foldl_cons]
    exact ih (pre ++ [r]) _ (by rw [hrecs]; simp)
      (own_step hrecs (updateStep_step E cfg uc format s r) h)

theorem updateFile_own {σ : Type} (E : Env σ) (cfg : RCfg) (uc : UCfg) (format : Bool)
    (w : World σ) (root : Str) (recs : List Rec) :
    ∃ os : List (Option Nat), os.Nodup ∧
      ListRel (OwnEntry uc format recs root) (updateFile E cfg uc format w root recs).final os := by
  have h := foldl_updateStep_own E cfg uc format recs root recs [] (updateInit w root) rfl
    ⟨[], .nil, List.nodup_nil, fun _ => ⟨[none],
      .cons ⟨rfl, [], [], rfl, .nil, rfl⟩ .nil, by simp, by intro i hi; simp at hi⟩⟩
  obtain ⟨os, hfin, hnd, hlive⟩ := h
  rw [updateFile_eq]
  simp only
  split
  · exact ⟨os, hnd, hfin⟩
  · rename_i hc
    obtain ⟨so, hstack, hnd2, _⟩ := hlive (by simpa using hc)
    split
    · rename_i it tl hstk
      have hstack' : OwnStack uc format recs root [] 0 (it :: tl) so := by
        have := hstack
        rw [show (List.foldl (updateStep E cfg uc format) (updateInit w root) recs).stack =
          it :: tl from hstk] at this
        exact this
      cases hstack' with
      | @cons _ _ o _ so' hit _ =>
        exact ⟨os ++ [o], (nodup_move hnd2).2, hfin.snoc (hit.closed (ownRecs_nil 0))⟩
    · exact ⟨os, hnd, hfin⟩

/-- `OwnEntry` spelled out -/
theorem OwnEntry.explicit {uc : UCfg} {format : Bool} {recs : List Rec} {root f c : Str}
    {o : Option Nat} (h : OwnEntry uc format recs root (f, c) o) :
    ∃ suf rs',
      ((f = root ∧ suf = recs) ∨
        ∃ i, recs[i]? = some (.beginInclude f) ∧ suf = recs.drop (i + 1)) ∧
      ListRel (UpdOf uc format) (ownRecs 0 suf) rs' ∧ fmtFile rs' = some c := by
  obtain ⟨ho, rs', hall, hfmt⟩ := h
  cases o with
  | none => exact ⟨recs, rs', Or.inl ⟨ho, rfl⟩, hall, hfmt⟩
  | some i => exact ⟨recs.drop (i + 1), rs', Or.inr ⟨i, ho, rfl⟩, hall, hfmt⟩

/-! ### how many files are rewritten -/

/-- number of begin markers -/
def countBegins : List Rec → Nat
  | [] => 0
  | r :: rs =>
    match r with
    | .beginInclude _ => countBegins rs + 1
    | _ => countBegins rs

theorem countBegins_of_not_begin {r : Rec} (h : ∀ f, r ≠ .beginInclude f) (rs : List Rec) :
    countBegins (r :: rs) = countBegins rs := by
  cases r <;> first | rfl | exact absurd rfl (h _)

theorem foldl_updateStep_live {σ : Type} (E : Env σ) (cfg : RCfg) (uc : UCfg) (format : Bool) :
    ∀ (rs : List Rec) (s : UState σ),
    (rs.foldl (updateStep E cfg uc format) s).crashed = false → s.crashed = false := by
  intro rs
  induction rs with
  | nil => intro s h; exact h
  | cons r rs ih =>
    intro s h
    rw [List.foldl_cons] at h
    exact (updateStep_step E cfg uc format s r).live (ih _ h)

theorem UStep.count {σ : Type} {uc : UCfg} {format : Bool} {s s' : UState σ} {r : Rec}
    {rs : List Rec} (hst : UStep uc format s s' r) (hc : s'.crashed = false) :
    s'.final.length + s'.stack.length + countBegins rs =
      s.final.length + s.stack.length + countBegins (r :: rs) := by
  match hst with
  | .frozen _ _ hc' _ _ _ => rw [hc'] at hc; cases hc
  | .opened f halt _ _ hs _ hf =>
    rw [hs, hf]
    simp [countBegins]
    omega
  | .closed g it parent rest _ _ hs hs' _ hf =>
    rw [hs, hs', hf, countBegins_of_not_begin (fun f h => by cases h)]
    simp
    omega
  | .wrote _ r' it rest u dbs halt' _ _ hr hs _ _ hs' _ hf =>
    rw [hs, hs', hf, countBegins_of_not_begin (fun f h => by rw [h] at hr; cases hr)]
    simp

theorem foldl_updateStep_count {σ : Type} (E : Env σ) (cfg : RCfg) (uc : UCfg) (format : Bool) :
    ∀ (rs : List Rec) (s : UState σ),
    (rs.foldl (updateStep E cfg uc format) s).crashed = false →
    (rs.foldl (updateStep E cfg uc format) s).final.length +
      (rs.foldl (updateStep E cfg uc format) s).stack.length =
      s.final.length + s.stack.length + countBegins rs := by
  intro rs
  induction rs with
  | nil => intro s _; rfl
  | cons r rs ih =>
    intro s h
    rw [List.foldl_cons] at h ⊢
    have hlive := foldl_updateStep_live E cfg uc format rs _ h
    rw [ih _ h, (updateStep_step E cfg uc format s r).count hlive]

/-- with balanced markers: one rewritten file per begin marker, plus the root -/
theorem updateFile_count {σ : Type} (E : Env σ) (cfg : RCfg) (uc : UCfg) (format : Bool)
    (w : World σ) (root : Str) (recs : List Rec) (hb : MarkersBalanced 0 recs) :
    (updateFile E cfg uc format w root recs).final.length = countBegins recs + 1 := by
  have h := foldl_updateStep_balanced E cfg uc format recs (updateInit w root) 0 rfl rfl hb
  have hcnt := foldl_updateStep_count E cfg uc format recs (updateInit w root) h.1
  have e1 : (updateInit w root).stack.length = 1 := rfl
  have e2 : (updateInit w root).final.length = 0 := rfl
  rw [e1, e2] at hcnt
  rw [updateFile_eq]
  simp only
  generalize recs.foldl (updateStep E cfg uc format) (updateInit w root) = S at h hcnt ⊢
  simp only [h.1, Bool.false_eq_true, ↓reduceIte]
  split
  · have h2 := h.2
    simp only [List.length_append, List.length_cons, List.length_nil]
    omega
  · rename_i hs
    have hl := h.2
    rw [hs] at hl
    simp at hl

/-! ### `MarkersBalanced` is closed under the grammar of well-bracketed lists

(what `parse_file` produces: ordinary records, and blocks `begin f · inner · end f`) -/

theorem MarkersBalanced.nil : MarkersBalanced 0 [] := rfl

theorem MarkersBalanced.plain {d : Nat} {r : Rec} {rs : List Rec} (hr : r.isInjected = false)
    (h : MarkersBalanced d rs) : MarkersBalanced d (r :: rs) :=
  (MarkersBalanced_cons_of_not_injected d rs hr).mpr h

theorem MarkersBalanced.append : ∀ {a : List Rec} {e : Nat} {b : List Rec} {d : Nat},
    MarkersBalanced e a → MarkersBalanced d b → MarkersBalanced (e + d) (a ++ b) := by
  intro a
  induction a with
  | nil =>
    intro e b d ha hb
    have : e = 0 := ha
    subst this
    simpa using hb
  | cons r a ih =>
    intro e b d ha hb
    by_cases hr : r.isInjected = false
    · rw [List.cons_append]
      exact .plain hr (ih ((MarkersBalanced_cons_of_not_injected e a hr).mp ha) hb)
    · cases r <;> simp [Rec.isInjected] at hr
      · -- begin
        have ha' : MarkersBalanced (e + 1) a := ha
        have := ih ha' hb
        have e1 : e + 1 + d = e + d + 1 := by omega
        rw [e1] at this
        exact this
      · -- end
        have ha' : e ≠ 0 ∧ MarkersBalanced (e - 1) a := ha
        have := ih ha'.2 hb
        have e1 : e - 1 + d = e + d - 1 := by omega
        rw [e1] at this
        exact ⟨by omega, this⟩

theorem MarkersBalanced.block {d : Nat} {f g : Str} {inner rest : List Rec}
    (hi : MarkersBalanced 0 inner) (hr : MarkersBalanced d rest) :
    MarkersBalanced d (.beginInclude f :: inner ++ .endInclude g :: rest) := by
  show MarkersBalanced (d + 1) (inner ++ .endInclude g :: rest)
  have hend : MarkersBalanced (d + 1) (.endInclude g :: rest) := ⟨by omega, hr⟩
  have := MarkersBalanced.append hi hend
  simpa using this

end Slt
