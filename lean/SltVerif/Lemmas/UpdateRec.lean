/-
Helper lemmas for C06 (record level): `ExpectedError::from_actual_error`, `regex::escape`, and the
arms of `update_record_with_output` against the verdict table of `run_async_no_retry`.
-/
import SltVerif.Update
import SltVerif.Lemmas.Normalize
namespace Slt

open Norm

theorem trim_trim (s : Str) : trim (trim s) = trim s := trimP_idem isWs s

/-! ### `regex::escape` keeps the token structure of a text -/

theorem regexEscape_append (a b : Str) : regexEscape (a ++ b) = regexEscape a ++ regexEscape b := by
  simp [regexEscape, List.flatMap_append]

theorem regexEscape_joinWith (sep : Str) (ts : List Str) :
    regexEscape (joinWith sep ts) = joinWith (regexEscape sep) (ts.map regexEscape) := by
  induction ts with
  | nil => rfl
  | cons t ts ih =>
    cases ts with
    | nil => rfl
    | cons u us =>
      simp only [List.map_cons] at ih ⊢
      rw [joinWith_cons_cons, joinWith_cons_cons, regexEscape_append, regexEscape_append, ih]

theorem regexEscape_joinSp (ts : List Str) :
    regexEscape (joinSp ts) = joinSp (ts.map regexEscape) :=
  regexEscape_joinWith [' '] ts

theorem regexEscape_ne_nil (t : Str) (h : t ≠ []) : regexEscape t ≠ [] := by
  cases t with
  | nil => exact absurd rfl h
  | cons c r =>
    simp only [regexEscape, List.flatMap_cons]
    split <;> simp

theorem regexEscape_eq_nil_iff (t : Str) : regexEscape t = [] ↔ t = [] := by
  constructor
  · intro h
    by_cases ht : t = []
    · exact ht
    · exact absurd h (regexEscape_ne_nil t ht)
  · rintro rfl; rfl

theorem regexEscape_mem (t : Str) (d : Char) (h : d ∈ regexEscape t) : d = '\\' ∨ d ∈ t := by
  simp only [regexEscape, List.mem_flatMap] at h
  obtain ⟨c, hc, hd⟩ := h
  split at hd
  · simp only [List.mem_cons, List.not_mem_nil, or_false] at hd
    rcases hd with rfl | rfl
    · exact Or.inl rfl
    · exact Or.inr hc
  · simp only [List.mem_cons, List.not_mem_nil, or_false] at hd
    subst hd; exact Or.inr hc

theorem regexEscape_isTok (t : Str) (h : IsTok isWs t) : IsTok isWs (regexEscape t) := by
  refine ⟨regexEscape_ne_nil t h.1, ?_⟩
  intro d hd
  rcases regexEscape_mem t d hd with rfl | hd
  · decide
  · exact h.2 d hd

/-- a text that survives header tokenisation still does after escaping -/
theorem regexEscape_words_stable (t : Str) (h : joinSp (words t) = t) :
    joinSp (words (regexEscape t)) = regexEscape t := by
  have h1 : regexEscape t = joinSp ((words t).map regexEscape) := by
    conv => lhs; rw [← h]
    exact regexEscape_joinSp _
  have h2 : words (joinSp ((words t).map regexEscape)) = (words t).map regexEscape := by
    apply splitAux_joinSp isWs (by decide)
    intro u hu
    rw [List.mem_map] at hu
    obtain ⟨v, hv, rfl⟩ := hu
    exact regexEscape_isTok v (words_isTok t v hv)
  rw [h1, h2]

/-! ### `from_actual_error` -/

theorem fromActualError_cases (ref : Option ExpErr) (e : Str) :
    fromActualError ref e = .multi (trim e) ∨
    (fromActualError ref e = .empty ∧ trim e = []) ∨
    (fromActualError ref e = .inline (regexEscape (trim e)) ∧ trim e ≠ [] ∧
      joinSp (words (trim e)) = trim e ∧ (lines (trim e)).length < 2 ∧
      ∀ t, ref ≠ some (.multi t)) := by
  unfold fromActualError
  simp only []
  split
  · left; simp
  · rename_i href
    by_cases hm : (decide ((lines (trim e)).length ≥ 2) ||
        !decide (joinSp (words (trim e)) = trim e)) = true
    · left; rw [if_pos hm]
    · rw [if_neg hm]
      by_cases he : (regexEscape (trim e)).isEmpty = true
      · rw [if_pos he]
        refine Or.inr (Or.inl ⟨rfl, ?_⟩)
        rw [List.isEmpty_iff] at he
        exact (regexEscape_eq_nil_iff _).mp he
      · rw [if_neg he]
        refine Or.inr (Or.inr ⟨rfl, ?_, ?_⟩)
        · intro h0; apply he; rw [h0]; rfl
        · simp only [Bool.or_eq_true, decide_eq_true_eq, Bool.not_eq_true', decide_eq_false_iff_not,
            not_or, Decidable.not_not] at hm
          exact ⟨hm.2, by omega, fun t ht => href t ht⟩

/-- the expectation written from an error text matches that text (given that an escaped text
matches the text it came from) -/
theorem fromActualError_isMatch (rm : Str → Str → Bool)
    (hEsc : ∀ t, rm (regexEscape (trim t)) t = true) (ref : Option ExpErr) (e : Str) :
    (fromActualError ref e).isMatch rm e = true := by
  rcases fromActualError_cases ref e with h | ⟨h, _⟩ | ⟨h, _⟩ <;> rw [h]
  · simp [ExpErr.isMatch, trim_trim]
  · rfl
  · exact hEsc e

/-- with a multi-line reference the multi-line form is always chosen -/
theorem fromActualError_multi_ref (t e : Str) : fromActualError (some (.multi t)) e = .multi (trim e) := by
  simp [fromActualError]

/-- a retry clause forces the multi-line form -/
theorem fromActualError_retry (rt : Option Retry) (old : Option ExpErr) (e : Str)
    (h : rt.isSome = true) : fromActualError (errReference rt old) e = .multi (trim e) := by
  simp [errReference, h, fromActualError_multi_ref]

/-! ### validators on their own output -/

theorem columnsOk_self (s : Bool) (t : List ColT) : columnsOk s t t = true := by
  cases s <;> simp [columnsOk]

theorem columnsOk_update (s : Bool) (t et : List ColT) :
    columnsOk s t (if columnsOk s t et = true then et else t) = true := by
  cases h : columnsOk s t et
  · simp [columnsOk_self]
  · simp [h]

/-- the rows satisfy `ValueOk` value by value -/
def RowsOk (rows : List Row) : Prop := ∀ row ∈ rows, ∀ v ∈ row, ValueOk v

instance (rows : List Row) : Decidable (RowsOk rows) := by unfold RowsOk; infer_instance

theorem validator_update (rows : List Row) (eres : List Str) (sep : Str) (hrows : RowsOk rows)
    (hsep : SepOk sep) :
    defaultValidator rows
      (if defaultValidator rows eres = true then eres else rows.map (joinWith sep)) = true := by
  cases h : defaultValidator rows eres
  · simpa using validator_accepts_own_rows' rows sep hrows hsep
  · simp [h]

theorem applyResultMode_rowwise (rm : Option ResultMode) (rows : List Row)
    (h : rm ≠ some .valuewise) : applyResultMode rm rows = rows := by
  cases rm with
  | none => rfl
  | some m =>
    cases m with
    | valuewise => exact absurd rfl h
    | rowwise => rfl

/-! ### shapes and guards -/

/-- the outputs `apply_record` can produce for a record (proved against the runner model in
`Slt.C06.applyRecord_outputFor`) -/
def OutputFor : Rec → Output → Prop
  | _, .nothing => True
  | .statement .., .statement _ _ => True
  | .statement .., .query _ _ none => True
  | .query .., .query _ _ _ => True
  | .query .., .statement _ none => True
  | .system .., .system _ _ => True
  | _, _ => False

instance (r : Rec) (o : Output) : Decidable (OutputFor r o) := by
  unfold OutputFor; split <;> infer_instance

/-- result rows are representable in the format: every value satisfies `ValueOk` -/
def RowsRepresentable : Output → Prop
  | .query _ rows none => RowsOk rows
  | _ => True

instance (o : Output) : Decidable (RowsRepresentable o) := by
  unfold RowsRepresentable; split <;> infer_instance

/-- system commands succeed, and (record level only: the comparison is on the in-memory record,
whose expected stdout is the raw captured text) the captured stdout is already trimmed -/
def SystemOk : Output → Prop
  | .system out err => err = none ∧ ∀ t, out = some t → trim t = t
  | _ => True

instance (o : Output) : Decidable (SystemOk o) := by
  unfold SystemOk
  split
  · rename_i out err
    cases out with
    | none => exact decidable_of_iff (err = none) (by simp)
    | some t => exact decidable_of_iff (err = none ∧ trim t = t) (by simp)
  · infer_instance

/-- the record-level guard of C06 -/
def Representable (o : Output) : Prop := RowsRepresentable o ∧ SystemOk o

instance (o : Output) : Decidable (Representable o) := by unfold Representable; infer_instance

/-! ### the arms of `update_record_with_output` -/

section arms
variable (jc : JCfg) (uc : UCfg)

/-- statement records: every arm -/
theorem accepts_statement (hr : jc.regexMatch = uc.regexMatch)
    (hEsc : ∀ t, uc.regexMatch (regexEscape (trim t)) t = true)
    (l : Nat) (cs : List Cond) (cn : Conn) (sql : Str) (exp : SExp) (rt : Option Retry)
    (o : Output) (ho : OutputFor (.statement l cs cn sql exp rt) o) :
    judge jc ((updateRecord uc (.statement l cs cn sql exp rt) o).getD
      (.statement l cs cn sql exp rt)) o = .pass := by
  cases o with
  | nothing => rfl
  | system _ _ => cases ho
  | query t rows err =>
    cases err with
    | some e => cases ho
    | none => cases exp <;> simp [updateRecord, judge, judgeStatement]
  | statement n err =>
    cases err with
    | none => cases exp <;> simp [updateRecord, judge, judgeStatement]
    | some e =>
      have hm := fun ref => fromActualError_isMatch uc.regexMatch hEsc ref e
      cases exp with
      | ok => simp [updateRecord, judge, judgeStatement, hr, hm]
      | count k => simp [updateRecord, judge, judgeStatement, hr, hm]
      | error ee =>
        cases h : ee.isMatch uc.regexMatch e
        · simp [updateRecord, judge, judgeStatement, hr, hm, h]
        · simp [updateRecord, judge, judgeStatement, hr, h]

/-- query records: every arm -/
theorem accepts_query (hs : jc.strictCols = uc.strictCols) (hr : jc.regexMatch = uc.regexMatch)
    (hmode : jc.resultMode ≠ some .valuewise) (hsep : SepOk uc.sep)
    (hEsc : ∀ t, uc.regexMatch (regexEscape (trim t)) t = true)
    (l : Nat) (cs : List Cond) (cn : Conn) (sql : Str) (exp : QExp) (rt : Option Retry)
    (o : Output) (ho : OutputFor (.query l cs cn sql exp rt) o) (hrep : RowsRepresentable o) :
    judge jc ((updateRecord uc (.query l cs cn sql exp rt) o).getD
      (.query l cs cn sql exp rt)) o = .pass := by
  cases o with
  | nothing => rfl
  | system _ _ => cases ho
  | statement n err =>
    cases err with
    | some e => cases ho
    | none => simp [updateRecord, judge, judgeStatement]
  | query t rows err =>
    cases err with
    | some e =>
      have hm := fun ref => fromActualError_isMatch uc.regexMatch hEsc ref e
      cases exp with
      | results et so rm lb eres => simp [updateRecord, judge, judgeQuery, hr, hm]
      | error ee =>
        cases h : ee.isMatch uc.regexMatch e
        · simp [updateRecord, judge, judgeQuery, hr, hm, h]
        · simp [updateRecord, judge, judgeQuery, hr, h]
    | none =>
      have hrows : RowsOk rows := hrep
      have hmode' := applyResultMode_rowwise jc.resultMode rows hmode
      cases exp with
      | results et so rm lb eres =>
        have h1 := columnsOk_update uc.strictCols t et
        have h2 := validator_update rows eres uc.sep hrows hsep
        simp only [updateRecord, Option.getD_some, judge, judgeQuery, hs, hmode', h1, h2]
        simp
      | error ee =>
        have h1 := columnsOk_self uc.strictCols t
        have h2 := validator_accepts_own_rows' rows uc.sep hrows hsep
        simp only [updateRecord, Option.getD_some, judge, judgeQuery, hs, hmode', h1, h2]
        simp

/-- system records: every arm (a failing command is excluded by `SystemOk`) -/
theorem accepts_system (l : Nat) (cs : List Cond) (cmd : Str) (exp : Option Str)
    (rt : Option Retry) (o : Output) (ho : OutputFor (.system l cs cmd exp rt) o)
    (hsys : SystemOk o) :
    judge jc ((updateRecord uc (.system l cs cmd exp rt) o).getD (.system l cs cmd exp rt)) o =
      .pass := by
  cases o with
  | nothing => rfl
  | statement _ _ => exact absurd ho (by simp [OutputFor])
  | query _ _ _ => exact absurd ho (by simp [OutputFor])
  | system out err =>
    obtain ⟨rfl, hout⟩ := hsys
    cases out with
    | none => simp [updateRecord, judge, judgeSystem]
    | some t => simp [updateRecord, judge, judgeSystem, hout t rfl]

/-- what the file holds after writing and re-reading the rewritten `system` record is the
*trimmed* stdout (`fmt_multiline` trims); that record accepts the raw output without any guard -/
theorem accepts_system_trimmed (l : Nat) (cs : List Cond) (cmd : Str) (rt : Option Retry)
    (out : Option Str) :
    judge jc (.system l cs cmd (out.map trim) rt) (.system out none) = .pass := by
  cases out <;> simp [judge, judgeSystem]

end arms

/-! ### idempotence, arm by arm -/

section idem
variable (uc : UCfg)

theorem idem_statement (hEsc : ∀ t, uc.regexMatch (regexEscape (trim t)) t = true)
    (l : Nat) (cs : List Cond) (cn : Conn) (sql : Str) (exp : SExp) (rt : Option Retry)
    (o : Output) :
    let r := Rec.statement l cs cn sql exp rt
    let r' := (updateRecord uc r o).getD r
    updateRecord uc r' o = none ∨ updateRecord uc r' o = some r' := by
  cases o with
  | nothing => exact Or.inl (by simp [updateRecord])
  | system _ _ => exact Or.inl (by simp [updateRecord])
  | query t rows err =>
    cases err with
    | some e => exact Or.inl (by simp [updateRecord])
    | none => cases exp <;> simp [updateRecord]
  | statement n err =>
    cases err with
    | none => cases exp <;> simp [updateRecord]
    | some e =>
      have hm := fun ref => fromActualError_isMatch uc.regexMatch hEsc ref e
      cases exp with
      | ok => simp [updateRecord, hm]
      | count k => simp [updateRecord, hm]
      | error ee =>
        cases h : ee.isMatch uc.regexMatch e
        · simp [updateRecord, hm, h]
        · simp [updateRecord, h]

theorem idem_query (hsep : SepOk uc.sep)
    (hEsc : ∀ t, uc.regexMatch (regexEscape (trim t)) t = true)
    (l : Nat) (cs : List Cond) (cn : Conn) (sql : Str) (exp : QExp) (rt : Option Retry)
    (o : Output) (hrep : RowsRepresentable o) :
    let r := Rec.query l cs cn sql exp rt
    let r' := (updateRecord uc r o).getD r
    updateRecord uc r' o = none ∨ updateRecord uc r' o = some r' := by
  cases o with
  | nothing => exact Or.inl (by simp [updateRecord])
  | system _ _ => exact Or.inl (by simp [updateRecord])
  | statement n err =>
    cases err with
    | some e => exact Or.inl (by simp [updateRecord])
    | none => simp [updateRecord]
  | query t rows err =>
    cases err with
    | some e =>
      have hm := fun ref => fromActualError_isMatch uc.regexMatch hEsc ref e
      cases exp with
      | results et so rm lb eres => simp [updateRecord, hm]
      | error ee =>
        cases h : ee.isMatch uc.regexMatch e
        · simp [updateRecord, hm, h]
        · simp [updateRecord, h]
    | none =>
      have hrows : RowsOk rows := hrep
      cases exp with
      | results et so rm lb eres =>
        have h1 := columnsOk_update uc.strictCols t et
        have h2 := validator_update rows eres uc.sep hrows hsep
        right
        simp only [updateRecord, Option.getD_some, h1, h2, if_true]
      | error ee =>
        have h1 := columnsOk_self uc.strictCols t
        have h2 := validator_accepts_own_rows' rows uc.sep hrows hsep
        right
        simp only [updateRecord, Option.getD_some, h1, h2, if_true]

theorem idem_system (l : Nat) (cs : List Cond) (cmd : Str) (exp : Option Str)
    (rt : Option Retry) (o : Output) :
    let r := Rec.system l cs cmd exp rt
    let r' := (updateRecord uc r o).getD r
    updateRecord uc r' o = none ∨ updateRecord uc r' o = some r' := by
  cases o with
  | nothing => exact Or.inl (by simp [updateRecord])
  | statement _ _ => exact Or.inl (by simp [updateRecord])
  | query _ _ _ => exact Or.inl (by simp [updateRecord])
  | system out err => cases err <;> simp [updateRecord]

end idem

/-! ### a concrete regex oracle for the kernel-computed instances in `Props/C06.lean` -/

/-- a toy regex oracle satisfying the escape hypothesis: a pattern matches exactly the texts whose
trimmed, escaped form it is -/
def toyRegex : Str → Str → Bool := fun re t => decide (re = regexEscape (trim t))

theorem toyRegex_escape : ∀ t, toyRegex (regexEscape (trim t)) t = true := by
  intro t; simp [toyRegex]

/-- default validators, strict column check, tab separator -/
def jc0 : JCfg := ⟨none, true, toyRegex⟩
def uc0 : UCfg := ⟨kw "\t", true, toyRegex⟩

end Slt
