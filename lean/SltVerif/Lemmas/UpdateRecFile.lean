/-
Helper definitions and lemmas for C06 above the single record: the list of records the updater
writes for an include-free record list (`updateRecs`), the guards along the run, and the tie of
`updateRecs` to the per-record step of the file driver (`updateStep`).
-/
import SltVerif.Lemmas.UpdateRecRun
namespace Slt

variable {σ : Type}

/-- The records the updater writes for a record list, and the state it leaves: records up to the
first `halt` are executed once (no retry) and rewritten from their output; `halt` and everything
after it is copied. -/
def updateRecs (E : Env σ) (cfg : RCfg) (uc : UCfg) : World σ → List Rec → World σ × List Rec
  | w, [] => (w, [])
  | w, r :: rs =>
    if r.isHalt then (w, r :: rs)
    else
      ((updateRecs E cfg uc (applyRecord E cfg w r).1 rs).1,
        (updateRecord uc r (applyRecord E cfg w r).2).getD r ::
          (updateRecs E cfg uc (applyRecord E cfg w r).1 rs).2)

/-- the guards of C06 for every record that is executed, in the state it is executed in -/
def GuardAlong (E : Env σ) (cfg : RCfg) : World σ → List Rec → Prop
  | _, [] => True
  | w, r :: rs =>
    r.isHalt = true ∨
    ((applyRecord E cfg w r).1.resultMode ≠ some .valuewise ∧
      Representable (applyRecord E cfg w r).2 ∧
      (∀ rt ∈ r.retry?, 0 < rt.attempts) ∧
      GuardAlong E cfg (applyRecord E cfg w r).1 rs)

instance decGuardAlong (E : Env σ) (cfg : RCfg) :
    ∀ (w : World σ) (rs : List Rec), Decidable (GuardAlong E cfg w rs)
  | _, [] => isTrue trivial
  | w, r :: rs =>
    have := decGuardAlong E cfg (applyRecord E cfg w r).1 rs
    inferInstanceAs (Decidable (r.isHalt = true ∨
      ((applyRecord E cfg w r).1.resultMode ≠ some .valuewise ∧
        Representable (applyRecord E cfg w r).2 ∧
        (∀ rt ∈ r.retry?, 0 < rt.attempts) ∧
        GuardAlong E cfg (applyRecord E cfg w r).1 rs)))

/-- the part of the guards the fixed-point theorem needs -/
def RowsAlong (E : Env σ) (cfg : RCfg) : World σ → List Rec → Prop
  | _, [] => True
  | w, r :: rs =>
    r.isHalt = true ∨
    (RowsRepresentable (applyRecord E cfg w r).2 ∧ RowsAlong E cfg (applyRecord E cfg w r).1 rs)

theorem GuardAlong.rows {E : Env σ} {cfg : RCfg} {w : World σ} {rs : List Rec}
    (h : GuardAlong E cfg w rs) : RowsAlong E cfg w rs := by
  induction rs generalizing w with
  | nil => trivial
  | cons r rs ih =>
    rcases h with h | ⟨_, hrep, _, hrest⟩
    · exact Or.inl h
    · exact Or.inr ⟨hrep.1, ih hrest⟩

/-- the updater never turns a record into `halt` or a `halt` into something else -/
theorem updateRecord_isHalt (uc : UCfg) (r : Rec) (o : Output) :
    ((updateRecord uc r o).getD r).isHalt = r.isHalt := by
  cases r with
  | statement l cs cn sql exp rt =>
    obtain ⟨exp', h⟩ := updateRecord_statement_shape uc l cs cn sql exp rt o
    rw [h]; rfl
  | query l cs cn sql exp rt =>
    rcases updateRecord_query_shape uc l cs cn sql exp rt o with ⟨exp', h, _⟩ | ⟨n, _, h⟩ <;>
      rw [h] <;> rfl
  | system l cs cmd exp rt =>
    cases o with
    | system actual err => cases err <;> simp [updateRecord, Rec.isHalt]
    | _ => simp [updateRecord]
  | _ => cases o <;> simp [updateRecord]

section run
variable (E : Env σ) (cfg : RCfg) (uc : UCfg)

/-- induction behind `Slt.C06.updateRecs_run` (`hacc` is `Slt.C06.update_then_runRecord`): running the rewritten records from the initial state passes
record by record, each at its first attempt, and ends in the state the update run ended in. -/
theorem updateRecs_run_of_step (w : World σ) (recs : List Rec) (hg : GuardAlong E cfg w recs)
    (hacc : ∀ (w : World σ) (r : Rec),
      (applyRecord E cfg w r).1.resultMode ≠ some .valuewise →
      Representable (applyRecord E cfg w r).2 →
      (∀ rt ∈ r.retry?, 0 < rt.attempts) →
      runRecord E cfg w ((updateRecord uc r (applyRecord E cfg w r).2).getD r) =
        ((applyRecord E cfg w r).1, .pass)) :
    runMulti E cfg w (updateRecs E cfg uc w recs).2 = ((updateRecs E cfg uc w recs).1, .ok) := by
  induction recs generalizing w with
  | nil => rfl
  | cons r rs ih =>
    by_cases hh : r.isHalt = true
    · simp [updateRecs, runMulti, hh]
    · rcases hg with hg | ⟨hmode, hrep, hatt, hrest⟩
      · exact absurd hg hh
      · have hh' : r.isHalt = false := by simpa using hh
        have hhalt' := updateRecord_isHalt uc r (applyRecord E cfg w r).2
        simp only [updateRecs, hh', Bool.false_eq_true, if_false, runMulti, hhalt',
          hacc w r hmode hrep hatt]
        exact ih _ hrest

/-- induction behind `Slt.C06.updateRecs_fixpoint` (`hfix` is `Slt.C06.update_fixpoint`): updating the rewritten records again, from the same initial state,
writes the same records and ends in the same state. -/
theorem updateRecs_fixpoint_of_step
    (hfix : ∀ (r : Rec) (o : Output), RowsRepresentable o →
      (updateRecord uc ((updateRecord uc r o).getD r) o).getD ((updateRecord uc r o).getD r) =
        (updateRecord uc r o).getD r)
    (w : World σ) (recs : List Rec) (hg : RowsAlong E cfg w recs) :
    updateRecs E cfg uc w (updateRecs E cfg uc w recs).2 = updateRecs E cfg uc w recs := by
  induction recs generalizing w with
  | nil => rfl
  | cons r rs ih =>
    by_cases hh : r.isHalt = true
    · simp [updateRecs, hh]
    · rcases hg with hg | ⟨hrep, hrest⟩
      · exact absurd hg hh
      · have hh' : r.isHalt = false := by simpa using hh
        have hhalt' := updateRecord_isHalt uc r (applyRecord E cfg w r).2
        have hsame := applyRecord_updated E cfg uc w r
        simp only [updateRecs, hh', Bool.false_eq_true, if_false, hhalt', hsame,
          hfix r _ hrep, ih _ hrest]

end run

/-! ### a small concrete world for the kernel-computed instances in `Props/C06.lean` -/

/-- a database whose state is a counter: `q` returns the counter (and bumps it), `ins` completes
with count 3, anything else is an error with a tab in its text; commands print ` out ` -/
def demoEnv : Env Nat where
  make := fun s _ => (s, none)
  run := fun s _ sql =>
    if sql = kw "q" then (s + 1, .rows [.int, .text] [[natToStr s, kw " x  y"]])
    else if sql = kw "ins" then (s, .complete 3)
    else (s, .error (kw "no\tsuch table"))
  engine := fun _ => []
  cmd := fun s _ => (s, .exit 0 (kw "out"))
  subst := fun _ s => .ok s
  regexMatch := toyRegex
  hash := fun s => s

def demoCfg : RCfg := ⟨[], true⟩

/-- a file whose every expectation is wrong (or, for the last records, behind `halt`) -/
def demoRecs : List Rec :=
  [ .query 1 [] .dflt (kw "q") (.results [.text] (some .nosort) none none [kw "stale"]) none,
    .statement 5 [] .dflt (kw "ins") (.count 1) (some ⟨2, ⟨1, 0⟩⟩),
    .query 8 [] (.named (kw "c2")) (kw "ins") (.error .empty) none,
    .statement 11 [] .dflt (kw "bad") .ok (some ⟨2, ⟨1, 0⟩⟩),
    .query 14 [] .dflt (kw "q") (.error (.inline (kw "x"))) none,
    .system 18 [] (kw "echo") (some (kw "old")) none,
    .comment [kw " c"],
    .halt 22,
    .statement 23 [] .dflt (kw "bad") .ok none ]

/-! ### tie to the file driver: `updateStep` folded over an include-free record list -/

/-- an injected include marker (the only records `Display` panics on) -/
def Rec.isMarker : Rec → Bool
  | .beginInclude _ => true
  | .endInclude _ => true
  | _ => false

theorem recordLine_of_not_marker (r : Rec) (h : r.isMarker = false) :
    ∃ t, unparse r = some t ∧ recordLine r = some (t ++ ['\n']) := by
  cases r with
  | beginInclude f => simp [Rec.isMarker] at h
  | endInclude f => simp [Rec.isMarker] at h
  | connection c => cases c <;> simp [unparse, recordLine]
  | _ => simp [unparse, recordLine]

theorem updateRecord_isMarker (uc : UCfg) (r : Rec) (o : Output) :
    ((updateRecord uc r o).getD r).isMarker = r.isMarker := by
  cases r with
  | statement l cs cn sql exp rt =>
    obtain ⟨exp', h⟩ := updateRecord_statement_shape uc l cs cn sql exp rt o
    rw [h]; rfl
  | query l cs cn sql exp rt =>
    rcases updateRecord_query_shape uc l cs cn sql exp rt o with ⟨exp', h, _⟩ | ⟨n, _, h⟩ <;>
      rw [h] <;> rfl
  | system l cs cmd exp rt =>
    cases o with
    | system actual err => cases err <;> simp [updateRecord, Rec.isMarker]
    | _ => simp [updateRecord]
  | _ => cases o <;> simp [updateRecord]

section driver
variable (E : Env σ) (cfg : RCfg) (uc : UCfg)

/-- the per-record step on a record that is not an include marker -/
theorem updateStep_of_not_marker (format : Bool) (s : UState σ) (r : Rec) (it : OutItem)
    (rest : List OutItem) (hm : r.isMarker = false) (hc : s.crashed = false)
    (hst : s.stack = it :: rest) :
    updateStep E cfg uc format s r =
      if it.halt then writeTop s r
      else if r.isHalt then writeTop { s with stack := { it with halt := true } :: rest } r
      else if format then writeTop s r
      else
        writeTop { s with world := (applyRecord E cfg s.world r).1,
                          evs := s.evs ++ newDbEvents s.world (applyRecord E cfg s.world r).1 }
          ((updateRecord uc r (applyRecord E cfg s.world r).2).getD r) := by
  cases r with
  | beginInclude f => simp [Rec.isMarker] at hm
  | endInclude f => simp [Rec.isMarker] at hm
  | _ => simp [updateStep, hc, hst]

theorem writeTop_of_line (s : UState σ) (r : Rec) (it : OutItem) (rest : List OutItem) (text : Str)
    (hst : s.stack = it :: rest) (hl : recordLine r = some text) :
    writeTop s r = { s with stack := { it with written := it.written ++ text } :: rest,
                            evs := s.evs ++ [.fs (.append it.file text)] } := by
  simp [writeTop, hst, hl]

/-- after `halt` (flag set) every record is copied; nothing is executed -/
theorem foldl_updateStep_halted (format : Bool) (recs : List Rec)
    (hnm : ∀ r ∈ recs, r.isMarker = false) (s : UState σ) (it : OutItem) (rest : List OutItem)
    (hst : s.stack = it :: rest) (hc : s.crashed = false) (hh : it.halt = true) :
    ∃ txt, writeRecords recs = some txt ∧
      (recs.foldl (updateStep E cfg uc format) s).crashed = false ∧
      (recs.foldl (updateStep E cfg uc format) s).world = s.world ∧
      (recs.foldl (updateStep E cfg uc format) s).final = s.final ∧
      (recs.foldl (updateStep E cfg uc format) s).stack =
        { it with written := it.written ++ txt } :: rest := by
  induction recs generalizing s it with
  | nil => exact ⟨[], rfl, hc, rfl, rfl, by simp [hst]⟩
  | cons r rs ih =>
    obtain ⟨t, hu, hl⟩ := recordLine_of_not_marker r (hnm r (by simp))
    have hstep := updateStep_of_not_marker E cfg uc format s r it rest (hnm r (by simp)) hc hst
    rw [hh, if_pos rfl, writeTop_of_line s r it rest _ hst hl] at hstep
    obtain ⟨txt, hw, h1, h2, h3, h4⟩ := ih (fun r' hr' => hnm r' (by simp [hr']))
      (updateStep E cfg uc format s r) { it with written := it.written ++ (t ++ ['\n']) }
      (by rw [hstep]) (by rw [hstep]; exact hc) hh
    refine ⟨t ++ '\n' :: txt, by simp [writeRecords, hu, hw], ?_, ?_, ?_, ?_⟩
    · simpa [List.foldl_cons] using h1
    · rw [List.foldl_cons, h2, hstep]
    · rw [List.foldl_cons, h3, hstep]
    · rw [List.foldl_cons, h4]; simp [List.append_assoc]

/-- **The driver writes `updateRecs`**: folding the per-record step of `update_test_file`
(update mode) over an include-free record list appends to the current output file exactly the
text of the records `updateRecs` computes, leaves the world `updateRecs` computes, does not crash
and finishes no file. -/
theorem foldl_updateStep_live (recs : List Rec)
    (hnm : ∀ r ∈ recs, r.isMarker = false) (s : UState σ) (it : OutItem) (rest : List OutItem)
    (hst : s.stack = it :: rest) (hc : s.crashed = false) (hh : it.halt = false) :
    ∃ txt h, writeRecords (updateRecs E cfg uc s.world recs).2 = some txt ∧
      (recs.foldl (updateStep E cfg uc false) s).crashed = false ∧
      (recs.foldl (updateStep E cfg uc false) s).world = (updateRecs E cfg uc s.world recs).1 ∧
      (recs.foldl (updateStep E cfg uc false) s).final = s.final ∧
      (recs.foldl (updateStep E cfg uc false) s).stack =
        { it with written := it.written ++ txt, halt := h } :: rest := by
  induction recs generalizing s it with
  | nil => exact ⟨[], it.halt, rfl, hc, rfl, rfl, by simp [hst]⟩
  | cons r rs ih =>
    have hm : r.isMarker = false := hnm r (by simp)
    have hstep := updateStep_of_not_marker E cfg uc false s r it rest hm hc hst
    rw [hh, if_neg (by simp)] at hstep
    by_cases hhalt : r.isHalt = true
    · -- `halt`: the flag is set, this record and the rest are copied
      obtain ⟨t, hu, hl⟩ := recordLine_of_not_marker r hm
      rw [if_pos hhalt, writeTop_of_line _ r { it with halt := true } rest _ rfl hl] at hstep
      obtain ⟨txt, hw, h1, h2, h3, h4⟩ := foldl_updateStep_halted E cfg uc false rs
        (fun r' hr' => hnm r' (by simp [hr']))
        (updateStep E cfg uc false s r)
        { it with halt := true, written := it.written ++ (t ++ ['\n']) } rest
        (by rw [hstep]) (by rw [hstep]; exact hc) rfl
      refine ⟨t ++ '\n' :: txt, true, by simp [updateRecs, hhalt, writeRecords, hu, hw], ?_, ?_, ?_, ?_⟩
      · simpa [List.foldl_cons] using h1
      · rw [List.foldl_cons, h2, hstep]; simp [updateRecs, hhalt]
      · rw [List.foldl_cons, h3, hstep]
      · rw [List.foldl_cons, h4]; simp [List.append_assoc]
    · -- an executed record
      have hm' := (updateRecord_isMarker uc r (applyRecord E cfg s.world r).2).trans hm
      obtain ⟨t, hu, hl⟩ := recordLine_of_not_marker _ hm'
      rw [if_neg hhalt, if_neg (by simp),
        writeTop_of_line { s with world := (applyRecord E cfg s.world r).1,
                                  evs := s.evs ++ newDbEvents s.world (applyRecord E cfg s.world r).1 }
          _ it rest _ hst hl] at hstep
      obtain ⟨txt, h, hw, h1, h2, h3, h4⟩ := ih (fun r' hr' => hnm r' (by simp [hr']))
        (updateStep E cfg uc false s r) { it with written := it.written ++ (t ++ ['\n']) }
        (by rw [hstep]) (by rw [hstep]; exact hc) hh
      have hw0 : (updateStep E cfg uc false s r).world = (applyRecord E cfg s.world r).1 := by
        rw [hstep]
      rw [hw0] at hw h2
      have hhalt' : r.isHalt = false := by simpa using hhalt
      refine ⟨t ++ '\n' :: txt, h, by simp [updateRecs, hhalt', writeRecords, hu, hw], ?_, ?_, ?_, ?_⟩
      · simpa [List.foldl_cons] using h1
      · rw [List.foldl_cons, h2]; simp [updateRecs, hhalt']
      · rw [List.foldl_cons, h3, hstep]
      · rw [List.foldl_cons, h4]; simp [List.append_assoc]

end driver

end Slt
