/-
Helper lemmas for C06: executing the record written by the updater in the state the original was
executed in issues the same calls and yields the same output ("update and the following run see
the same database"), which is the induction step of the file-level argument.
-/
import SltVerif.Lemmas.UpdateRec
namespace Slt

variable {σ : Type}

/-! ### the shape of a rewritten record -/

theorem updateRecord_statement_shape (c : UCfg) (l : Nat) (cs : List Cond) (cn : Conn) (sql : Str)
    (exp : SExp) (rt : Option Retry) (o : Output) :
    ∃ exp', (updateRecord c (.statement l cs cn sql exp rt) o).getD (.statement l cs cn sql exp rt) =
      .statement l cs cn sql exp' rt := by
  cases o with
  | nothing => exact ⟨exp, by simp [updateRecord]⟩
  | system a e => exact ⟨exp, by simp [updateRecord]⟩
  | query t rows e =>
    cases e with
    | some e => exact ⟨exp, by simp [updateRecord]⟩
    | none => exact ⟨_, by simp [updateRecord]; rfl⟩
  | statement n e =>
    cases e with
    | none => exact ⟨_, by simp [updateRecord]; rfl⟩
    | some e =>
      cases exp with
      | ok => exact ⟨_, by simp [updateRecord]; rfl⟩
      | count k => exact ⟨_, by simp [updateRecord]; rfl⟩
      | error p =>
        cases h : p.isMatch c.regexMatch e
        · exact ⟨_, by simp [updateRecord, h]; rfl⟩
        · exact ⟨.error p, by simp [updateRecord, h]⟩

/-- a rewritten query keeps its sort mode (or was answered by an error, where sorting is moot),
or — answered by a completion — becomes a statement -/
theorem updateRecord_query_shape (c : UCfg) (l : Nat) (cs : List Cond) (cn : Conn) (sql : Str)
    (exp : QExp) (rt : Option Retry) (o : Output) :
    (∃ exp', (updateRecord c (.query l cs cn sql exp rt) o).getD (.query l cs cn sql exp rt) =
        .query l cs cn sql exp' rt ∧
        (querySort exp' = querySort exp ∨ ∃ t rows e, o = .query t rows (some e))) ∨
    (∃ n, o = .statement n none ∧
      (updateRecord c (.query l cs cn sql exp rt) o).getD (.query l cs cn sql exp rt) =
        .statement l cs cn sql (.count n) rt) := by
  cases o with
  | nothing => exact Or.inl ⟨exp, by simp [updateRecord], Or.inl rfl⟩
  | system a e => exact Or.inl ⟨exp, by simp [updateRecord], Or.inl rfl⟩
  | statement n e =>
    cases e with
    | some e => exact Or.inl ⟨exp, by simp [updateRecord], Or.inl rfl⟩
    | none => exact Or.inr ⟨n, rfl, by simp [updateRecord]⟩
  | query t rows e =>
    cases e with
    | none =>
      cases exp with
      | results et so rm lb eres =>
        simp only [updateRecord, Option.getD_some]
        exact Or.inl ⟨_, rfl, Or.inl rfl⟩
      | error p =>
        simp only [updateRecord, Option.getD_some]
        exact Or.inl ⟨_, rfl, Or.inl rfl⟩
    | some e =>
      cases exp with
      | results et so rm lb eres =>
        simp only [updateRecord, Option.getD_some]
        exact Or.inl ⟨_, rfl, Or.inr ⟨t, rows, e, rfl⟩⟩
      | error p =>
        cases h : p.isMatch c.regexMatch e
        · simp only [updateRecord, h, Bool.false_eq_true, if_false, Option.getD_some]
          exact Or.inl ⟨_, rfl, Or.inl rfl⟩
        · exact Or.inl ⟨.error p, by simp [updateRecord, h], Or.inl rfl⟩

/-! ### execution does not look at the expectation (beyond sort mode / presence of stdout) -/

theorem applyQuery_congr (E : Env σ) (cfg : RCfg) (w : World σ) (cs : List Cond) (cn : Conn)
    (sql : Str) (exp exp' : QExp) (h : querySort exp' = querySort exp) :
    applyQuery E cfg w cs cn sql exp' = applyQuery E cfg w cs cn sql exp := by
  simp only [applyQuery, h]

/-- a query answered by an error executes the same whatever its expectation (nothing is sorted) -/
theorem applyQuery_of_error (E : Env σ) (cfg : RCfg) (w : World σ) (cs : List Cond)
    (cn : Conn) (sql : Str) (exp exp' : QExp) (t : List ColT) (rows : List Row) (e : Str)
    (h : (applyQuery E cfg w cs cn sql exp).2 = .query t rows (some e)) :
    applyQuery E cfg w cs cn sql exp' = applyQuery E cfg w cs cn sql exp := by
  cases hconn : (getConn E w cn).2 with
  | error msg => simp [applyQuery, hconn]
  | ok k =>
    cases hskip : shouldSkip cfg.labels (E.engine k) cs
    · cases hsub : maySubstitute E (getConn E w cn).1 true sql with
      | error msg => simp [applyQuery, hconn, hskip, hsub]
      | ok sql' =>
        cases hrun : (E.run (getConn E w cn).1.db k sql').2 with
        | error m => simp [applyQuery, hconn, hskip, hsub, hrun]
        | rows t rws => simp [applyQuery, hconn, hskip, hsub, hrun] at h
        | complete m => simp [applyQuery, hconn, hskip, hsub, hrun]
    · simp [applyQuery, hconn, hskip]

/-- a query answered by a bare completion behaves exactly like the statement it is rewritten to -/
theorem applyStatement_of_query_completion (E : Env σ) (cfg : RCfg) (w : World σ) (cs : List Cond)
    (cn : Conn) (sql : Str) (exp : QExp) (n : Nat)
    (h : (applyQuery E cfg w cs cn sql exp).2 = .statement n none) :
    applyStatement E cfg w cs cn sql = applyQuery E cfg w cs cn sql exp := by
  cases hconn : (getConn E w cn).2 with
  | error msg => simp [applyQuery, hconn] at h
  | ok k =>
    cases hskip : shouldSkip cfg.labels (E.engine k) cs
    · cases hsub : maySubstitute E (getConn E w cn).1 true sql with
      | error msg => simp [applyQuery, hconn, hskip, hsub] at h
      | ok sql' =>
        cases hrun : (E.run (getConn E w cn).1.db k sql').2 with
        | error m => simp [applyQuery, hconn, hskip, hsub, hrun] at h
        | rows t rws => simp [applyQuery, hconn, hskip, hsub, hrun] at h
        | complete m =>
          simp [applyQuery, applyStatement, hconn, hskip, hsub, hrun, answerToOutputStmt]
    · simp [applyQuery, hconn, hskip] at h

/-- a successful system command behaves the same with the captured stdout as expectation -/
theorem applySystem_updated (E : Env σ) (cfg : RCfg) (w : World σ) (cs : List Cond) (cmd : Str)
    (exp actual : Option Str) (h : (applySystem E cfg w cs cmd exp).2 = .system actual none) :
    applySystem E cfg w cs cmd actual = applySystem E cfg w cs cmd exp := by
  cases hskip : shouldSkip cfg.labels [] cs
  · cases hsub : maySubstitute E w false cmd with
    | error msg => simp [applySystem, hskip, hsub] at h
    | ok c =>
      cases hbg : isBackground c
      · cases hrun : (E.cmd w.db c).2 with
        | spawnErr => simp [applySystem, hskip, hsub, hbg, hrun] at h
        | signal sig out => simp [applySystem, hskip, hsub, hbg, hrun] at h
        | exit code out =>
          by_cases hc : code = 0
          · simp only [applySystem, hskip, hsub, hbg, hrun, hc] at h ⊢
            cases exp <;> simp_all
          · simp [applySystem, hskip, hsub, hbg, hrun, hc] at h
      · simp [applySystem, hskip, hsub, hbg]
  · simp [applySystem, hskip] at h

/-- **Same execution**: in the state `w`, the record the updater writes from the output of `r`
executes exactly like `r` — same calls, same resulting state, same output. -/
theorem applyRecord_updated (E : Env σ) (cfg : RCfg) (uc : UCfg) (w : World σ) (r : Rec) :
    applyRecord E cfg w ((updateRecord uc r (applyRecord E cfg w r).2).getD r) =
      applyRecord E cfg w r := by
  cases r with
  | statement l cs cn sql exp rt =>
    obtain ⟨exp', h⟩ := updateRecord_statement_shape uc l cs cn sql exp rt
      (applyRecord E cfg w (.statement l cs cn sql exp rt)).2
    rw [h]; rfl
  | query l cs cn sql exp rt =>
    rcases updateRecord_query_shape uc l cs cn sql exp rt
      (applyRecord E cfg w (.query l cs cn sql exp rt)).2 with
      ⟨exp', h, hsort | ⟨t, rows, e, ho⟩⟩ | ⟨n, ho, h⟩
    · rw [h]
      exact applyQuery_congr E cfg w cs cn sql exp exp' hsort
    · rw [h]
      exact applyQuery_of_error E cfg w cs cn sql exp exp' t rows e ho
    · rw [h]
      exact applyStatement_of_query_completion E cfg w cs cn sql exp n ho
  | system l cs cmd exp rt =>
    cases ho : (applyRecord E cfg w (.system l cs cmd exp rt)).2 with
    | nothing => simp [updateRecord]
    | statement _ _ => simp [updateRecord]
    | query _ _ _ => simp [updateRecord]
    | system actual err =>
      cases err with
      | some e => simp [updateRecord]
      | none =>
        simp only [updateRecord, Option.getD_some]
        exact applySystem_updated E cfg w cs cmd exp actual ho
  | sleep l d => simp [updateRecord, applyRecord]
  | control c' => simp [updateRecord, applyRecord]
  | hashThreshold l n => simp [updateRecord, applyRecord]
  | incl l f => simp [updateRecord, applyRecord]
  | subtest l n => simp [updateRecord, applyRecord]
  | halt l => simp [updateRecord, applyRecord]
  | condition c' => simp [updateRecord, applyRecord]
  | connection c' => simp [updateRecord, applyRecord]
  | comment ls => simp [updateRecord, applyRecord]
  | newline => simp [updateRecord, applyRecord]
  | beginInclude f => simp [updateRecord, applyRecord]
  | endInclude f => simp [updateRecord, applyRecord]

/-- the retry clause of a record is not touched by the updater -/
theorem updateRecord_retry (uc : UCfg) (r : Rec) (o : Output) :
    ((updateRecord uc r o).getD r).retry? = r.retry? := by
  cases r with
  | statement l cs cn sql exp rt =>
    obtain ⟨exp', h⟩ := updateRecord_statement_shape uc l cs cn sql exp rt o
    rw [h]; rfl
  | query l cs cn sql exp rt =>
    rcases updateRecord_query_shape uc l cs cn sql exp rt o with ⟨exp', h, _⟩ | ⟨n, _, h⟩ <;>
      rw [h] <;> rfl
  | system l cs cmd exp rt =>
    cases o with
    | system actual err => cases err <;> simp [updateRecord, Rec.retry?]
    | _ => simp [updateRecord]
  | _ => cases o <;> simp [updateRecord]

end Slt
