/-
Helper lemmas for C08, part 2: what one step of `update_test_file` does to the stack of output
files, the event list and the list of renamed contents (`UStep`), independent of the database.
-/
import SltVerif.Lemmas.UpdateTrim
namespace Slt

def Rec.isInjected : Rec → Bool
  | .beginInclude _ | .endInclude _ => true
  | _ => false

theorem unparse_isSome {r : Rec} (h : r.isInjected = false) : (unparse r).isSome = true := by
  cases r <;> first | rfl | (rename_i c; cases c <;> rfl) | (simp [Rec.isInjected] at h)

theorem updateRecord_not_injected {uc : UCfg} {r : Rec} {o : Output} {r' : Rec}
    (h : updateRecord uc r o = some r') : r'.isInjected = false := by
  unfold updateRecord at h
  repeat' split at h
  all_goals first | (cases h; done) | (cases h; rfl)

/-- `r'` is what the updater may write in place of `r`: `r` itself or an update of it -/
def UpdOf (uc : UCfg) (format : Bool) (r r' : Rec) : Prop :=
  r' = r ∨ (format = false ∧ ∃ o, updateRecord uc r o = some r')

theorem UpdOf.not_injected {uc : UCfg} {format : Bool} {r r' : Rec} (h : UpdOf uc format r r')
    (hr : r.isInjected = false) : r'.isInjected = false := by
  rcases h with h | ⟨_, o, h⟩
  · rw [h]; exact hr
  · exact updateRecord_not_injected h

theorem recordLine_of_not_injected {r : Rec} (h : r.isInjected = false) :
    ∃ u, unparse r = some u ∧ recordLine r = some (u ++ ['\n']) := by
  have := unparse_isSome h
  cases hu : unparse r with
  | none => rw [hu] at this; cases this
  | some u => exact ⟨u, rfl, by simp [recordLine, hu]⟩

/-- what one step of the updater does to the stack, the event list and the list of renamed
contents (everything but the database state) -/
inductive UStep (uc : UCfg) (format : Bool) (s s' : UState σ) : Rec → Prop
  | frozen (r : Rec) :
      (s.crashed = true ∨ s.stack = [] ∨ ∃ g, r = .endInclude g ∧ s.stack.length ≤ 1) →
      s'.crashed = true → s'.stack = s.stack → s'.evs = s.evs →
      s'.final = s.final → UStep uc format s s' r
  | opened (f : Str) (halt : Bool) : s.crashed = false → s'.crashed = false →
      s'.stack = ⟨f, [], halt⟩ :: s.stack → s'.evs = s.evs ++ [.fs (.create f)] →
      s'.final = s.final → UStep uc format s s' (.beginInclude f)
  | closed (g : Str) (it parent : OutItem) (rest : List OutItem) :
      s.crashed = false → s'.crashed = false → s.stack = it :: parent :: rest →
      s'.stack = { parent with halt := it.halt } :: rest →
      s'.evs = s.evs ++ (closeOps it).1.map UEv.fs →
      s'.final = s.final ++ [(it.file, (closeOps it).2)] → UStep uc format s s' (.endInclude g)
  | wrote (r r' : Rec) (it : OutItem) (rest : List OutItem) (u : Str) (dbs : List Ev)
      (halt' : Bool) :
      s.crashed = false → s'.crashed = false → r.isInjected = false → s.stack = it :: rest →
      UpdOf uc format r r' → unparse r' = some u →
      s'.stack = ⟨it.file, it.written ++ (u ++ ['\n']), halt'⟩ :: rest →
      s'.evs = s.evs ++ dbs.map UEv.db ++ [.fs (.append it.file (u ++ ['\n']))] →
      s'.final = s.final → UStep uc format s s' r

theorem updateStep_other {σ : Type} (E : Env σ) (cfg : RCfg) (uc : UCfg) (format : Bool)
    (s : UState σ) (r : Rec) (hc : s.crashed = false) (hr : r.isInjected = false) :
    updateStep E cfg uc format s r =
      (match s.stack with
       | [] => { s with crashed := true }
       | it :: rest =>
         if it.halt then writeTop s r
         else if r.isHalt then writeTop { s with stack := { it with halt := true } :: rest } r
         else if format then writeTop s r
         else
           let a := applyRecord E cfg s.world r
           let r' := (updateRecord uc r a.2).getD r
           writeTop { s with world := a.1, evs := s.evs ++ newDbEvents s.world a.1 } r') := by
  cases r <;> first
    | (simp [Rec.isInjected] at hr; done)
    | (simp only [updateStep, hc, Bool.false_eq_true, ↓reduceIte] <;> rfl)

theorem writeTop_eq {σ : Type} (s : UState σ) (r : Rec) (it : OutItem) (rest : List OutItem)
    (u : Str) (hs : s.stack = it :: rest) (hu : unparse r = some u) :
    writeTop s r = { s with stack := { it with written := it.written ++ (u ++ ['\n']) } :: rest,
                            evs := s.evs ++ [.fs (.append it.file (u ++ ['\n']))] } := by
  simp [writeTop, hs, recordLine, hu]

theorem updateStep_step {σ : Type} (E : Env σ) (cfg : RCfg) (uc : UCfg) (format : Bool)
    (s : UState σ) (r : Rec) : UStep uc format s (updateStep E cfg uc format s r) r := by
  by_cases hc : s.crashed = true
  · have : updateStep E cfg uc format s r = s := by
      cases r <;> simp [updateStep, hc]
    rw [this]
    exact .frozen r (Or.inl hc) hc rfl rfl rfl
  · have hc : s.crashed = false := by simpa using hc
    by_cases hr : r.isInjected = true
    · cases r <;> simp [Rec.isInjected] at hr
      · rename_i f
        exact .opened f (match s.stack with | it :: _ => it.halt | [] => false) hc
          (by simp [updateStep, hc])
          (by simp [updateStep, hc]; cases s.stack <;> rfl) (by simp [updateStep, hc])
          (by simp [updateStep, hc])
      · rename_i g
        cases hs : s.stack with
        | nil =>
          exact .frozen _ (Or.inr (Or.inr ⟨g, rfl, by simp [hs]⟩)) (by simp [updateStep, hc, hs])
            (by simp [updateStep, hc, hs]) (by simp [updateStep, hc, hs])
            (by simp [updateStep, hc, hs])
        | cons it tl =>
          cases tl with
          | nil =>
          exact .frozen _ (Or.inr (Or.inr ⟨g, rfl, by simp [hs]⟩)) (by simp [updateStep, hc, hs])
            (by simp [updateStep, hc, hs]) (by simp [updateStep, hc, hs])
            (by simp [updateStep, hc, hs])
          | cons parent rest =>
            exact .closed g it parent rest hc (by simp [updateStep, hc, hs]) hs
              (by simp [updateStep, hc, hs]) (by simp [updateStep, hc, hs])
              (by simp [updateStep, hc, hs])
    · have hr : r.isInjected = false := by simpa using hr
      rw [updateStep_other E cfg uc format s r hc hr]
      cases hs : s.stack with
      | nil => exact .frozen _ (Or.inr (Or.inl hs)) rfl (by simp [hs]) rfl rfl
      | cons it rest =>
        simp only
        obtain ⟨u, hu, _⟩ := recordLine_of_not_injected hr
        split
        · rw [writeTop_eq s r it rest u hs hu]
          exact .wrote r r it rest u [] _ hc hc hr hs (Or.inl rfl) hu rfl (by simp) rfl
        · split
          · rw [writeTop_eq _ r { it with halt := true } rest u rfl hu]
            exact .wrote r r it rest u [] _ hc hc hr hs (Or.inl rfl) hu rfl (by simp) rfl
          · split
            · rw [writeTop_eq s r it rest u hs hu]
              exact .wrote r r it rest u [] _ hc hc hr hs (Or.inl rfl) hu rfl (by simp) rfl
            · rename_i hfmt
              have hupd : UpdOf uc format r
                  ((updateRecord uc r (applyRecord E cfg s.world r).2).getD r) := by
                cases ho : updateRecord uc r (applyRecord E cfg s.world r).2 with
                | none => exact Or.inl rfl
                | some r' => exact Or.inr ⟨by simpa using hfmt, _, ho⟩
              obtain ⟨u', hu', _⟩ := recordLine_of_not_injected (hupd.not_injected hr)
              rw [writeTop_eq _ _ it rest u' rfl hu']
              exact .wrote r _ it rest u'
                ((applyRecord E cfg s.world r).1.trace.drop s.world.trace.length) _ hc hc hr hs
                hupd hu' rfl rfl rfl

end Slt
