/-
Helper lemmas for C08, part 1: the association-list file system of `Update.lean`
(`setFile` / `getFile` / `delFile`, `FsOp.apply`) and the 8-byte tail loop `trimOps`.
-/
import SltVerif.Update
namespace Slt

/-! ### association lists -/

theorem getFile_setFile_same (l : List (Str × Str)) (p c : Str) :
    getFile (setFile l p c) p = some c := by
  induction l with
  | nil => simp [setFile, getFile]
  | cons x xs ih =>
    obtain ⟨q, d⟩ := x
    by_cases h : q = p
    · simp [setFile, getFile, h]
    · simp [setFile, getFile, h, ih]

theorem getFile_setFile_other (l : List (Str × Str)) (p q c : Str) (h : q ≠ p) :
    getFile (setFile l p c) q = getFile l q := by
  induction l with
  | nil => simp [setFile, getFile, Ne.symm h]
  | cons x xs ih =>
    obtain ⟨r, d⟩ := x
    by_cases h1 : r = p
    · subst h1
      simp [setFile, getFile, Ne.symm h]
    · by_cases h2 : r = q
      · subst h2
        simp [setFile, getFile, h]
      · simp [setFile, getFile, h1, h2, ih]

theorem setFile_of_getFile (l : List (Str × Str)) (p c : Str) (h : getFile l p = some c) :
    setFile l p c = l := by
  induction l with
  | nil => simp [getFile] at h
  | cons x xs ih =>
    obtain ⟨r, d⟩ := x
    by_cases h1 : r = p
    · subst h1
      simp [getFile] at h
      simp [setFile, h]
    · simp [getFile, h1] at h
      simp [setFile, h1, ih h]

theorem setFile_setFile (l : List (Str × Str)) (p c d : Str) :
    setFile (setFile l p c) p d = setFile l p d := by
  induction l with
  | nil => simp [setFile]
  | cons x xs ih =>
    obtain ⟨r, e⟩ := x
    by_cases h1 : r = p
    · simp [setFile, h1]
    · simp [setFile, h1, ih]

theorem mem_setFile {l : List (Str × Str)} {p c : Str} {x : Str × Str}
    (h : x ∈ setFile l p c) : x ∈ l ∨ x = (p, c) := by
  induction l with
  | nil => simp [setFile] at h; exact Or.inr h
  | cons y ys ih =>
    obtain ⟨r, e⟩ := y
    by_cases h1 : r = p
    · simp [setFile, h1] at h
      rcases h with h | h
      · exact Or.inr h
      · exact Or.inl (List.mem_cons_of_mem _ h)
    · simp [setFile, h1] at h
      rcases h with h | h
      · exact Or.inl (by rw [h]; exact List.mem_cons_self)
      · rcases ih h with h | h
        · exact Or.inl (List.mem_cons_of_mem _ h)
        · exact Or.inr h

theorem mem_delFile {l : List (Str × Str)} {p : Str} {x : Str × Str} :
    x ∈ delFile l p ↔ x ∈ l ∧ x.1 ≠ p := by
  simp [delFile]

theorem getFile_delFile_other (l : List (Str × Str)) (p q : Str) (h : q ≠ p) :
    getFile (delFile l p) q = getFile l q := by
  induction l with
  | nil => simp [delFile, getFile]
  | cons x xs ih =>
    obtain ⟨r, d⟩ := x
    by_cases h1 : r = p
    · subst h1
      have : delFile ((r, d) :: xs) r = delFile xs r := by simp [delFile]
      rw [this, ih]
      simp [getFile, Ne.symm h]
    · have : delFile ((r, d) :: xs) p = (r, d) :: delFile xs p := by simp [delFile, h1]
      rw [this]
      simp [getFile, ih]

theorem getFile_delFile_same (l : List (Str × Str)) (p : Str) :
    getFile (delFile l p) p = none := by
  induction l with
  | nil => simp [delFile, getFile]
  | cons x xs ih =>
    obtain ⟨r, d⟩ := x
    by_cases h1 : r = p
    · have : delFile ((r, d) :: xs) p = delFile xs p := by simp [delFile, h1]
      rw [this, ih]
    · have : delFile ((r, d) :: xs) p = (r, d) :: delFile xs p := by simp [delFile, h1]
      rw [this]
      simp [getFile, h1, ih]

theorem getFile_mem {l : List (Str × Str)} {p c : Str} (h : getFile l p = some c) : (p, c) ∈ l := by
  induction l with
  | nil => simp [getFile] at h
  | cons x xs ih =>
    obtain ⟨r, d⟩ := x
    by_cases h1 : r = p
    · subst h1
      simp [getFile] at h
      simp [h]
    · simp [getFile, h1] at h
      exact List.mem_cons_of_mem _ (ih h)

theorem getFile_isSome_of_mem {l : List (Str × Str)} {x : Str × Str} (h : x ∈ l) :
    (getFile l x.1).isSome = true := by
  induction l with
  | nil => cases h
  | cons y ys ih =>
    obtain ⟨r, d⟩ := y
    by_cases h1 : r = x.1
    · simp [getFile, h1]
    · simp [getFile, h1]
      rcases List.mem_cons.mp h with h | h
      · subst h; exact absurd rfl h1
      · exact ih h

/-! ### operations -/

theorem applyFsOps_append (st : FsState) (a b : List FsOp) :
    applyFsOps st (a ++ b) = applyFsOps (applyFsOps st a) b := by
  simp [applyFsOps, List.foldl_append]

theorem applyFsOps_nil (st : FsState) : applyFsOps st [] = st := rfl

theorem applyFsOps_cons (st : FsState) (op : FsOp) (ops : List FsOp) :
    applyFsOps st (op :: ops) = applyFsOps (op.apply st) ops := rfl

theorem applyFsOps_single (st : FsState) (op : FsOp) : applyFsOps st [op] = op.apply st := rfl

theorem fsOpsOf_append (a b : List UEv) : fsOpsOf (a ++ b) = fsOpsOf a ++ fsOpsOf b := by
  simp [fsOpsOf, List.filterMap_append]

theorem fsOpsOf_map_db (l : List Ev) : fsOpsOf (l.map UEv.db) = [] := by
  induction l with
  | nil => rfl
  | cons e es ih => simp [fsOpsOf]

theorem fsOpsOf_map_fs (l : List FsOp) : fsOpsOf (l.map UEv.fs) = l := by
  induction l with
  | nil => rfl
  | cons e es ih => simpa [fsOpsOf] using ih

/-- the only operation that touches an original path -/
def FsOp.isRename : FsOp → Bool
  | .rename _ => true
  | _ => false

theorem FsOp.apply_files_of_not_rename (st : FsState) (op : FsOp) (h : op.isRename = false) :
    (op.apply st).files = st.files := by
  cases op <;> simp_all [FsOp.apply, FsOp.isRename]

theorem applyFsOps_files_of_no_rename (ops : List FsOp) (st : FsState)
    (h : ∀ op ∈ ops, op.isRename = false) : (applyFsOps st ops).files = st.files := by
  induction ops generalizing st with
  | nil => rfl
  | cons op ops ih =>
    rw [applyFsOps_cons, ih _ (fun o ho => h o (List.mem_cons_of_mem _ ho)),
      FsOp.apply_files_of_not_rename _ _ (h op List.mem_cons_self)]

/-! ### trailing newlines -/

theorem trailingNl_append_replicate (b : Str) (hb : b.getLast? ≠ some '\n') (t : Nat) :
    trailingNl (b ++ List.replicate t '\n') = t := by
  unfold trailingNl
  rw [List.reverse_append, List.reverse_replicate, List.takeWhile_append,
    List.takeWhile_replicate]
  have h1 : b.reverse.takeWhile (fun x => decide (x = '\n')) = [] := by
    rw [List.getLast?_eq_head?_reverse] at hb
    cases hr : b.reverse with
    | nil => rfl
    | cons c cs =>
      rw [hr] at hb
      simp at hb
      simp [List.takeWhile, hb]
  simp [h1]

/-- everything before the trailing newlines (`Slt.C05.body`) -/
def stripNl (s : Str) : Str := (s.reverse.dropWhile (· = '\n')).reverse

theorem stripNl_getLast (s : Str) : (stripNl s).getLast? ≠ some '\n' := by
  unfold stripNl
  rw [List.getLast?_eq_head?_reverse, List.reverse_reverse]
  have := List.head?_dropWhile_not (fun x => decide (x = '\n')) s.reverse
  intro h
  rw [h] at this
  simp at this

theorem takeWhile_nl_replicate (l : Str) :
    l.takeWhile (· = '\n') = List.replicate (l.takeWhile (· = '\n')).length '\n' := by
  induction l with
  | nil => rfl
  | cons c cs ih =>
    by_cases hc : c = '\n'
    · subst hc
      simp only [List.takeWhile, decide_true, List.length_cons, List.replicate_succ]
      rw [← ih]
    · simp [List.takeWhile, hc]

/-- every text is its body followed by its trailing newlines -/
theorem stripNl_decomp (s : Str) : s = stripNl s ++ List.replicate (trailingNl s) '\n' := by
  unfold stripNl trailingNl
  have h := @List.takeWhile_append_dropWhile _ (fun x => decide (x = '\n')) s.reverse
  have h2 : s = (s.reverse.dropWhile (fun x => decide (x = '\n'))).reverse ++
      (s.reverse.takeWhile (fun x => decide (x = '\n'))).reverse := by
    rw [← List.reverse_append, h, List.reverse_reverse]
  conv => lhs; rw [h2]
  congr 1
  rw [takeWhile_nl_replicate s.reverse, List.reverse_replicate, List.length_replicate]

theorem trailingNl_pos_of_getLast {s : Str} (h : s.getLast? = some '\n') : 0 < trailingNl s := by
  unfold trailingNl
  rw [List.getLast?_eq_head?_reverse] at h
  cases hr : s.reverse with
  | nil => rw [hr] at h; simp at h
  | cons c cs =>
    rw [hr] at h
    simp at h
    simp [List.takeWhile, h]

theorem take_append_replicate (b : Str) (t j : Nat) (c : Char) (hj : j ≤ t) :
    (b ++ List.replicate t c).take ((b ++ List.replicate t c).length - j) =
      b ++ List.replicate (t - j) c := by
  rw [List.take_append, List.take_replicate, List.length_append, List.length_replicate]
  rw [List.take_of_length_le (by omega)]
  congr 2
  omega

/-! ### the 8-byte tail loop -/

/-- one round of the loop in isolation -/
theorem trimOps_succ (file : Str) (fuel : Nat) (s : Str) :
    trimOps file (fuel + 1) s =
      (let n := min s.length 8
       if n = 0 then ([], s)
       else
         let k := min (trailingNl s) n
         if k = 0 then ([], s)
         else
           let s' := if k > 1 then s.take (s.length - (k - 1)) else s
           let ops := if k > 1 then [FsOp.dropTail file (k - 1)] else []
           if k = 1 ∨ k < n then (ops, s')
           else ((ops ++ (trimOps file fuel s').1), (trimOps file fuel s').2)) := rfl

/-- how a run of the loop ends -/
inductive TrimExit
  | done            -- `break`
  | assertFailed    -- `assert!(num_newlines > 0)` fails: a non-empty window without a final newline
  | outOfFuel       -- the model's fuel ran out (the real loop would go on)
  deriving DecidableEq, Repr

/-- `trimOps` instrumented with the way it ends; `trimRun_eq` shows that it is `trimOps` plus the
flag, so statements about the flag are statements about the branches `trimOps` takes -/
def trimRun (file : Str) : Nat → Str → List FsOp × Str × TrimExit
  | 0, s => ([], s, .outOfFuel)
  | fuel + 1, s =>
    let n := min s.length 8
    if n = 0 then ([], s, .done)
    else
      let k := min (trailingNl s) n
      if k = 0 then ([], s, .assertFailed)
      else
        let s' := if k > 1 then s.take (s.length - (k - 1)) else s
        let ops := if k > 1 then [FsOp.dropTail file (k - 1)] else []
        if k = 1 ∨ k < n then (ops, s', .done)
        else
          let r := trimRun file fuel s'
          (ops ++ r.1, r.2.1, r.2.2)

theorem trimRun_succ (file : Str) (fuel : Nat) (s : Str) :
    trimRun file (fuel + 1) s =
      (let n := min s.length 8
       if n = 0 then ([], s, .done)
       else
         let k := min (trailingNl s) n
         if k = 0 then ([], s, .assertFailed)
         else
           let s' := if k > 1 then s.take (s.length - (k - 1)) else s
           let ops := if k > 1 then [FsOp.dropTail file (k - 1)] else []
           if k = 1 ∨ k < n then (ops, s', .done)
           else ((ops ++ (trimRun file fuel s').1), (trimRun file fuel s').2.1,
             (trimRun file fuel s').2.2)) := rfl

/-- the instrumented loop computes exactly what `trimOps` computes -/
theorem trimRun_eq (file : Str) : ∀ (fuel : Nat) (s : Str),
    ((trimRun file fuel s).1, (trimRun file fuel s).2.1) = trimOps file fuel s := by
  intro fuel
  induction fuel with
  | zero => intro s; rfl
  | succ fuel ih =>
    intro s
    rw [trimRun_succ, trimOps_succ]
    simp only
    split
    · rfl
    · split
      · rfl
      · split
        · rfl
        · have := ih (if min (trailingNl s) (min s.length 8) > 1
            then s.take (s.length - (min (trailingNl s) (min s.length 8) - 1)) else s)
          rw [← this]

/-- **Core of `trim_spec`**: on a body `b` (not ending in a newline) followed by `t ≥ 1`
newlines the loop leaves `b` and one newline, whatever the lengths (in particular fewer than
eight bytes), and ends by `break` — neither by the assertion nor by lack of fuel — provided
the fuel is at least `t`. -/
theorem trimRun_replicate (file : Str) : ∀ (fuel t : Nat) (b : Str),
    b.getLast? ≠ some '\n' → 1 ≤ t → t ≤ fuel →
    (trimRun file fuel (b ++ List.replicate t '\n')).2 = (b ++ ['\n'], TrimExit.done) := by
  intro fuel
  induction fuel with
  | zero => intro t b _ h1 h2; omega
  | succ fuel ih =>
    intro t b hb h1 h2
    rw [trimRun_succ]
    have hT : trailingNl (b ++ List.replicate t '\n') = t := trailingNl_append_replicate b hb t
    have hL : (b ++ List.replicate t '\n').length = b.length + t := by simp
    simp only [hT]
    have hn : min (b ++ List.replicate t '\n').length 8 ≠ 0 := by rw [hL]; omega
    have hk : min t (min (b ++ List.replicate t '\n').length 8) ≠ 0 := by rw [hL]; omega
    simp only [hn, hk, ↓reduceIte]
    by_cases ht1 : t = 1
    · subst ht1
      have : min 1 (min (b ++ List.replicate 1 '\n').length 8) = 1 := by rw [hL]; omega
      rw [this]
      simp
    · have hkk : min t (min (b ++ List.replicate t '\n').length 8) = min t 8 := by rw [hL]; omega
      have hk1 : min t 8 > 1 := by omega
      rw [hkk]
      simp only [hk1, ↓reduceIte]
      rw [take_append_replicate b t (min t 8 - 1) '\n' (by omega)]
      by_cases hstop : min t 8 = 1 ∨ min t 8 < min (b ++ List.replicate t '\n').length 8
      · simp only [hstop, ↓reduceIte]
        have : t - (min t 8 - 1) = 1 := by
          rw [hL] at hstop; omega
        rw [this]; rfl
      · simp only [hstop, ↓reduceIte]
        exact ih (t - (min t 8 - 1)) b hb (by omega) (by omega)

theorem trimOps_replicate (file : Str) (fuel t : Nat) (b : Str)
    (hb : b.getLast? ≠ some '\n') (h1 : 1 ≤ t) (h2 : t ≤ fuel) :
    (trimOps file fuel (b ++ List.replicate t '\n')).2 = b ++ ['\n'] := by
  rw [← trimRun_eq]
  simp only [trimRun_replicate file fuel t b hb h1 h2]

/-- the shape of every buffer the updater closes -/
def NlShape (s : Str) : Prop := s = [] ∨ s.getLast? = some '\n'

/-- a buffer of that shape is empty or a body followed by at least one newline -/
theorem NlShape.decomp {s : Str} (h : NlShape s) :
    s = [] ∨ (1 ≤ trailingNl s ∧ s = stripNl s ++ List.replicate (trailingNl s) '\n') := by
  rcases h with h | h
  · exact Or.inl h
  · exact Or.inr ⟨trailingNl_pos_of_getLast h, stripNl_decomp s⟩

theorem trailingNl_le_length (s : Str) : trailingNl s ≤ s.length := by
  have h := congrArg List.length (stripNl_decomp s)
  simp only [List.length_append, List.length_replicate] at h
  omega

theorem normalizeTail_of_shape {s : Str} (hne : s ≠ []) (h : s.getLast? = some '\n') :
    normalizeTail s = stripNl s ++ ['\n'] := by
  unfold normalizeTail stripNl
  have : s.isEmpty = false := by cases s <;> simp_all
  simp [this, h]

/-- the loop on any buffer the updater closes: result, way of ending -/
theorem trimRun_shape (file : Str) (s : Str) (h : NlShape s) (fuel : Nat)
    (hf : trailingNl s + 1 ≤ fuel) :
    (trimRun file fuel s).2 = (normalizeTail s, TrimExit.done) := by
  rcases h.decomp with h0 | ⟨h1, h2⟩
  · subst h0
    cases fuel with
    | zero => omega
    | succ fuel => rfl
  · have hne : s ≠ [] := by
      intro h0; subst h0; simp [trailingNl] at h1
    have hl : s.getLast? = some '\n' := by
      rcases h with h | h
      · exact absurd h hne
      · exact h
    rw [normalizeTail_of_shape hne hl]
    conv => lhs; rw [h2]
    exact trimRun_replicate file fuel (trailingNl s) (stripNl s) (stripNl_getLast s) h1 (by omega)

/-- every operation of the loop shortens the temp file of `file`, nothing else -/
theorem trimOps_ops_dropTail (file : Str) : ∀ (fuel : Nat) (s : Str),
    ∀ op ∈ (trimOps file fuel s).1, ∃ k, 1 ≤ k ∧ k < 8 ∧ op = FsOp.dropTail file k := by
  intro fuel
  induction fuel with
  | zero => intro s op h; simp [trimOps] at h
  | succ fuel ih =>
    intro s op h
    rw [trimOps_succ] at h
    simp only at h
    split at h
    · simp at h
    · split at h
      · simp at h
      · split at h
        · split at h
          · simp at h
            exact ⟨_, by omega, by omega, h⟩
          · simp at h
        · simp only [List.mem_append] at h
          rcases h with h | h
          · split at h
            · simp at h
              exact ⟨_, by omega, by omega, h⟩
            · simp at h
          · exact ih _ op h

/-- the loop's operations, applied to a temp file holding `s`, leave exactly the content the
loop computes (and touch nothing else) -/
theorem trimOps_apply (file : Str) : ∀ (fuel : Nat) (s : Str) (st : FsState),
    getFile st.temps file = some s →
    applyFsOps st (trimOps file fuel s).1 =
      { st with temps := setFile st.temps file (trimOps file fuel s).2 } := by
  intro fuel
  induction fuel with
  | zero =>
    intro s st h
    simp [trimOps, applyFsOps_nil, setFile_of_getFile _ _ _ h]
  | succ fuel ih =>
    intro s st h
    have hsame : st = { st with temps := setFile st.temps file s } := by
      rw [setFile_of_getFile _ _ _ h]
    -- one round
    have round : ∀ k : Nat,
        applyFsOps st (if k > 1 then [FsOp.dropTail file (k - 1)] else []) =
          { st with
            temps := setFile st.temps file (if k > 1 then s.take (s.length - (k - 1)) else s) } := by
      intro k
      by_cases hk : k > 1
      · simp only [hk, ↓reduceIte, applyFsOps_single, FsOp.apply, h, Option.getD_some]
      · simp only [hk, ↓reduceIte, applyFsOps_nil]
        exact hsame
    rw [trimOps_succ]
    simp only
    split
    · exact hsame
    · split
      · exact hsame
      · split
        · exact round _
        · rw [applyFsOps_append, round]
          rw [ih _ _ (by simp only [getFile_setFile_same])]
          simp only [setFile_setFile]

/-- more fuel changes nothing once the loop ends by itself -/
theorem trimRun_fuel_succ (file : Str) : ∀ (fuel : Nat) (s : Str),
    (trimRun file fuel s).2.2 ≠ TrimExit.outOfFuel →
    trimRun file (fuel + 1) s = trimRun file fuel s := by
  intro fuel
  induction fuel with
  | zero => intro s h; exact absurd rfl h
  | succ fuel ih =>
    intro s h
    rw [trimRun_succ file (fuel + 1), trimRun_succ file fuel]
    rw [trimRun_succ file fuel] at h
    simp only at h ⊢
    split
    · rfl
    · split
      · rfl
      · split
        · rfl
        · rename_i h1 h2 h3
          simp only [h1, h2, h3, ↓reduceIte] at h
          rw [ih _ h]

theorem trimRun_fuel_mono (file : Str) (s : Str) (fuel : Nat)
    (h : (trimRun file fuel s).2.2 ≠ TrimExit.outOfFuel) :
    ∀ d, trimRun file (fuel + d) s = trimRun file fuel s := by
  intro d
  induction d with
  | zero => rfl
  | succ d ih =>
    rw [← Nat.add_assoc, trimRun_fuel_succ file (fuel + d) s (by rw [ih]; exact h), ih]

/-- on a buffer the updater closes, any fuel above the number of trailing newlines gives the same
operations and the same content as the fuel `length + 1` used by `closeOps` -/
theorem trimOps_fuel_irrelevant (file : Str) (s : Str) (h : NlShape s) (fuel : Nat)
    (hf : trailingNl s + 1 ≤ fuel) : trimOps file fuel s = trimOps file (trailingNl s + 1) s := by
  obtain ⟨d, rfl⟩ : ∃ d, fuel = trailingNl s + 1 + d := ⟨fuel - (trailingNl s + 1), by omega⟩
  have hdone := trimRun_shape file s h (trailingNl s + 1) (Nat.le_refl _)
  have := trimRun_fuel_mono file s (trailingNl s + 1) (by rw [hdone]; simp) d
  rw [← trimRun_eq, ← trimRun_eq, this]

/-- the loop invariant: on a non-empty buffer ending in a newline the assertion
`num_newlines > 0` holds in this round, and the buffer handed to the next round is again
non-empty and ends in a newline -/
theorem trim_round_inv (s : Str) (hne : s ≠ []) (h : s.getLast? = some '\n') :
    let k := min (trailingNl s) (min s.length 8)
    let s' := if k > 1 then s.take (s.length - (k - 1)) else s
    0 < k ∧ s' ≠ [] ∧ s'.getLast? = some '\n' := by
  have hd := stripNl_decomp s
  have ht := trailingNl_pos_of_getLast h
  have hle := trailingNl_le_length s
  have hl : 0 < s.length := List.length_pos_iff.mpr hne
  intro k s'
  have hk : 0 < k := by simp only [k]; omega
  refine ⟨hk, ?_⟩
  by_cases hk1 : k > 1
  · have hs' : s' = stripNl s ++ List.replicate (trailingNl s - (k - 1)) '\n' := by
      simp only [s', hk1, ↓reduceIte]
      conv => lhs; rw [hd]
      exact take_append_replicate (stripNl s) (trailingNl s) (k - 1) '\n' (by simp only [k]; omega)
    have hpos : trailingNl s - (k - 1) ≠ 0 := by simp only [k]; omega
    rw [hs']
    constructor
    · intro h0
      have := congrArg List.length h0
      simp at this
      omega
    · simp [List.getLast?_append, List.getLast?_replicate, hpos]
  · simp only [s', hk1, ↓reduceIte]
    exact ⟨hne, h⟩

end Slt
