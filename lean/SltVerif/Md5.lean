/-
RFC 1321 MD5 and UTF-8 encoding, executable. The C15 theorems are stated for an arbitrary hash
function; this file gives the concrete one used by the driver, validated against the `md-5` crate
by the correspondence check and against the RFC test vectors below (`#guard`, tests).
-/
import SltVerif.Text
namespace Slt

def md5K : Array UInt32 := #[0xd76aa478, 0xe8c7b756, 0x242070db, 0xc1bdceee, 0xf57c0faf, 0x4787c62a, 0xa8304613, 0xfd469501, 0x698098d8, 0x8b44f7af, 0xffff5bb1, 0x895cd7be, 0x6b901122, 0xfd987193, 0xa679438e, 0x49b40821, 0xf61e2562, 0xc040b340, 0x265e5a51, 0xe9b6c7aa, 0xd62f105d, 0x2441453, 0xd8a1e681, 0xe7d3fbc8, 0x21e1cde6, 0xc33707d6, 0xf4d50d87, 0x455a14ed, 0xa9e3e905, 0xfcefa3f8, 0x676f02d9, 0x8d2a4c8a, 0xfffa3942, 0x8771f681, 0x6d9d6122, 0xfde5380c, 0xa4beea44, 0x4bdecfa9, 0xf6bb4b60, 0xbebfbc70, 0x289b7ec6, 0xeaa127fa, 0xd4ef3085, 0x4881d05, 0xd9d4d039, 0xe6db99e5, 0x1fa27cf8, 0xc4ac5665, 0xf4292244, 0x432aff97, 0xab9423a7, 0xfc93a039, 0x655b59c3, 0x8f0ccc92, 0xffeff47d, 0x85845dd1, 0x6fa87e4f, 0xfe2ce6e0, 0xa3014314, 0x4e0811a1, 0xf7537e82, 0xbd3af235, 0x2ad7d2bb, 0xeb86d391]
def md5S : Array UInt32 := #[7, 12, 17, 22, 7, 12, 17, 22, 7, 12, 17, 22, 7, 12, 17, 22, 5, 9, 14, 20, 5, 9, 14, 20, 5, 9, 14, 20, 5, 9, 14, 20, 4, 11, 16, 23, 4, 11, 16, 23, 4, 11, 16, 23, 4, 11, 16, 23, 6, 10, 15, 21, 6, 10, 15, 21, 6, 10, 15, 21, 6, 10, 15, 21]

/-- UTF-8 encoding of one scalar value -/
def utf8Char (c : Char) : List UInt8 :=
  let n := c.toNat
  if n < 0x80 then [n.toUInt8]
  else if n < 0x800 then [(0xC0 + n / 64).toUInt8, (0x80 + n % 64).toUInt8]
  else if n < 0x10000 then
    [(0xE0 + n / 4096).toUInt8, (0x80 + n / 64 % 64).toUInt8, (0x80 + n % 64).toUInt8]
  else
    [(0xF0 + n / 262144).toUInt8, (0x80 + n / 4096 % 64).toUInt8, (0x80 + n / 64 % 64).toUInt8,
     (0x80 + n % 64).toUInt8]

def utf8 (s : Str) : List UInt8 := s.flatMap utf8Char

def rotl32 (x : UInt32) (c : UInt32) : UInt32 := (x <<< c) ||| (x >>> (32 - c))

def le32 (b0 b1 b2 b3 : UInt8) : UInt32 :=
  b0.toUInt32 ||| (b1.toUInt32 <<< 8) ||| (b2.toUInt32 <<< 16) ||| (b3.toUInt32 <<< 24)

def wordsOfBlock : List UInt8 → List UInt32
  | b0 :: b1 :: b2 :: b3 :: rest => le32 b0 b1 b2 b3 :: wordsOfBlock rest
  | _ => []

structure Md5St where
  a : UInt32
  b : UInt32
  c : UInt32
  d : UInt32

def md5Round (m : Array UInt32) (i : Nat) (s : Md5St) : Md5St :=
  let (f, g) :=
    if i < 16 then ((s.b &&& s.c) ||| (~~~s.b &&& s.d), i)
    else if i < 32 then ((s.d &&& s.b) ||| (~~~s.d &&& s.c), (5 * i + 1) % 16)
    else if i < 48 then (s.b ^^^ s.c ^^^ s.d, (3 * i + 5) % 16)
    else (s.c ^^^ (s.b ||| ~~~s.d), (7 * i) % 16)
  let f := f + s.a + md5K[i]! + m[g]!
  { a := s.d, d := s.c, c := s.b, b := s.b + rotl32 f md5S[i]! }

def md5Block (s : Md5St) (block : List UInt8) : Md5St :=
  let m := (wordsOfBlock block).toArray
  let r := (List.range 64).foldl (fun st i => md5Round m i st) s
  { a := s.a + r.a, b := s.b + r.b, c := s.c + r.c, d := s.d + r.d }

def chunks64 : Nat → List UInt8 → List (List UInt8)
  | 0, _ => []
  | fuel + 1, l => if l.isEmpty then [] else l.take 64 :: chunks64 fuel (l.drop 64)

def le64Bytes (n : Nat) : List UInt8 := (List.range 8).map (fun i => (n / 256 ^ i % 256).toUInt8)

def md5Pad (msg : List UInt8) : List UInt8 :=
  let len := msg.length
  let padLen := (55 + 64 - len % 64) % 64
  msg ++ [0x80] ++ List.replicate padLen 0 ++ le64Bytes (len * 8 % 2 ^ 64)

def u32Bytes (x : UInt32) : List UInt8 :=
  [x.toUInt8, (x >>> 8).toUInt8, (x >>> 16).toUInt8, (x >>> 24).toUInt8]

def md5 (msg : List UInt8) : List UInt8 :=
  let p := md5Pad msg
  let s := (chunks64 (p.length / 64 + 1) p).foldl md5Block
    { a := 0x67452301, b := 0xefcdab89, c := 0x98badcfe, d := 0x10325476 }
  u32Bytes s.a ++ u32Bytes s.b ++ u32Bytes s.c ++ u32Bytes s.d

def hexDigit (n : Nat) : Char := if n < 10 then Char.ofNat (48 + n) else Char.ofNat (87 + n)

def hexOfBytes (bs : List UInt8) : Str :=
  bs.flatMap (fun b => [hexDigit (b.toNat / 16), hexDigit (b.toNat % 16)])

/-- lower-case hexadecimal MD5 of the UTF-8 encoding of `s` -/
def md5Hex (s : Str) : Str := hexOfBytes (md5 (utf8 s))

-- RFC 1321 test suite (tests, not theorems)
#guard md5Hex [] = kw "d41d8cd98f00b204e9800998ecf8427e"
#guard md5Hex (kw "a") = kw "0cc175b9c0f1b6a831c399e269772661"
#guard md5Hex (kw "abc") = kw "900150983cd24fb0d6963f7d28e17f72"
#guard md5Hex (kw "message digest") = kw "f96b697d7cb7938d525a2f31aaf161d0"
#guard md5Hex (kw "abcdefghijklmnopqrstuvwxyz") = kw "c3fcd3d76192e4007dfb496cca67e13b"
#guard md5Hex (kw "12345678901234567890123456789012345678901234567890123456789012345678901234567890")
  = kw "57edf4a22be3c955ac49da2e2107b67a"

end Slt
