/-
Model of `parser.rs::parse_inner` (+ `parse_lines`, `parse_multiple_result`,
`parse_retry_config`) as a line transducer: the Rust code is a loop over one shared line
iterator with nested readers; here every nested reader is a mode of one fold, the one-line
`peek`s become the `pend` flag / the end-of-input cases of `finish`.

Parameters: `regexValid` (is `Regex::new(s)` ok?) and `fromChar` (the `ColumnType::from_char`).
-/
import SltVerif.Syntax
namespace Slt

structure PCfg where
  regexValid : Str → Bool
  fromChar : Char → Option ColT

/-- the record under construction -/
inductive Hdr
  | stmt (line : Nat) (conds : List Cond) (conn : Conn) (exp : SExp) (retry : Option Retry)
  | query (line : Nat) (conds : List Cond) (conn : Conn) (exp : QExp) (retry : Option Retry)
  | system (line : Nat) (conds : List Cond) (retry : Option Retry)

def Hdr.line : Hdr → Nat
  | .stmt l .. | .query l .. | .system l .. => l

inductive Mode
  | top
  | sqlFirst (h : Hdr)                                   -- `parse_lines`: first line, taken blindly
  | sql (h : Hdr) (acc : List Str)                       -- `parse_lines`: following lines
  | results (h : Hdr) (sql : Str) (acc : List Str)       -- query result lines
  | multi (h : Hdr) (sql : Str) (acc : List Str) (pend : Bool)  -- `parse_multiple_result`

/-- pseudo error kind standing for a panic inside `humantime::parse_duration` -/
inductive PFail
  | err (k : PErrKind) (line : Nat)
  | panic (line : Nat)
  deriving DecidableEq, Repr

structure PState where
  mode : Mode := .top
  out : List Rec := []
  conds : List Cond := []
  conn : Conn := .dflt
  comments : List Str := []
  num : Nat := 0
  fail : Option PFail := none

inductive HErr
  | kind (k : PErrKind)
  | panic
  deriving DecidableEq, Repr

/-- `parse_retry_config` -/
def parseRetry : List Str → Except HErr (Option Retry)
  | [] => .ok none
  | r :: rest =>
    if r ≠ kw "retry" then .error (.kind .unexpectedToken) else
    match rest with
    | [] => .error (.kind .invalidRetryConfig)
    | a :: rest2 =>
      match parseU64 a with
      | none => .error (.kind .invalidNumber)
      | some n =>
        if n = 0 then .error (.kind .invalidRetryConfig) else
        match rest2 with
        | [] => .error (.kind .invalidRetryConfig)
        | b :: rest3 =>
          if b ≠ kw "backoff" then .error (.kind .unexpectedToken) else
          match rest3 with
          | [] => .error (.kind .invalidRetryConfig)
          | d :: rest4 =>
            match parseDuration d with
            | .err => .error (.kind .invalidDuration)
            | .panic => .error .panic
            | .ok dur =>
              if rest4.isEmpty then .ok (some ⟨n, dur⟩)
              else .error (.kind .unexpectedToken)

/-- `res.len() == 4 && res[0] == "retry" && res[2] == "backoff"` -/
def isRetryShape : List Str → Bool
  | [a, _, c, _] => a = kw "retry" && c = kw "backoff"
  | _ => false

/-- `ExpectedError::new_inline` -/
def newInline (cfg : PCfg) (re : Str) : Except HErr ExpErr :=
  if re.isEmpty then .ok .empty
  else if cfg.regexValid re then .ok (.inline re)
  else .error (.kind .invalidErrorMessage)

/-- tokens after `error`: expected error and the tokens left for the retry clause -/
def errorHeader (cfg : PCfg) (res : List Str) : Except HErr (ExpErr × List Str) :=
  if isRetryShape res then .ok (.empty, res)
  else match newInline cfg (joinSp res) with
    | .ok e => .ok (e, [])
    | .error k => .error k

/-- tokens after `statement` -/
def stmtHeader (cfg : PCfg) : List Str → Except HErr (SExp × List Str)
  | [] => .error (.kind .invalidLine)
  | k :: rest =>
    if k = kw "ok" then .ok (.ok, rest)
    else if k = kw "error" then
      match errorHeader cfg rest with
      | .ok (e, r) => .ok (.error e, r)
      | .error k => .error k
    else if k = kw "count" then
      match rest with
      | [] => .error (.kind .invalidLine)
      | c :: retry =>
        match parseU64 c with
        | some n => .ok (.count n, retry)
        | none => .error (.kind .invalidNumber)
    else .error (.kind .invalidLine)

def parseTypes (cfg : PCfg) : Str → Option (List ColT)
  | [] => some []
  | c :: cs => match cfg.fromChar c with
    | none => none
    | some t => (parseTypes cfg cs).map (t :: ·)

/-- `[<sort-mode>] [<label>] [retry …]` after the type string -/
def queryMods (res : List Str) : Option SortMode × Option Str × List Str :=
  let sort := match res with
    | [] => none
    | s :: _ => SortMode.ofStr s
  let res1 := if sort.isSome then res.drop 1 else res
  let label := match res1 with
    | [] => none
    | s :: _ => if s ≠ kw "retry" then some s else none
  let res2 := if label.isSome then res1.drop 1 else res1
  (sort, label, res2)

/-- tokens after `query` -/
def queryHeader (cfg : PCfg) : List Str → Except HErr (QExp × List Str)
  | [] => .ok (.results [] none none none [], [])
  | k :: rest =>
    if k = kw "error" then
      match errorHeader cfg rest with
      | .ok (e, r) => .ok (.error e, r)
      | .error k => .error k
    else
      match parseTypes cfg k with
      | none => .error (.kind .invalidType)
      | some types =>
        let m := queryMods rest
        .ok (.results types m.1 none m.2.1 [], m.2.2)

def failWith (s : PState) (n : Nat) : HErr → PState
  | .kind k => { s with fail := some (.err k n) }
  | .panic => { s with fail := some (.panic n) }

def failKind (s : PState) (n : Nat) (k : PErrKind) : PState :=
  { s with fail := some (.err k n) }

def push (s : PState) (r : Rec) : PState := { s with out := s.out ++ [r] }

def startStmt (s : PState) (n : Nat) (e : SExp) (retry : Option Retry) : PState :=
  { s with mode := .sqlFirst (.stmt n s.conds s.conn e retry), conds := [], conn := .dflt }

def startQuery (s : PState) (n : Nat) (e : QExp) (retry : Option Retry) : PState :=
  { s with mode := .sqlFirst (.query n s.conds s.conn e retry), conds := [], conn := .dflt }

def startSystem (s : PState) (n : Nat) (retry : Option Retry) : PState :=
  { s with mode := .sqlFirst (.system n s.conds retry), conds := [] }

def doStatement (cfg : PCfg) (s : PState) (n : Nat) (res : List Str) : PState :=
  match stmtHeader cfg res with
  | .error e => failWith s n e
  | .ok (exp, rest) =>
    match parseRetry rest with
    | .error e => failWith s n e
    | .ok retry => startStmt s n exp retry

def doQuery (cfg : PCfg) (s : PState) (n : Nat) (res : List Str) : PState :=
  match queryHeader cfg res with
  | .error e => failWith s n e
  | .ok (exp, rest) =>
    match parseRetry rest with
    | .error e => failWith s n e
    | .ok retry => startQuery s n exp retry

def doSystem (s : PState) (n : Nat) (res : List Str) : PState :=
  match parseRetry res with
  | .error e => failWith s n e
  | .ok retry => startSystem s n retry

def doControl (s : PState) (n : Nat) : List Str → PState
  | [k, v] =>
    if k = kw "resultmode" then
      match ResultMode.ofStr v with
      | some m => push s (.control (.resultMode m))
      | none => failKind s n .invalidSortMode
    else if k = kw "sortmode" then
      match SortMode.ofStr v with
      | some m => push s (.control (.sortMode m))
      | none => failKind s n .invalidSortMode
    else if k = kw "substitution" then
      if v = kw "on" then push s (.control (.substitution true))
      else if v = kw "off" then push s (.control (.substitution false))
      else failKind s n .invalidControl
    else failKind s n .invalidLine
  | _ => failKind s n .invalidLine

def doSleep (s : PState) (n : Nat) (d : Str) : PState :=
  match parseDuration d with
  | .ok dur => push s (.sleep n dur)
  | .err => failKind s n .invalidDuration
  | .panic => { s with fail := some (.panic n) }

def doHashThreshold (s : PState) (n : Nat) (t : Str) : PState :=
  match parseU64 t with
  | some v => push s (.hashThreshold n v)
  | none => failKind s n .invalidNumber

def addCond (s : PState) (c : Cond) : PState :=
  { s with conds := s.conds ++ [c], out := s.out ++ [.condition c] }

def setConn (s : PState) (c : Conn) : PState :=
  { s with conn := c, out := s.out ++ [.connection c] }

/-- one-argument directives -/
def dispatch2 (s : PState) (n : Nat) (k a : Str) : PState :=
  if k = kw "include" then push s (.incl n a)
  else if k = kw "subtest" then push s (.subtest n a)
  else if k = kw "sleep" then doSleep s n a
  else if k = kw "skipif" then addCond s (.skipIf a)
  else if k = kw "onlyif" then addCond s (.onlyIf a)
  else if k = kw "connection" then setConn s (mkConn a)
  else if k = kw "hash-threshold" then doHashThreshold s n a
  else failKind s n .invalidLine

/-- the `match tokens.as_slice()` of `parse_inner`, in the order of its arms -/
def dispatch (cfg : PCfg) (s : PState) (n : Nat) : List Str → PState
  | [] => s
  | k :: rest =>
    if k = kw "statement" then doStatement cfg s n rest
    else if k = kw "query" then doQuery cfg s n rest
    else if k = kw "control" then doControl s n rest
    else match rest with
      | [] => if k = kw "halt" then push s (.halt n) else failKind s n .invalidLine
      | a :: rest2 =>
        if k = kw "system" ∧ a = kw "ok" then doSystem s n rest2
        else if rest2.isEmpty then dispatch2 s n k a
        else failKind s n .invalidLine

def flushComments (s : PState) : PState :=
  if s.comments.isEmpty then s
  else { s with out := s.out ++ [.comment s.comments], comments := [] }

def topLine (cfg : PCfg) (s : PState) (line : Str) : PState :=
  match stripHash line with
  | some text => { s with comments := s.comments ++ [text], num := s.num + 1 }
  | none =>
    let s1 := { flushComments s with num := s.num + 1 }
    if line.isEmpty then push s1 .newline
    else dispatch cfg s1 (s.num + 1) (words line)

def emit (s : PState) (r : Rec) : PState := { s with mode := .top, out := s.out ++ [r] }

/-- record built when the SQL block ended without a `----` delimiter -/
def Hdr.plain (h : Hdr) (sql : Str) : Rec :=
  match h with
  | .stmt l c cn e r => .statement l c cn sql e r
  | .query l c cn e r => .query l c cn sql e r
  | .system l c r => .system l c sql none r

def multiText (acc : List Str) : Str := trim (acc.flatMap (· ++ ['\n']))

/-- record built from a finished multi-line block -/
def Hdr.withMulti (h : Hdr) (sql : Str) (text : Str) : Rec :=
  match h with
  | .stmt l c cn _ r => .statement l c cn sql (.error (.multi text)) r
  | .query l c cn _ r => .query l c cn sql (.error (.multi text)) r
  | .system l c r => .system l c sql (some text) r

/-- record built from finished query result lines -/
def Hdr.withResults (h : Hdr) (sql : Str) (res : List Str) : Rec :=
  match h with
  | .query l c cn (.results t so rm lb _) r => .query l c cn sql (.results t so rm lb res) r
  | h => h.plain sql

/-- what a `----` delimiter after the SQL block leads to -/
def onDelimiter (s : PState) (h : Hdr) (sql : Str) : PState :=
  match h with
  | .stmt l _ _ e _ =>
    (match e with
     | .error .empty => { s with mode := .multi h sql [] false }
     | .error _ => failKind s l .duplicatedErrorMessage
     | _ => failKind s l .statementHasResults)
  | .query l _ _ e _ =>
    (match e with
     | .results .. => { s with mode := .results h sql [] }
     | .error .empty => { s with mode := .multi h sql [] false }
     | .error _ => failKind s l .duplicatedErrorMessage)
  | .system .. => { s with mode := .multi h sql [] false }

def step (cfg : PCfg) (s : PState) (line : Str) : PState :=
  if s.fail.isSome then s else
  match s.mode with
  | .top => topLine cfg s line
  | .sqlFirst h => { s with mode := .sql h [line], num := s.num + 1 }
  | .sql h acc =>
    let s1 := { s with num := s.num + 1 }
    if line.isEmpty then emit s1 (h.plain (joinNl acc))
    else if line = kw "----" then onDelimiter s1 h (joinNl acc)
    else { s1 with mode := .sql h (acc ++ [line]) }
  | .results h sql acc =>
    let s1 := { s with num := s.num + 1 }
    if line.isEmpty then emit s1 (h.withResults sql acc)
    else { s1 with mode := .results h sql (acc ++ [line]) }
  | .multi h sql acc pend =>
    let s1 := { s with num := s.num + 1 }
    if line.isEmpty then
      if pend then emit s1 (h.withMulti sql (multiText acc))
      else { s1 with mode := .multi h sql acc true }
    else { s1 with mode := .multi h sql (if pend then acc ++ [[], line] else acc ++ [line]) false }

def finish (s : PState) : Except PFail (List Rec) :=
  match s.fail with
  | some e => .error e
  | none =>
    match s.mode with
    | .top => .ok (flushComments s).out
    | .sqlFirst h => .error (.err .unexpectedEOF (h.line + 1))
    | .sql h acc => .ok (emit s (h.plain (joinNl acc))).out
    | .results h sql acc => .ok (emit s (h.withResults sql acc)).out
    | .multi h sql acc _ => .ok (emit s (h.withMulti sql (multiText acc))).out

def parseLines (cfg : PCfg) (ls : List Str) : Except PFail (List Rec) :=
  finish (ls.foldl (step cfg) {})

/-- `parse_inner` on a script text -/
def parse (cfg : PCfg) (script : Str) : Except PFail (List Rec) :=
  parseLines cfg (lines script)

end Slt
