/-
C01 — A record passes exactly when the database's answer meets its expectation.

`Meets…` is the declarative reading of the documented rules, written rule by rule and independent
of the control flow of the judge; the theorems say that the verdict table of
`run_async_no_retry` (model: `Slt.judge…`, runner.rs 989-1214) applied to the output of
`apply_record` decides exactly that relation, for every record, answer and configuration, and
that the reported kind names the real reason.
-/
import SltVerif.Runner
namespace Slt.C01
open Slt

/-- the error text satisfies the written pattern: `any`, regex search, trimmed exact text -/
def ErrMatches (rm : Str → Str → Bool) : ExpErr → Str → Prop
  | .empty, _ => True
  | .inline re, t => rm re t = true
  | .multi e, t => trim e = trim t

theorem isMatch_iff (rm : Str → Str → Bool) (e : ExpErr) (t : Str) :
    e.isMatch rm t = true ↔ ErrMatches rm e t := by
  cases e <;> simp [ExpErr.isMatch, ErrMatches]

/-! ### statements -/

/-- documented rules for `statement ok | count N | error P` -/
def MeetsStmt (rm : Str → Str → Bool) : SExp → Answer → Prop
  | .ok, .rows .. => True
  | .ok, .complete _ => True
  | .ok, .error _ => False
  | .count n, .rows _ rows => n = rows.length
  | .count n, .complete m => n = m
  | .count _, .error _ => False
  | .error p, .error t => ErrMatches rm p t
  | .error _, .rows .. => False
  | .error _, .complete _ => False

theorem statement_pass_iff (c : JCfg) (exp : SExp) (a : Answer) :
    judgeStatement c exp (answerToOutputStmt a) = .pass ↔ MeetsStmt c.regexMatch exp a := by
  cases a with
  | rows t rows =>
    cases exp <;> simp [answerToOutputStmt, judgeStatement, MeetsStmt]
  | complete m =>
    cases exp <;> simp [answerToOutputStmt, judgeStatement, MeetsStmt]
  | error msg =>
    cases exp with
    | ok => simp [answerToOutputStmt, judgeStatement, MeetsStmt]
    | count n => simp [answerToOutputStmt, judgeStatement, MeetsStmt]
    | error p =>
      simp only [answerToOutputStmt, judgeStatement, MeetsStmt, ← isMatch_iff]
      cases h : p.isMatch c.regexMatch msg <;> simp

/-- the documented cause of each failure kind of a statement -/
def StmtReason (rm : Str → Str → Bool) (exp : SExp) (a : Answer) : FailKind → Prop
  | .unexpectedOk => (∃ p, exp = .error p) ∧ (∀ t, a ≠ .error t)
  | .unexpectedFail => (∀ p, exp ≠ .error p) ∧ (∃ t, a = .error t)
  | .errorMismatch => ∃ p t, exp = .error p ∧ a = .error t ∧ ¬ ErrMatches rm p t
  | .countMismatch => ∃ n, exp = .count n ∧
      ((∃ m, a = .complete m ∧ n ≠ m) ∨ (∃ ty rows, a = .rows ty rows ∧ n ≠ rows.length))
  | _ => False

theorem statement_kind (c : JCfg) (exp : SExp) (a : Answer) (k : FailKind) (d : Str)
    (h : judgeStatement c exp (answerToOutputStmt a) = .fail k d) :
    StmtReason c.regexMatch exp a k := by
  cases a with
  | rows t rows =>
    cases exp with
    | ok => simp [answerToOutputStmt, judgeStatement] at h
    | count n =>
      simp only [answerToOutputStmt, judgeStatement] at h
      split at h
      · injection h with hk _; subst hk
        exact ⟨n, rfl, Or.inr ⟨t, rows, rfl, by assumption⟩⟩
      · cases h
    | error p =>
      simp only [answerToOutputStmt, judgeStatement] at h
      injection h with hk _; subst hk
      exact ⟨⟨p, rfl⟩, by intro t ht; cases ht⟩
  | complete m =>
    cases exp with
    | ok => simp [answerToOutputStmt, judgeStatement] at h
    | count n =>
      simp only [answerToOutputStmt, judgeStatement] at h
      split at h
      · injection h with hk _; subst hk
        exact ⟨n, rfl, Or.inl ⟨m, rfl, by assumption⟩⟩
      · cases h
    | error p =>
      simp only [answerToOutputStmt, judgeStatement] at h
      injection h with hk _; subst hk
      exact ⟨⟨p, rfl⟩, by intro t ht; cases ht⟩
  | error msg =>
    cases exp with
    | ok =>
      simp only [answerToOutputStmt, judgeStatement] at h
      injection h with hk _; subst hk
      exact ⟨(by intro p hp; cases hp), ⟨msg, rfl⟩⟩
    | count n =>
      simp only [answerToOutputStmt, judgeStatement] at h
      injection h with hk _; subst hk
      exact ⟨(by intro p hp; cases hp), ⟨msg, rfl⟩⟩
    | error p =>
      simp only [answerToOutputStmt, judgeStatement] at h
      split at h
      · cases h
      · injection h with hk _; subst hk
        refine ⟨p, msg, rfl, rfl, ?_⟩
        rw [← isMatch_iff]; assumption

/-! ### queries -/

/-- the lines the expectation is compared with: result mode applied to the shaped rows, every
value whitespace-normalised, the values of a row joined by one blank -/
def comparedLines (rm : Option ResultMode) (shaped : List Row) : List Str :=
  (applyResultMode rm shaped).map (fun r => joinSp (r.map normalize))

/-- documented rules for `query <types> … ---- <results>` and `query error P`, on the answer as
shaped by the active sort mode and hash threshold (`shaped = shape … rows`, see C10 / C15) -/
def MeetsQuery (c : JCfg) : QExp → Output → Prop
  | .results et _ _ _ eres, .query types shaped none =>
      columnsOk c.strictCols types et = true ∧ comparedLines c.resultMode shaped = eres.map normalize
  | .results _ _ _ _ eres, .statement _ none => eres = []   -- documented tolerance
  | .error p, .query _ _ (some t) => ErrMatches c.regexMatch p t
  | _, _ => False

/-- the outputs `apply_record` can produce for a query record (besides `nothing`) -/
def QueryOutputOk : Output → Prop
  | .query _ _ _ => True
  | .statement _ none => True
  | _ => False

theorem query_pass_iff (c : JCfg) (exp : QExp) (o : Output) (ho : QueryOutputOk o) :
    judgeQuery c exp o = .pass ↔ MeetsQuery c exp o := by
  cases o with
  | nothing => cases ho
  | system _ _ => cases ho
  | statement n err =>
    cases err with
    | some e => cases ho
    | none =>
      cases exp with
      | error p => simp [judgeQuery, MeetsQuery]
      | results et so rm lb eres =>
        cases eres <;> simp [judgeQuery, MeetsQuery]
  | query types rows err =>
    cases err with
    | some e =>
      cases exp with
      | error p =>
        simp only [judgeQuery, MeetsQuery, ← isMatch_iff]
        cases h : p.isMatch c.regexMatch e <;> simp
      | results et so rm lb eres => simp [judgeQuery, MeetsQuery]
    | none =>
      cases exp with
      | error p => simp [judgeQuery, MeetsQuery]
      | results et so rm lb eres =>
        simp only [judgeQuery, MeetsQuery, comparedLines, defaultValidator]
        cases hc : columnsOk c.strictCols types et
        · simp
        · by_cases hv : (applyResultMode c.resultMode rows).map (fun r => joinSp (r.map normalize)) =
              eres.map normalize <;> simp [hv]

/-- the documented cause of each failure kind of a query; the column check comes first -/
def QueryReason (c : JCfg) (exp : QExp) (o : Output) : FailKind → Prop
  | .unexpectedOk => (∃ p, exp = .error p) ∧
      ((∃ t r, o = .query t r none) ∨ (∃ n, o = .statement n none))
  | .unexpectedFail => (∃ et so rm lb er, exp = .results et so rm lb er) ∧ ∃ t r e, o = .query t r (some e)
  | .errorMismatch => ∃ p t r e, exp = .error p ∧ o = .query t r (some e) ∧ ¬ ErrMatches c.regexMatch p e
  | .columnsMismatch => ∃ et so rm lb er t r, exp = .results et so rm lb er ∧ o = .query t r none ∧
      columnsOk c.strictCols t et = false
  | .resultMismatch => ∃ et so rm lb er, exp = .results et so rm lb er ∧
      ((∃ n, o = .statement n none ∧ er ≠ []) ∨
       (∃ t r, o = .query t r none ∧ columnsOk c.strictCols t et = true ∧
          comparedLines c.resultMode r ≠ er.map normalize))
  | _ => False

theorem query_kind (c : JCfg) (exp : QExp) (o : Output) (k : FailKind) (d : Str)
    (h : judgeQuery c exp o = .fail k d) : QueryReason c exp o k := by
  cases o with
  | nothing => simp [judgeQuery] at h
  | system _ _ => simp [judgeQuery] at h
  | statement n err =>
    cases err with
    | some e => simp [judgeQuery] at h
    | none =>
      cases exp with
      | error p =>
        simp only [judgeQuery] at h
        injection h with hk _; subst hk
        exact ⟨⟨p, rfl⟩, Or.inr ⟨n, rfl⟩⟩
      | results et so rm lb eres =>
        simp only [judgeQuery] at h
        split at h
        · cases h
        · injection h with hk _; subst hk
          refine ⟨et, so, rm, lb, eres, rfl, Or.inl ⟨n, rfl, ?_⟩⟩
          intro he; subst he; simp_all
  | query types rows err =>
    cases err with
    | some e =>
      cases exp with
      | error p =>
        simp only [judgeQuery] at h
        split at h
        · cases h
        · injection h with hk _; subst hk
          refine ⟨p, types, rows, e, rfl, rfl, ?_⟩
          rw [← isMatch_iff]; assumption
      | results et so rm lb eres =>
        simp only [judgeQuery] at h
        injection h with hk _; subst hk
        exact ⟨⟨et, so, rm, lb, eres, rfl⟩, ⟨types, rows, e, rfl⟩⟩
    | none =>
      cases exp with
      | error p =>
        simp only [judgeQuery] at h
        injection h with hk _; subst hk
        exact ⟨⟨p, rfl⟩, Or.inl ⟨types, rows, rfl⟩⟩
      | results et so rm lb eres =>
        simp only [judgeQuery] at h
        cases hc : columnsOk c.strictCols types et
        · simp only [hc, Bool.not_false, if_true] at h
          injection h with hk _; subst hk
          exact ⟨et, so, rm, lb, eres, types, rows, rfl, rfl, hc⟩
        · simp only [hc, Bool.not_true, Bool.false_eq_true, if_false] at h
          split at h
          · injection h with hk _; subst hk
            refine ⟨et, so, rm, lb, eres, rfl, Or.inr ⟨types, rows, rfl, hc, ?_⟩⟩
            intro heq
            simp_all [comparedLines, defaultValidator]
          · cases h

/-! ### system commands -/

/-- documented rules for `system ok`: zero exit status, and the trimmed stdout equals the
expected text when one is written -/
def MeetsSystem (exp : Option Str) : CmdAnswer → Prop
  | .exit code out => code = 0 ∧ (exp = none ∨ exp = some (trim out))
  | .spawnErr => False
  | .signal _ _ => False      -- killed by a signal: not a zero exit status

/-- what `apply_record` turns a command's answer into (non-background, not skipped) -/
def cmdOutput (exp : Option Str) : CmdAnswer → Output
  | .spawnErr => .system none (some (kw "spawnerr"))
  | .signal sig out => .system none (some (signalErrorText sig out))
  | .exit code out =>
    if code = 0 then .system (if exp.isSome then some out else none) none
    else .system none (some (systemErrorText code out))

theorem system_pass_iff (exp : Option Str) (a : CmdAnswer) :
    judgeSystem exp (cmdOutput exp a) = .pass ↔ MeetsSystem exp a := by
  cases a with
  | spawnErr => simp [cmdOutput, judgeSystem, MeetsSystem]
  | signal sig out => simp [cmdOutput, judgeSystem, MeetsSystem]
  | exit code out =>
    by_cases hc : code = 0
    · cases exp with
      | none => simp [cmdOutput, judgeSystem, MeetsSystem, hc]
      | some e =>
        by_cases he : e = trim out <;> simp [cmdOutput, judgeSystem, MeetsSystem, hc, he]
    · simp [cmdOutput, judgeSystem, MeetsSystem, hc]

theorem system_kind (exp : Option Str) (a : CmdAnswer) (k : FailKind) (d : Str)
    (h : judgeSystem exp (cmdOutput exp a) = .fail k d) :
    (k = .systemFail ∧ (a = .spawnErr ∨ (∃ sig out, a = .signal sig out) ∨
      ∃ code out, a = .exit code out ∧ code ≠ 0)) ∨
    (k = .stdoutMismatch ∧ ∃ e out, exp = some e ∧ a = .exit 0 out ∧ e ≠ trim out) := by
  cases a with
  | spawnErr =>
    simp only [cmdOutput, judgeSystem] at h
    injection h with hk _; subst hk
    exact Or.inl ⟨rfl, Or.inl rfl⟩
  | signal sig out =>
    simp only [cmdOutput, judgeSystem] at h
    injection h with hk _; subst hk
    exact Or.inl ⟨rfl, Or.inr (Or.inl ⟨sig, out, rfl⟩)⟩
  | exit code out =>
    by_cases hc : code = 0
    · subst hc
      cases exp with
      | none => simp [cmdOutput, judgeSystem] at h
      | some e =>
        simp only [cmdOutput, judgeSystem, Option.isSome, if_true, Option.getD] at h
        split at h
        · injection h with hk _; subst hk
          exact Or.inr ⟨rfl, e, out, rfl, rfl, by assumption⟩
        · cases h
    · simp only [cmdOutput, hc, if_false, judgeSystem] at h
      injection h with hk _; subst hk
      exact Or.inl ⟨rfl, Or.inr (Or.inr ⟨code, out, rfl, hc⟩)⟩

/-! ### totality: the `unreachable!()` arm is unreachable -/

variable {σ : Type}

theorem applyStatement_output (E : Env σ) (cfg : RCfg) (w : World σ) (conds : List Cond)
    (conn : Conn) (sql : Str) :
    let o := (applyStatement E cfg w conds conn sql).2
    o = .nothing ∨ (∃ n e, o = .statement n e) ∨ (∃ t r, o = .query t r none) := by
  simp only [applyStatement]
  split
  · exact Or.inr (Or.inl ⟨_, _, rfl⟩)
  · split
    · exact Or.inl rfl
    · split
      · exact Or.inr (Or.inl ⟨_, _, rfl⟩)
      · simp only []
        generalize (E.run _ _ _).2 = a
        cases a with
        | rows t r => exact Or.inr (Or.inr ⟨t, r, rfl⟩)
        | complete n => exact Or.inr (Or.inl ⟨_, _, rfl⟩)
        | error m => exact Or.inr (Or.inl ⟨_, _, rfl⟩)

theorem applyQuery_output (E : Env σ) (cfg : RCfg) (w : World σ) (conds : List Cond)
    (conn : Conn) (sql : Str) (exp : QExp) :
    let o := (applyQuery E cfg w conds conn sql exp).2
    o = .nothing ∨ QueryOutputOk o := by
  simp only [applyQuery]
  split
  · exact Or.inr trivial
  · split
    · exact Or.inl rfl
    · split
      · exact Or.inr trivial
      · split <;> exact Or.inr trivial

theorem applySystem_output (E : Env σ) (cfg : RCfg) (w : World σ) (conds : List Cond)
    (cmd : Str) (exp : Option Str) :
    let o := (applySystem E cfg w conds cmd exp).2
    o = .nothing ∨ ∃ s e, o = .system s e := by
  simp only [applySystem]
  split
  · exact Or.inl rfl
  · split
    · exact Or.inr ⟨_, _, rfl⟩
    · split
      · exact Or.inr ⟨_, _, rfl⟩
      · split
        · exact Or.inr ⟨_, _, rfl⟩
        · split <;> exact Or.inr ⟨_, _, rfl⟩
        · exact Or.inr ⟨_, _, rfl⟩

/-- **judge_total**: on every output `apply_record` can produce for a record, the verdict table
reaches one of its real arms; the runner cannot hit `unreachable!()`. -/
theorem judge_total (E : Env σ) (cfg : RCfg) (w : World σ) (r : Rec) (c : JCfg) :
    judge c r (applyRecord E cfg w r).2 ≠ .unreachable := by
  cases r with
  | statement l conds conn sql exp rt =>
    simp only [applyRecord]
    rcases applyStatement_output E cfg w conds conn sql with h | ⟨n, e, h⟩ | ⟨t, rws, h⟩
    · simp only [h]; simp [judge]
    · simp only [h]
      cases e <;> cases exp <;> simp [judge, judgeStatement] <;> split <;> simp
    · simp only [h]
      cases exp <;> simp [judge, judgeStatement]
      split <;> simp
  | query l conds conn sql exp rt =>
    simp only [applyRecord]
    rcases applyQuery_output E cfg w conds conn sql exp with h | h
    · simp only [h]; simp [judge]
    · generalize (applyQuery E cfg w conds conn sql exp).2 = o at h
      cases o with
      | nothing => simp [judge]
      | system _ _ => cases h
      | statement n e =>
        cases e with
        | some _ => cases h
        | none => cases exp <;> simp [judge, judgeQuery]; split <;> simp
      | query t rws e =>
        cases e <;> cases exp <;> simp [judge, judgeQuery] <;> (repeat' split) <;> simp
  | system l conds cmd out rt =>
    simp only [applyRecord]
    rcases applySystem_output E cfg w conds cmd out with h | ⟨s, e, h⟩
    · simp only [h]; simp [judge]
    · simp only [h]
      cases e <;> simp [judge, judgeSystem]
      cases out <;> simp
      split <;> simp
  | sleep l d => simp [applyRecord, judge]
  | control c' => simp [applyRecord, judge]
  | hashThreshold l n => simp [applyRecord, judge]
  | incl l f => simp [applyRecord, judge]
  | subtest l n => simp [applyRecord, judge]
  | halt l => simp [applyRecord, judge]
  | condition c' => simp [applyRecord, judge]
  | connection c' => simp [applyRecord, judge]
  | comment ls => simp [applyRecord, judge]
  | newline => simp [applyRecord, judge]
  | beginInclude f => simp [applyRecord, judge]
  | endInclude f => simp [applyRecord, judge]

/-- Tie to the runner: an executed statement's output is the database's answer … -/
theorem applyStatement_answer (E : Env σ) (cfg : RCfg) (w : World σ) (conds : List Cond)
    (conn : Conn) (sql sql' : Str) (k : Nat) (db' : σ) (a : Answer)
    (hconn : (getConn E w conn).2 = .ok k)
    (hskip : shouldSkip cfg.labels (E.engine k) conds = false)
    (hsub : maySubstitute E (getConn E w conn).1 true sql = .ok sql')
    (hrun : E.run (getConn E w conn).1.db k sql' = (db', a)) :
    (applyStatement E cfg w conds conn sql).2 = answerToOutputStmt a := by
  simp [applyStatement, hconn, hskip, hsub, hrun]

/-- … so **running a statement passes iff the answer meets the expectation**. -/
theorem run_statement_pass_iff (E : Env σ) (cfg : RCfg) (w : World σ) (line : Nat)
    (conds : List Cond) (conn : Conn) (sql sql' : Str) (exp : SExp) (k : Nat) (db' : σ)
    (a : Answer)
    (hconn : (getConn E w conn).2 = .ok k)
    (hskip : shouldSkip cfg.labels (E.engine k) conds = false)
    (hsub : maySubstitute E (getConn E w conn).1 true sql = .ok sql')
    (hrun : E.run (getConn E w conn).1.db k sql' = (db', a)) :
    (runNoRetry E cfg w (.statement line conds conn sql exp none)).2 = .pass ↔
      MeetsStmt E.regexMatch exp a := by
  simp only [runNoRetry, applyRecord,
    applyStatement_answer E cfg w conds conn sql sql' k db' a hconn hskip hsub hrun]
  have h := statement_pass_iff (jcfg E cfg (applyStatement E cfg w conds conn sql).1) exp a
  simp only [jcfg] at h ⊢
  rw [← h]
  cases a <;> simp [judge, answerToOutputStmt]

/-- a connection failure is indistinguishable from a database error (documented behaviour) -/
theorem connection_failure_is_error (E : Env σ) (cfg : RCfg) (w : World σ) (conds : List Cond)
    (conn : Conn) (sql msg : Str) (hconn : (getConn E w conn).2 = .error msg) :
    (applyStatement E cfg w conds conn sql).2 = answerToOutputStmt (.error msg) := by
  simp [applyStatement, hconn, answerToOutputStmt]

-- Non-vacuity: one passing and one failing instance of each record kind.
example : MeetsStmt (fun _ _ => false) (.count 2) (.complete 2) := by simp [MeetsStmt]
example : judgeStatement ⟨none, false, fun _ _ => false⟩ (.error (.multi (kw " boom ")))
    (answerToOutputStmt (.error (kw "boom\n"))) = .pass := by decide
example : judgeQuery ⟨none, true, fun _ _ => false⟩ (.results [.int] none none none [kw "1  2"])
    (.query [.int] [[kw " 1", kw "2 "]] none) = .pass := by decide
example : judgeQuery ⟨none, true, fun _ _ => false⟩ (.results [.text] none none none [kw "1 2"])
    (.query [.int] [[kw "1", kw "2"]] none) = .fail .columnsMismatch [ 'I' ] := by decide

end Slt.C01
