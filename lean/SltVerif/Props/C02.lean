/-
C02 — A script runs top to bottom, once per record, and stops at the first failure.

Theorems about `Slt.runMulti` (model of `run_multi_async`, runner.rs 1231-1242) over `runRecord`,
for every environment (history-dependent database), start state and record list, by induction
on the list.  (That the text sent is the text written is `sql_verbatim` below together with the
parser theorem of C03; the failure line is the line stored by the parser.)
-/
import SltVerif.Runner
namespace Slt.C02
open Slt

variable {σ : Type}

def noHalt (rs : List Rec) : Prop := ∀ r ∈ rs, r.isHalt = false

/-- **Sequential composition**: when a prefix without `halt` passes, the rest runs from the
state the prefix left — records are executed in file order, each through `runRecord` once. -/
theorem runMulti_append_ok (E : Env σ) (cfg : RCfg) :
    ∀ (pre : List Rec) (w : World σ) (rest : List Rec), noHalt pre →
      (runMulti E cfg w pre).2 = .ok →
      runMulti E cfg w (pre ++ rest) = runMulti E cfg (runMulti E cfg w pre).1 rest := by
  intro pre
  induction pre with
  | nil => intro w rest _ _; rfl
  | cons r rs ih =>
    intro w rest hh hok
    have hr : r.isHalt = false := hh r (by simp)
    simp only [List.cons_append, runMulti, hr, Bool.false_eq_true, ↓reduceIte] at hok ⊢
    cases hv : (runRecord E cfg w r).2 with
    | pass =>
      simp only [hv] at hok ⊢
      exact ih _ rest (fun r' h' => hh r' (by simp [h'])) hok
    | fail k d => simp [hv] at hok
    | unreachable => simp [hv] at hok

/-- **Stop at the first failure**: if the records before `r` pass and `r` fails, the run reports
`r`'s line and kind and its final state is the state right after `r` — nothing of `post` ran. -/
theorem run_prefix_fail (E : Env σ) (cfg : RCfg) (pre post : List Rec) (r : Rec) (w : World σ)
    (k : FailKind) (d : Str) (hh : noHalt pre) (hr : r.isHalt = false)
    (hok : (runMulti E cfg w pre).2 = .ok)
    (hfail : (runRecord E cfg (runMulti E cfg w pre).1 r).2 = .fail k d) :
    runMulti E cfg w (pre ++ r :: post) =
      ((runRecord E cfg (runMulti E cfg w pre).1 r).1, .failed (r.line?.getD 0) k d) := by
  rw [runMulti_append_ok E cfg pre w _ hh hok]
  simp [runMulti, hr, hfail]

/-- **halt ends the run successfully at that point**: nothing after it is executed. -/
theorem run_halt (E : Env σ) (cfg : RCfg) (pre post : List Rec) (l : Nat) (w : World σ)
    (hh : noHalt pre) (hok : (runMulti E cfg w pre).2 = .ok) :
    runMulti E cfg w (pre ++ .halt l :: post) = ((runMulti E cfg w pre).1, .ok) := by
  rw [runMulti_append_ok E cfg pre w _ hh hok]
  simp [runMulti, Rec.isHalt]

/-- a failing prefix decides the run: later records are irrelevant -/
theorem runMulti_append_fail (E : Env σ) (cfg : RCfg) :
    ∀ (pre : List Rec) (w : World σ) (rest : List Rec), noHalt pre →
      (runMulti E cfg w pre).2 ≠ .ok →
      runMulti E cfg w (pre ++ rest) = runMulti E cfg w pre := by
  intro pre
  induction pre with
  | nil => intro w rest _ h; simp [runMulti] at h
  | cons r rs ih =>
    intro w rest hh hne
    have hr : r.isHalt = false := hh r (by simp)
    simp only [List.cons_append, runMulti, hr, Bool.false_eq_true, ↓reduceIte] at hne ⊢
    cases hv : (runRecord E cfg w r).2 with
    | pass =>
      simp only [hv] at hne ⊢
      exact ih _ rest (fun r' h' => hh r' (by simp [h'])) hne
    | fail k d => rfl
    | unreachable => rfl

/-- the worlds in which the records of a halt-free list are executed, in order -/
def worldAt (E : Env σ) (cfg : RCfg) (w : World σ) : List Rec → Nat → World σ
  | _, 0 => w
  | [], _ + 1 => w
  | r :: rs, i + 1 => worldAt E cfg (runRecord E cfg w r).1 rs i

/-- **The run succeeds iff every record passes** (each judged in the state its predecessors
left). -/
theorem run_ok_iff (E : Env σ) (cfg : RCfg) :
    ∀ (rs : List Rec) (w : World σ), noHalt rs →
      ((runMulti E cfg w rs).2 = .ok ↔
        ∀ i, (hi : i < rs.length) → (runRecord E cfg (worldAt E cfg w rs i) rs[i]).2 = .pass) := by
  intro rs
  induction rs with
  | nil => intro w _; simp [runMulti]
  | cons r rs ih =>
    intro w hh
    have hr : r.isHalt = false := hh r (by simp)
    have hh' : noHalt rs := fun r' h' => hh r' (by simp [h'])
    simp only [runMulti, hr, Bool.false_eq_true, ↓reduceIte]
    constructor
    · intro h i hi
      cases hv : (runRecord E cfg w r).2 with
      | pass =>
        simp only [hv] at h
        cases i with
        | zero => simpa [worldAt] using hv
        | succ i =>
          simp only [worldAt, List.getElem_cons_succ]
          exact (ih _ hh').mp h i (by simpa using hi)
      | fail k d => simp [hv] at h
      | unreachable => simp [hv] at h
    · intro h
      have h0 := h 0 (by simp)
      simp only [worldAt, List.getElem_cons_zero] at h0
      simp only [h0]
      apply (ih _ hh').mpr
      intro i hi
      have := h (i + 1) (by simpa using hi)
      simpa [worldAt] using this

/-- **Once per record**: a record without a retry clause is executed by one `apply_record`. -/
theorem run_once (E : Env σ) (cfg : RCfg) (w : World σ) (r : Rec) (h : r.retry? = none) :
    runRecord E cfg w r = runNoRetry E cfg w r := by
  simp [runRecord, h]

/-- **SQL verbatim**: with substitution off, the text that reaches the session is the record's
SQL text, unchanged. -/
theorem sql_verbatim (E : Env σ) (cfg : RCfg) (w : World σ) (conds : List Cond) (conn : Conn)
    (sql : Str) (k : Nat) (hconn : (getConn E w conn).2 = .ok k)
    (hskip : shouldSkip cfg.labels (E.engine k) conds = false)
    (hoff : (getConn E w conn).1.substOn = false) :
    (applyStatement E cfg w conds conn sql).1.trace = (getConn E w conn).1.trace ++ [.run k sql] := by
  simp [applyStatement, hconn, hskip, maySubstitute, hoff]

/-! ### control records: scope -/

structure Settings where
  sortMode : Option SortMode
  resultMode : Option ResultMode
  substOn : Bool
  threshold : Nat
  deriving DecidableEq

def settingsOf (w : World σ) : Settings := ⟨w.sortMode, w.resultMode, w.substOn, w.threshold⟩

/-- the effect of one record on the settings: only `control` / `hash-threshold` records change
them, and each changes only its own field -/
def stepSettings (s : Settings) : Rec → Settings
  | .control (.sortMode m) => { s with sortMode := some m }
  | .control (.resultMode m) => { s with resultMode := some m }
  | .control (.substitution b) => { s with substOn := b }
  | .hashThreshold _ n => { s with threshold := n }
  | _ => s

theorem getConn_settings (E : Env σ) (w : World σ) (c : Conn) :
    settingsOf (getConn E w c).1 = settingsOf w := by
  unfold getConn
  split
  · rfl
  · cases h : (E.make w.db w.makes).2 <;> simp [h, settingsOf]

theorem applyRecord_settings (E : Env σ) (cfg : RCfg) (w : World σ) (r : Rec) :
    settingsOf (applyRecord E cfg w r).1 = stepSettings (settingsOf w) r := by
  cases r <;> simp only [applyRecord, World.log, stepSettings]
  case statement l conds conn sql exp rt =>
    simp only [applyStatement]
    split
    · exact getConn_settings E w conn
    · split
      · exact getConn_settings E w conn
      · split <;> exact getConn_settings E w conn
  case query l conds conn sql exp rt =>
    simp only [applyQuery]
    split
    · exact getConn_settings E w conn
    · split
      · exact getConn_settings E w conn
      · split
        · exact getConn_settings E w conn
        · split <;> exact getConn_settings E w conn
  case system l conds cmd out rt =>
    simp only [applySystem]
    repeat' split
    all_goals rfl
  case control c => cases c <;> rfl
  all_goals rfl

theorem runRecord_settings (E : Env σ) (cfg : RCfg) (w : World σ) (r : Rec) :
    settingsOf (runRecord E cfg w r).1 = stepSettings (settingsOf w) r := by
  unfold runRecord
  cases hrt : r.retry? with
  | none => simp only [runNoRetry]; exact applyRecord_settings E cfg w r
  | some rt =>
    simp only []
    -- records with a retry clause are statement/query/system: they never change settings
    have hstep : ∀ s, stepSettings s r = s := by
      intro s; cases r <;> simp [Rec.retry?] at hrt <;> rfl
    have h1 : ∀ w : World σ, settingsOf (runNoRetry E cfg w r).1 = settingsOf w := by
      intro w; simp only [runNoRetry]; rw [applyRecord_settings, hstep]
    have : ∀ (n : Nat) (w : World σ) (last : Verdict),
        settingsOf (retryLoop E cfg r rt.backoff n w last).1 = settingsOf w := by
      intro n
      induction n with
      | zero => intro w last; rfl
      | succ n ih =>
        intro w last
        simp only [retryLoop]
        split
        · exact h1 w
        · rw [ih]; exact h1 w
    rw [this, hstep]

/-- **Scope of control records**: the settings under which the i-th record of a halt-free script
is executed are the fold of the `control` / `hash-threshold` records before it, in order — later
ones never affect earlier records. -/
theorem control_scope (E : Env σ) (cfg : RCfg) :
    ∀ (rs : List Rec) (w : World σ) (i : Nat), i ≤ rs.length →
      settingsOf (worldAt E cfg w rs i) = (rs.take i).foldl stepSettings (settingsOf w) := by
  intro rs
  induction rs with
  | nil => intro w i hi; cases i <;> simp [worldAt]
  | cons r rs ih =>
    intro w i hi
    cases i with
    | zero => simp [worldAt]
    | succ i =>
      simp only [worldAt, List.take_succ_cons, List.foldl_cons]
      rw [ih _ i (by simpa using hi), runRecord_settings]

-- Non-vacuity: a two-record script whose second record fails at its own line.
section Example
def exEnv : Env Nat :=
  { make := fun s _ => (s, none)
    run := fun s _ sql => (s + 1, if sql = kw "bad" then .error (kw "boom") else .complete 1)
    engine := fun _ => []
    cmd := fun s _ => (s, .exit 0 [])
    subst := fun _ s => .ok s
    regexMatch := fun _ _ => false
    hash := fun s => s }
def exScript : List Rec :=
  [.statement 1 [] .dflt (kw "good") .ok none, .statement 4 [] .dflt (kw "bad") .ok none,
   .statement 7 [] .dflt (kw "never") .ok none]
example : (runMulti exEnv ⟨[], false⟩ { db := 0 } exScript).2 =
      .failed 4 .unexpectedFail (kw "boom") ∧
    (runMulti exEnv ⟨[], false⟩ { db := 0 } exScript).1.trace =
      [.make 0 true, .run 0 (kw "good"), .run 0 (kw "bad")] := by decide
end Example

end Slt.C02
