/-
C03 — What is written is what gets parsed, with true line numbers.

"For every well-formed script, however it is laid out (extra blanks or tabs between header words,
trailing blanks, LF or CRLF line ends, comments and blank lines between records, with or without
a final newline), parsing yields exactly the records written: same kinds and order, SQL / command
text and result lines verbatim, expectation form, column types, sort mode, label, retry clause,
and the conditions and connection name attached to the right record.  Every located record
carries the 1-based number of its first line.  Multi-line error texts and system outputs are
returned trimmed and end at two consecutive blank lines or end of file."

Specification (`Render.lean`): an abstract script is a list of `Item`s over the FULL grammar —
blank line, blanks-only line, comment lines, `halt`, `subtest`, `sleep`, `include`,
`hash-threshold`, `skipif` / `onlyif`, `connection`, `control`, `statement` (ok | count | error
any | error inline | error multi-line; optional retry), `query` (bare | types, optional sort mode,
optional label; result lines | error forms; optional retry), `system ok` (optional retry, optional
multi-line stdout).  Every item carries its own layout (`Lay`: blanks before the first word,
non-empty blanks between words, blanks after the last word; any `char::is_whitespace` character
counts as a blank).  `WF` lists the side conditions of the grammar and is decidable.

Theorems (all for the parser model `Slt.parseLines` / `Slt.parse` of `Parser.lean`; all items of
the grammar are covered, nothing is partial):

* `parse_render`        parseLines (render A) = ok (expected A)
* `parse_render_eof`    the same with the terminating blank line(s) of the last record missing
* `lines_renderText`, `parse_text`, `parse_render_text`, `parse_render_text_eof`
                        the same on text, every line with its own LF / CRLF, with or without a
                        final newline
* `record_at`           where the records of the i-th item are and what context they carry
* `guards_attach`, `guards_between`, `connection_attach`, `connection_next`, `line_numbers`,
  `multiline_trimmed`   the corollaries named in the property
-/
import SltVerif.Lemmas.ParserSim
import SltVerif.Lemmas.ParserLines
import SltVerif.Lemmas.ParserRef
namespace Slt.C03
open Slt

variable (cfg : PCfg)

/-! ## The parser theorem -/

/-- **C03, main theorem** (on line lists): parsing the rendering of a well-formed script gives
exactly the records written — for every abstract script over the full grammar and every layout
of every header line. -/
theorem parse_render (A : List Item) (hwf : ∀ i ∈ A, WF cfg i) :
    parseLines cfg (render A) = .ok (expected cfg A) := by
  have h := fold_items cfg A {} hwf
  have h0 : (({} : Ref).toP) = ({} : PState) := rfl
  unfold parseLines expected refRun
  rw [← h0, h, finish_toP]

/-- **End of file inside the last record**: the blank line(s) terminating the last item may be
missing, wholly or in part (`t` is any prefix of the terminator: nothing, or one of the two blank
lines after a multi-line text). -/
theorem parse_render_eof (A : List Item) (i : Item) (t : List Str)
    (hwf : ∀ j ∈ A, WF cfg j) (hi : WF cfg i) (ht : t <+: i.term) :
    parseLines cfg (render A ++ (renderOpen i ++ t)) = .ok (expected cfg (A ++ [i])) := by
  have h := fold_items cfg A {} hwf
  have h0 : (({} : Ref).toP) = ({} : PState) := rfl
  unfold parseLines expected refRun
  rw [List.foldl_append, ← h0, h, finish_item cfg _ i hi t ht, List.foldl_append]
  rfl


/-! ### A concrete script -/

/-- every string is a valid regex; unknown type characters are `any` (as `DefaultColumnType`) -/
def exCfg : PCfg := ⟨fun _ => true, ColT.fromCharDefault⟩

/-- layout: the blanks after each word, nothing before the first -/
def exLay (ss : List String) : Lay := ⟨[], ss.map String.toList⟩

def exScript : List Item := [
  .comment [kw " hello", kw "world "],
  .cond true (kw "mysql") ⟨kw " ", [kw " \t", kw "  "]⟩,
  .connection (kw "c1") (exLay ["  ", ""]),
  .statement (.count (kw "3")) (some ⟨kw "2", kw "1s500ms"⟩)
    (exLay [" ", "\t", " ", " ", " ", "  ", " "]) (kw "insert into t") [kw "values (1)"],
  .blank,
  .wsLine (kw " \t "),
  .control (.sortMode .rowsort) (exLay [" ", "   ", ""]),
  .query (.typed (kw "IT") (some .rowsort) (some (kw "lbl")) (some [kw "1 a", kw "2 b"])) none
    (exLay [" ", " ", "\t\t", " "]) (kw "select * from t") [],
  .statement (.error (.multi [kw "line one", [], kw " line two "])) none (exLay [" ", ""])
    (kw "boom") [],
  .query (.error (.inline [kw "no", kw "such", kw "table"])) none
    (exLay [" ", " ", "  ", "\t", ""]) (kw "select 1") [],
  .system (some ⟨kw "+3", kw "2m"⟩) (exLay [" ", " ", " ", " ", " ", ""]) (kw "echo hi") []
    (some [kw "hi"]),
  .sleep (kw "10ms") (exLay [" ", ""]),
  .halt (exLay [""])]

/-- the lines written -/
def exLines : List Str := [
  "# hello", "#world ", " skipif \tmysql  ", "connection  c1",
  "statement count\t3 retry 2 backoff  1s500ms ", "insert into t", "values (1)", "",
  "", " \t ", "control sortmode   rowsort",
  "query IT rowsort\t\tlbl ", "select * from t", "----", "1 a", "2 b", "",
  "statement error", "boom", "----", "line one", "", " line two ", "", "",
  "query error no  such\ttable", "select 1", "",
  "system ok retry +3 backoff 2m", "echo hi", "----", "hi", "", "",
  "sleep 10ms", "halt"].map String.toList

/-- the records expected -/
def exRecs : List Rec := [
  .comment [kw " hello", kw "world "],
  .condition (.skipIf (kw "mysql")),
  .connection (.named (kw "c1")),
  .statement 5 [.skipIf (kw "mysql")] (.named (kw "c1")) (kw "insert into t\nvalues (1)")
    (.count 3) (some ⟨2, ⟨1, 500000000⟩⟩),
  .newline,
  .control (.sortMode .rowsort),
  .query 12 [] .dflt (kw "select * from t")
    (.results [.int, .text] (some .rowsort) none (some (kw "lbl")) [kw "1 a", kw "2 b"]) none,
  .statement 18 [] .dflt (kw "boom") (.error (.multi (kw "line one\n\n line two"))) none,
  .query 26 [] .dflt (kw "select 1") (.error (.inline (kw "no such table"))) none,
  .system 29 [] (kw "echo hi") (some (kw "hi")) (some ⟨3, ⟨120, 0⟩⟩),
  .sleep 35 ⟨0, 10000000⟩,
  .halt 36]

set_option maxRecDepth 100000 in
example : ∀ i ∈ exScript, WF exCfg i := by decide

set_option maxRecDepth 100000 in
example : render exScript = exLines := by decide

set_option maxRecDepth 100000 in
example : expected exCfg exScript = exRecs := by decide

set_option maxRecDepth 100000 in
/-- the instance of `parse_render`, checked by evaluation -/
example : parseLines exCfg (render exScript) = .ok (expected exCfg exScript) := by decide

set_option maxRecDepth 100000 in
/-- on text: CRLF on every third line, no final newline (the file ends with `halt`) -/
example : parse exCfg (renderText (exLines.zipIdx.map fun (l, k) => (l, k % 3 == 0)) false) =
    .ok exRecs := by decide

def exRetry : RetryTok := ⟨kw "5", kw "1s"⟩

/-- a second script with the remaining item kinds and corner cases (empty first SQL line, `----`
as first SQL line, a label without sort mode, `query` with nothing after it, an empty result
block, a multi-line text starting with a blank line); `exLast` is then written without its
terminator: the file ends inside the last record -/
def exScript2 : List Item := [
  .subtest (kw "part-1") (exLay ["\t", ""]),
  .incl (kw "other/*.slt") (exLay [" ", " "]),
  .hashThreshold (kw "100") (exLay [" ", ""]),
  .cond false (kw "postgres") (exLay [" ", ""]),
  .cond true (kw "sqlite") (exLay [" ", ""]),
  .control (.resultMode .valuewise) (exLay [" ", " ", ""]),
  .control (.substitution true) (exLay [" ", " ", ""]),
  .statement .ok none (exLay [" ", ""]) (kw "create table t(a int)") [],
  .connection (kw "default") (exLay [" ", ""]),
  .comment [kw "between"],
  .system none (exLay [" ", ""]) (kw "ls") [kw "pwd"] none,
  .statement (.error .any) (some exRetry) (exLay [" ", " ", " ", " ", " ", ""]) [] [],
  .statement (.error (.inline [kw "retry"])) none (exLay [" ", " ", ""]) (kw "----") [],
  .query (.bare (some [kw "1"])) none (exLay [""]) (kw "select 1") [],
  .connection (kw "other") (exLay [" ", ""]),
  .query (.typed (kw "I?x") none (some (kw "join-4")) none) (some exRetry)
    (exLay [" ", " ", " ", " ", " ", " ", ""]) (kw "select a, b") [kw "from t"],
  .query (.typed (kw "T") (some .valuesort) none (some [])) none (exLay [" ", " ", ""])
    (kw "select 2") [],
  .query (.error (.multi [[], kw "x"])) (some exRetry) (exLay [" ", " ", " ", " ", " ", ""])
    (kw "select 3") []]

def exLast : Item :=
  .system none (exLay [" ", ""]) (kw "cat f") [] (some [kw "a", [], kw "b"])

def exLines2 : List Str := [
  "subtest\tpart-1", "include other/*.slt ", "hash-threshold 100", "onlyif postgres",
  "skipif sqlite", "control resultmode valuewise", "control substitution on",
  "statement ok", "create table t(a int)", "",
  "connection default", "#between",
  "system ok", "ls", "pwd", "",
  "statement error retry 5 backoff 1s", "", "",
  "statement error retry", "----", "",
  "query", "select 1", "----", "1", "",
  "connection other",
  "query I?x join-4 retry 5 backoff 1s", "select a, b", "from t", "",
  "query T valuesort", "select 2", "----", "",
  "query error retry 5 backoff 1s", "select 3", "----", "", "x", "", "",
  "system ok", "cat f", "----", "a", "", "b"].map String.toList

def exRecs2 : List Rec := [
  .subtest 1 (kw "part-1"),
  .incl 2 (kw "other/*.slt"),
  .hashThreshold 3 100,
  .condition (.onlyIf (kw "postgres")),
  .condition (.skipIf (kw "sqlite")),
  .control (.resultMode .valuewise),
  .control (.substitution true),
  .statement 8 [.onlyIf (kw "postgres"), .skipIf (kw "sqlite")] .dflt (kw "create table t(a int)")
    .ok none,
  .connection .dflt,
  .comment [kw "between"],
  .system 13 [] (kw "ls\npwd") none none,
  .statement 17 [] .dflt [] (.error .empty) (some ⟨5, ⟨1, 0⟩⟩),
  .statement 20 [] .dflt (kw "----") (.error (.inline (kw "retry"))) none,
  .query 23 [] .dflt (kw "select 1") (.results [] none none none [kw "1"]) none,
  .connection (.named (kw "other")),
  .query 29 [] (.named (kw "other")) (kw "select a, b\nfrom t")
    (.results [.int, .any, .any] none none (some (kw "join-4")) []) (some ⟨5, ⟨1, 0⟩⟩),
  .query 33 [] .dflt (kw "select 2") (.results [.text] (some .valuesort) none none []) none,
  .query 37 [] .dflt (kw "select 3") (.error (.multi (kw "x"))) (some ⟨5, ⟨1, 0⟩⟩),
  .system 44 [] (kw "cat f") (some (kw "a\n\nb")) none]

set_option maxRecDepth 100000 in
example : ∀ i ∈ exScript2 ++ [exLast], WF exCfg i := by decide

set_option maxRecDepth 100000 in
example : render exScript2 ++ renderOpen exLast = exLines2 := by decide

set_option maxRecDepth 100000 in
example : expected exCfg (exScript2 ++ [exLast]) = exRecs2 := by decide

set_option maxRecDepth 100000 in
/-- instances of `parse_render_eof`: no blank line / one blank line after the last text line -/
example : parseLines exCfg exLines2 = .ok exRecs2 ∧
    parseLines exCfg (exLines2 ++ [[]]) = .ok exRecs2 ∧
    parseLines exCfg (exLines2 ++ [[], []]) = .ok exRecs2 := by decide

/-! ## Text level: LF / CRLF, final newline -/

/-- `str::lines` undoes `renderText`: each line may end in LF or CRLF independently; without a
final newline the last line must not be empty. -/
theorem lines_renderText (L : List (Str × Bool)) (final : Bool)
    (hok : ∀ p ∈ L, LineOk p.1)
    (hlast : final = false → ∀ p, L.getLast? = some p → p.1 ≠ []) :
    lines (renderText L final) = L.map (·.1) :=
  Slt.lines_renderText L final hok hlast

/-- parsing a text is parsing its lines -/
theorem parse_text (L : List (Str × Bool)) (final : Bool)
    (hok : ∀ l ∈ L.map (·.1), LineOk l)
    (hlast : final = false → ∀ l, (L.map (·.1)).getLast? = some l → l ≠ []) :
    parse cfg (renderText L final) = parseLines cfg (L.map (·.1)) := by
  unfold parse
  rw [Slt.lines_renderText L final
    (fun p hp => hok p.1 (List.mem_map.mpr ⟨p, hp, rfl⟩))
    (fun hf p hp => hlast hf p.1 (by rw [List.getLast?_map, hp]; rfl))]

/-- **C03 on text**: whatever line ends (`L` pairs every rendered line with its own LF / CRLF
choice), with a final newline — or without one when the last line written is not empty — the text
parses to the records written. -/
theorem parse_render_text (A : List Item) (hwf : ∀ i ∈ A, WF cfg i)
    (L : List (Str × Bool)) (final : Bool) (hL : L.map (·.1) = render A)
    (hok : ∀ l ∈ render A, LineOk l)
    (hlast : final = false → ∀ l, (render A).getLast? = some l → l ≠ []) :
    parse cfg (renderText L final) = .ok (expected cfg A) := by
  rw [parse_text cfg L final (by rw [hL]; exact hok) (by rw [hL]; exact hlast), hL,
    parse_render cfg A hwf]

/-- **C03 on text, end of file inside the last record**, with or without a final newline (without
one the last line written must not be empty — an empty last line without terminator is no line
at all). -/
theorem parse_render_text_eof (A : List Item) (i : Item) (t : List Str)
    (hwf : ∀ j ∈ A, WF cfg j) (hi : WF cfg i) (ht : t <+: i.term)
    (L : List (Str × Bool)) (final : Bool) (hL : L.map (·.1) = render A ++ (renderOpen i ++ t))
    (hok : ∀ l ∈ render A ++ (renderOpen i ++ t), LineOk l)
    (hlast : final = false → ∀ l, (render A ++ (renderOpen i ++ t)).getLast? = some l → l ≠ []) :
    parse cfg (renderText L final) = .ok (expected cfg (A ++ [i])) := by
  rw [parse_text cfg L final (by rw [hL]; exact hok) (by rw [hL]; exact hlast), hL,
    parse_render_eof cfg A i t hwf hi ht]

/-! ## Corollaries -/

/-- **Kinds, order and context.**  The records of the item `i` (anything but a comment line, whose
record is closed by the next other line) follow exactly the records of the items before it, and
are `i.recs` — kind, texts, expectation, types, sort mode, label, retry as written — at line
`|render pre| + 1`, with the conditions written since the last record and the connection named
since the last statement | query. -/
theorem record_at (pre post : List Item) (i : Item) (hi : i.isComment = false)
    (hwf : ∀ x ∈ pre ++ i :: post, WF cfg x) :
    ∃ after, parseLines cfg (render (pre ++ i :: post)) =
      .ok (expected cfg pre ++
        i.recs cfg ((render pre).length + 1) (condsSince pre) (connSince pre) ++ after) := by
  obtain ⟨after, h⟩ := expected_split cfg pre post i hi
  exact ⟨after, by rw [parse_render cfg _ hwf, h]⟩

/-- **Conditions attach to the next statement | query | system record**: its conditions are
exactly the condition lines since the previous such record (`condsSince`), and after it nothing
is pending. -/
theorem guards_attach (pre post : List Item) (i : Item) (hrec : i.isRecord = true)
    (hwf : ∀ x ∈ pre ++ i :: post, WF cfg x) :
    ∃ rec after, parseLines cfg (render (pre ++ i :: post)) =
        .ok (expected cfg pre ++ rec :: after) ∧
      rec.conds? = some (condsSince pre) ∧ condsSince (pre ++ [i]) = [] := by
  have hc : i.isComment = false := by cases i <;> simp [Item.isRecord] at hrec <;> rfl
  obtain ⟨after, h⟩ := record_at cfg pre post i hc hwf
  obtain ⟨rec, hr, hconds⟩ := recs_record cfg i hrec ((render pre).length + 1) (condsSince pre)
    (connSince pre)
  exact ⟨rec, after, by simpa [hr] using h, hconds, condsSince_snoc_record pre i hrec⟩

/-- … concretely: with no record among `mid`, the record `j` after `i … mid` carries exactly the
conditions written in `mid`, in order. -/
theorem guards_between (pre mid post : List Item) (i j : Item) (hi : i.isRecord = true)
    (hmid : ∀ x ∈ mid, x.isRecord = false) (hj : j.isRecord = true)
    (hwf : ∀ x ∈ (pre ++ i :: mid) ++ j :: post, WF cfg x) :
    ∃ rec after, parseLines cfg (render ((pre ++ i :: mid) ++ j :: post)) =
        .ok (expected cfg (pre ++ i :: mid) ++ rec :: after) ∧
      rec.conds? = some (mid.filterMap Item.cond?) := by
  obtain ⟨rec, after, h, hc, _⟩ := guards_attach cfg (pre ++ i :: mid) post j hj hwf
  exact ⟨rec, after, h, by rw [hc, condsSince_after pre mid i hi hmid]⟩

/-- **A connection attaches to the next statement | query**: its connection is the one named last
since the previous statement | query (`connSince`; the default one if none), and after it the
default connection is pending again. -/
theorem connection_attach (pre post : List Item) (i : Item) (huses : i.usesConn = true)
    (hwf : ∀ x ∈ pre ++ i :: post, WF cfg x) :
    ∃ rec after, parseLines cfg (render (pre ++ i :: post)) =
        .ok (expected cfg pre ++ rec :: after) ∧
      rec.conn? = some (connSince pre) ∧ connSince (pre ++ [i]) = .dflt := by
  have hc : i.isComment = false := by cases i <;> simp [Item.usesConn] at huses <;> rfl
  obtain ⟨after, h⟩ := record_at cfg pre post i hc hwf
  obtain ⟨rec, hr, hconn⟩ := recs_usesConn cfg i huses ((render pre).length + 1) (condsSince pre)
    (connSince pre)
  exact ⟨rec, after, by simpa [hr] using h, hconn, connSince_snoc_uses pre i huses⟩

/-- … concretely: a `connection nm` line routes the next statement | query `j`, whatever lies in
between that is not a statement, query or connection line — in particular `system` records do
not take it. -/
theorem connection_next (pre mid post : List Item) (nm : Str) (lay : Lay) (j : Item)
    (hmid : ∀ x ∈ mid, x.usesConn = false ∧ x.conn? = none) (hj : j.usesConn = true)
    (hwf : ∀ x ∈ (pre ++ .connection nm lay :: mid) ++ j :: post, WF cfg x) :
    ∃ rec after, parseLines cfg (render ((pre ++ .connection nm lay :: mid) ++ j :: post)) =
        .ok (expected cfg (pre ++ .connection nm lay :: mid) ++ rec :: after) ∧
      rec.conn? = some (mkConn nm) := by
  obtain ⟨rec, after, h, hc, _⟩ :=
    connection_attach cfg (pre ++ .connection nm lay :: mid) post j hj hwf
  exact ⟨rec, after, h, by rw [hc, connSince_connection pre mid nm lay hmid]⟩

/-- **True line numbers**: the record of every located item (statement, query, system, sleep,
subtest, halt, include, hash-threshold) carries the 1-based number of the item's first rendered
line; and no record of any item carries another line number. -/
theorem line_numbers (pre post : List Item) (i : Item) (hloc : i.isLocated = true)
    (hwf : ∀ x ∈ pre ++ i :: post, WF cfg x) :
    ∃ rec after, parseLines cfg (render (pre ++ i :: post)) =
        .ok (expected cfg pre ++ rec :: after) ∧
      rec.line? = some ((render pre).length + 1) := by
  have hc : i.isComment = false := by cases i <;> simp [Item.isLocated] at hloc <;> rfl
  obtain ⟨after, h⟩ := record_at cfg pre post i hc hwf
  obtain ⟨rec, hr, hline⟩ := recs_located cfg i hloc ((render pre).length + 1) (condsSince pre)
    (connSince pre)
  exact ⟨rec, after, by simpa [hr] using h, hline⟩

theorem line_numbers_only (i : Item) (n : Nat) (conds : List Cond) (conn : Conn) :
    ∀ rec ∈ i.recs cfg n conds conn, ∀ l, rec.line? = some l → l = n :=
  recs_line cfg i n conds conn

/-- **Multi-line texts** (expected error message after `statement error` / `query error`, expected
output after `system ok`): written as `----`, the text lines and two blank lines, or cut short by
the end of the file; returned as the lines joined by LF and trimmed — no blank character at either
end. -/
theorem multiline_trimmed (pre post : List Item) (i : Item) (text : List Str)
    (hmulti : i.tail? = some (.multi text)) (hwf : ∀ x ∈ pre ++ i :: post, WF cfg x) :
    ∃ rec front,
      (∃ after, parseLines cfg (render (pre ++ i :: post)) =
        .ok (expected cfg pre ++ rec :: after)) ∧
      renderItem i = front ++ kw "----" :: text ++ [[], []] ∧
      parseLines cfg (render pre ++ (front ++ kw "----" :: text)) = .ok (expected cfg pre ++ [rec]) ∧
      parseLines cfg (render pre ++ (front ++ kw "----" :: text ++ [[]])) =
        .ok (expected cfg pre ++ [rec]) ∧
      rec.multiText? = some (trim (joinNl text)) ∧
      (∀ c, (trim (joinNl text)).head? = some c → isWs c = false) ∧
      (∀ c, (trim (joinNl text)).getLast? = some c → isWs c = false) := by
  have hc : i.isComment = false := by cases i <;> simp [Item.tail?] at hmulti <;> rfl
  obtain ⟨after, h⟩ := record_at cfg pre post i hc hwf
  obtain ⟨rec, hr, htext⟩ := recs_multi cfg i text hmulti ((render pre).length + 1)
    (condsSince pre) (connSince pre)
  obtain ⟨front, hopen, hterm⟩ := renderItem_multi i text hmulti
  have hpre : ∀ x ∈ pre, WF cfg x := fun x hx => hwf x (by simp [hx])
  have hi : WF cfg i := hwf i (by simp)
  have hexp : expected cfg (pre ++ [i]) = expected cfg pre ++ [rec] := by
    rw [expected_snoc cfg pre i hc, hr]
  refine ⟨rec, front, ⟨after, by simpa [hr] using h⟩, ?_, ?_, ?_, htext, trim_head _, trim_getLast _⟩
  · simp [renderItem, hopen, hterm]
  · have := parse_render_eof cfg pre i [] hpre hi (by simp)
    rw [List.append_nil, hopen, hexp] at this
    exact this
  · have := parse_render_eof cfg pre i [[]] hpre hi (by rw [hterm]; exact ⟨[[]], rfl⟩)
    rw [hopen, hexp] at this
    simpa [List.append_assoc] using this

end Slt.C03
