/-
C04 — Malformed input is rejected with a located error; the parser never panics.

Theorems about `Slt.parseLines` / `Slt.parse` (model of `parse_inner`, parser.rs 703-961). The
model is a total function (every definition is structurally recursive), so termination holds by
construction; `panic` is an explicit outcome reached only through the model of
`humantime::parse_duration` (`Duration::new` overflow).
-/
import SltVerif.Lemmas.ParsePanic
namespace Slt.C04
open Slt

/-- **Located errors**: whenever parsing fails, the reported line lies between 1 and one past the
last line. -/
theorem parse_err_line (cfg : PCfg) (ls : List Str) (f : PFail)
    (h : parseLines cfg ls = .error f) : 1 ≤ f.line ∧ f.line ≤ ls.length + 1 := by
  have hinv := foldl_pinv cfg ls {} 0 pinv_init
  simp only [Nat.zero_add] at hinv
  unfold parseLines finish at h
  split at h
  · rename_i e he
    injection h with h; subst h
    have := hinv.fail_line e he
    omega
  · rename_i hnone
    split at h
    · cases h
    · rename_i hd hm
      injection h with h; subst h
      have h1 := hinv.hdr_le hnone
      have h2 := hinv.hdr_pos hnone
      have h3 := hinv.num_eq hnone
      rw [hm] at h1 h2
      simp only [Mode.hdrLine, Mode.isTop] at h1 h2
      simp only [PFail.line]
      have := h2 trivial
      omega
    · cases h
    · cases h
    · cases h

/-- **No panic**: if no header token makes `humantime::parse_duration` overflow, parsing ends
with records or with an error — never a panic. (Every other potentially panicking operation of
the Rust code — slice indexing on token lists, `unwrap`s — is a total pattern match in the model.) -/
theorem parse_no_panic (cfg : PCfg) (ls : List Str) (h : ∀ l ∈ ls, LineNoDurPanic l) (n : Nat) :
    parseLines cfg ls ≠ .error (.panic n) := by
  have hnp := foldl_noPanic cfg ls {} (by intro m h; cases h) h
  intro hp
  unfold parseLines finish at hp
  split at hp
  · rename_i e he
    injection hp with hp; subst hp
    exact hnp n he
  · split at hp <;> cases hp

/-- the failure a parse ended with, if any -/
def failOf {α : Type} : Except PFail α → Option PFail
  | .error f => some f
  | .ok _ => none

/-- The unguarded claim is false of the dependency: humantime 2.1.0 panics on this token
(kernel-checked witness; replayed against the real parser by the correspondence check, known
finding D11). -/
theorem parse_panics_witness :
    failOf (parse ⟨fun _ => true, ColT.fromCharDefault⟩
      (kw "sleep 18446744073709551615s1000000000ns")) = some (.panic 1) := by decide

/-- **Reject at**: if the lines before leave the parser at top level, a line whose header is
malformed (the dispatch on its tokens fails) makes the whole parse fail with exactly that
failure, located at that very line — whatever follows. -/
theorem reject_at (cfg : PCfg) (pre post : List Str) (l : Str) (f : PFail)
    (hfail : (pre.foldl (step cfg) {}).fail = none)
    (htop : (pre.foldl (step cfg) {}).mode = .top)
    (hhash : stripHash l = none) (hne : l.isEmpty = false)
    (hbad : (dispatch cfg { flushComments (pre.foldl (step cfg) {}) with num := pre.length + 1 }
        (pre.length + 1) (words l)).fail = some f) :
    parseLines cfg (pre ++ l :: post) = .error f ∧ f.line = pre.length + 1 := by
  have hinv := foldl_pinv cfg pre {} 0 pinv_init
  simp only [Nat.zero_add] at hinv
  have hnum : (pre.foldl (step cfg) {}).num = pre.length := hinv.num_eq hfail
  have hstep : step cfg (pre.foldl (step cfg) {}) l =
      dispatch cfg { flushComments (pre.foldl (step cfg) {}) with num := pre.length + 1 }
        (pre.length + 1) (words l) := by
    rw [step_top cfg _ l htop hfail]
    simp [topLine, hhash, hne, hnum]
  have hs1 : ({ flushComments (pre.foldl (step cfg) {}) with num := pre.length + 1 } : PState).fail
      = none := by
    simp [(flushComments_fields _).2.1, hfail]
  have hd := dispatch_ok cfg _ (pre.length + 1) (words l) hs1
  constructor
  · unfold parseLines
    rw [List.foldl_append, List.foldl_cons, hstep, foldl_step_fail cfg post _ (by simp [hbad])]
    simp [finish, hbad]
  · rcases hd.fail with h0 | ⟨f', hf', hl⟩
    · rw [h0] at hbad; cases hbad
    · rw [hf'] at hbad; injection hbad with hbad; subst hbad; exact hl

/-! ### the catalogue of malformed headers (each is an instance of `reject_at`'s hypothesis) -/

section Catalogue
variable (cfg : PCfg) (s : PState) (n : Nat)

/-- a first token that is not a documented directive -/
def isDirective (k : Str) : Bool :=
  k = kw "statement" || k = kw "query" || k = kw "control" || k = kw "halt" || k = kw "system" ||
  k = kw "include" || k = kw "subtest" || k = kw "sleep" || k = kw "skipif" || k = kw "onlyif" ||
  k = kw "connection" || k = kw "hash-threshold"

theorem reject_unknown_directive (k : Str) (rest : List Str) (hk : isDirective k = false) :
    (dispatch cfg s n (k :: rest)).fail = some (.err .invalidLine n) := by
  simp only [isDirective, Bool.or_eq_false_iff, decide_eq_false_iff_not] at hk
  obtain ⟨⟨⟨⟨⟨⟨⟨⟨⟨⟨⟨h1, h2⟩, h3⟩, h4⟩, h5⟩, h6⟩, h7⟩, h8⟩, h9⟩, h10⟩, h11⟩, h12⟩ := hk
  unfold dispatch
  simp only [h1, h2, h3, if_false]
  cases rest with
  | nil => simp [h4, failKind]
  | cons a rest2 =>
    simp only [h5, false_and, if_false]
    split
    · simp [dispatch2, h6, h7, h8, h9, h10, h11, h12, failKind]
    · rfl

theorem reject_statement_bad_expectation (k : Str) (rest : List Str)
    (hk : k ≠ kw "ok" ∧ k ≠ kw "error" ∧ k ≠ kw "count") :
    (dispatch cfg s n (kw "statement" :: k :: rest)).fail = some (.err .invalidLine n) := by
  simp [dispatch, doStatement, stmtHeader, hk.1, hk.2.1, hk.2.2, failWith]

theorem reject_statement_alone :
    (dispatch cfg s n [kw "statement"]).fail = some (.err .invalidLine n) := by
  simp [dispatch, doStatement, stmtHeader, failWith]

theorem reject_count_not_number (c : Str) (rest : List Str) (hc : parseU64 c = none) :
    (dispatch cfg s n (kw "statement" :: kw "count" :: c :: rest)).fail =
      some (.err .invalidNumber n) := by
  have h1 : kw "count" ≠ kw "ok" := by decide
  have h2 : kw "count" ≠ kw "error" := by decide
  simp [dispatch, doStatement, stmtHeader, h1, h2, hc, failWith]

theorem reject_retry_zero_attempts (rest : List Str) :
    parseRetry (kw "retry" :: kw "0" :: rest) = .error (.kind .invalidRetryConfig) := by
  have : parseU64 (kw "0") = some 0 := by decide
  simp [parseRetry, this]

theorem reject_retry_attempts_not_number (a : Str) (rest : List Str) (ha : parseU64 a = none) :
    parseRetry (kw "retry" :: a :: rest) = .error (.kind .invalidNumber) := by
  simp [parseRetry, ha]

theorem reject_retry_missing_backoff (a : Str) (m : Nat) (ha : parseU64 a = some (m + 1)) :
    parseRetry [kw "retry", a] = .error (.kind .invalidRetryConfig) := by
  simp [parseRetry, ha]

theorem reject_retry_wrong_keyword (a b : Str) (m : Nat) (rest : List Str)
    (ha : parseU64 a = some (m + 1)) (hb : b ≠ kw "backoff") :
    parseRetry (kw "retry" :: a :: b :: rest) = .error (.kind .unexpectedToken) := by
  simp [parseRetry, ha, hb]

theorem reject_retry_bad_duration (a d : Str) (m : Nat) (rest : List Str)
    (ha : parseU64 a = some (m + 1)) (hd : parseDuration d = .err) :
    parseRetry (kw "retry" :: a :: kw "backoff" :: d :: rest) = .error (.kind .invalidDuration) := by
  simp [parseRetry, ha, hd]

theorem reject_retry_extra_tokens (a d x : Str) (m : Nat) (dur : Dur) (rest : List Str)
    (ha : parseU64 a = some (m + 1)) (hd : parseDuration d = .ok dur) :
    parseRetry (kw "retry" :: a :: kw "backoff" :: d :: x :: rest) =
      .error (.kind .unexpectedToken) := by
  simp [parseRetry, ha, hd]

theorem reject_retry_not_retry (t : Str) (rest : List Str) (ht : t ≠ kw "retry") :
    parseRetry (t :: rest) = .error (.kind .unexpectedToken) := by
  simp [parseRetry, ht]

/-- a bad retry clause after `statement ok` fails the header with the clause's error kind -/
theorem reject_statement_ok_bad_retry (rest : List Str) (k : PErrKind)
    (hr : parseRetry rest = .error (.kind k)) :
    (dispatch cfg s n (kw "statement" :: kw "ok" :: rest)).fail = some (.err k n) := by
  simp [dispatch, doStatement, stmtHeader, hr, failWith]

theorem reject_system_bad_retry (rest : List Str) (k : PErrKind)
    (hr : parseRetry rest = .error (.kind k)) :
    (dispatch cfg s n (kw "system" :: kw "ok" :: rest)).fail = some (.err k n) := by
  have h1 : kw "system" ≠ kw "statement" := by decide
  have h2 : kw "system" ≠ kw "query" := by decide
  have h3 : kw "system" ≠ kw "control" := by decide
  simp [dispatch, h1, h2, h3, doSystem, hr, failWith]

theorem reject_invalid_regex (toks : List Str) (hshape : isRetryShape toks = false)
    (hne : (joinSp toks).isEmpty = false) (hre : cfg.regexValid (joinSp toks) = false) :
    (dispatch cfg s n (kw "statement" :: kw "error" :: toks)).fail =
      some (.err .invalidErrorMessage n) := by
  have h1 : kw "error" ≠ kw "ok" := by decide
  simp [dispatch, doStatement, stmtHeader, h1, errorHeader, hshape, newInline, hne, hre, failWith]

theorem reject_unknown_type_char (ty : Str) (rest : List Str) (hty : ty ≠ kw "error")
    (hbad : parseTypes cfg ty = none) :
    (dispatch cfg s n (kw "query" :: ty :: rest)).fail = some (.err .invalidType n) := by
  have h1 : kw "query" ≠ kw "statement" := by decide
  simp [dispatch, h1, doQuery, queryHeader, hty, hbad, failWith]

theorem reject_unknown_control (k v : Str)
    (hk : k ≠ kw "resultmode" ∧ k ≠ kw "sortmode" ∧ k ≠ kw "substitution") :
    (dispatch cfg s n [kw "control", k, v]).fail = some (.err .invalidLine n) := by
  have h1 : kw "control" ≠ kw "statement" := by decide
  have h2 : kw "control" ≠ kw "query" := by decide
  simp [dispatch, h1, h2, doControl, hk.1, hk.2.1, hk.2.2, failKind]

theorem reject_unknown_sortmode (v : Str) (hv : SortMode.ofStr v = none) :
    (dispatch cfg s n [kw "control", kw "sortmode", v]).fail = some (.err .invalidSortMode n) := by
  have h1 : kw "control" ≠ kw "statement" := by decide
  have h2 : kw "control" ≠ kw "query" := by decide
  have h3 : kw "sortmode" ≠ kw "resultmode" := by decide
  simp [dispatch, h1, h2, doControl, h3, hv, failKind]

theorem reject_unknown_substitution (v : Str) (hv : v ≠ kw "on" ∧ v ≠ kw "off") :
    (dispatch cfg s n [kw "control", kw "substitution", v]).fail = some (.err .invalidControl n) := by
  have h1 : kw "control" ≠ kw "statement" := by decide
  have h2 : kw "control" ≠ kw "query" := by decide
  have h3 : kw "substitution" ≠ kw "resultmode" := by decide
  have h4 : kw "substitution" ≠ kw "sortmode" := by decide
  simp [dispatch, h1, h2, doControl, h3, h4, hv.1, hv.2, failKind]

theorem reject_threshold_not_number (t : Str) (ht : parseU64 t = none) :
    (dispatch cfg s n [kw "hash-threshold", t]).fail = some (.err .invalidNumber n) := by
  have h1 : kw "hash-threshold" ≠ kw "statement" := by decide
  have h2 : kw "hash-threshold" ≠ kw "query" := by decide
  have h3 : kw "hash-threshold" ≠ kw "control" := by decide
  have h4 : kw "hash-threshold" ≠ kw "system" := by decide
  have h5 : kw "hash-threshold" ≠ kw "include" := by decide
  have h6 : kw "hash-threshold" ≠ kw "subtest" := by decide
  have h7 : kw "hash-threshold" ≠ kw "sleep" := by decide
  have h8 : kw "hash-threshold" ≠ kw "skipif" := by decide
  have h9 : kw "hash-threshold" ≠ kw "onlyif" := by decide
  have h10 : kw "hash-threshold" ≠ kw "connection" := by decide
  simp [dispatch, h1, h2, h3, h4, dispatch2, h5, h6, h7, h8, h9, h10, doHashThreshold, ht, failKind]

theorem reject_sleep_bad_duration (d : Str) (hd : parseDuration d = .err) :
    (dispatch cfg s n [kw "sleep", d]).fail = some (.err .invalidDuration n) := by
  have h1 : kw "sleep" ≠ kw "statement" := by decide
  have h2 : kw "sleep" ≠ kw "query" := by decide
  have h3 : kw "sleep" ≠ kw "control" := by decide
  have h4 : kw "sleep" ≠ kw "system" := by decide
  have h5 : kw "sleep" ≠ kw "include" := by decide
  have h6 : kw "sleep" ≠ kw "subtest" := by decide
  simp [dispatch, h1, h2, h3, h4, dispatch2, h5, h6, doSleep, hd, failKind]

/-- wrong arity: a one-argument directive with two or more arguments -/
theorem reject_extra_argument (k a b : Str) (rest : List Str)
    (hk : k ≠ kw "statement" ∧ k ≠ kw "query" ∧ k ≠ kw "control" ∧ k ≠ kw "system") :
    (dispatch cfg s n (k :: a :: b :: rest)).fail = some (.err .invalidLine n) := by
  simp [dispatch, hk.1, hk.2.1, hk.2.2.1, hk.2.2.2, failKind]

/-- wrong arity: a directive that needs an argument, alone on its line -/
theorem reject_missing_argument (k : Str)
    (hk : k ≠ kw "statement" ∧ k ≠ kw "query" ∧ k ≠ kw "control" ∧ k ≠ kw "halt") :
    (dispatch cfg s n [k]).fail = some (.err .invalidLine n) := by
  simp [dispatch, hk.1, hk.2.1, hk.2.2.1, hk.2.2.2, failKind]

end Catalogue

/-! ### block-level errors, located at the header line as the code does -/

/-- a `----` block under `statement ok | count` -/
theorem statement_has_results (s : PState) (l : Nat) (c : List Cond) (cn : Conn) (e : SExp)
    (r : Option Retry) (sql : Str) (he : ∀ x, e ≠ .error x) :
    (onDelimiter s (.stmt l c cn e r) sql).fail = some (.err .statementHasResults l) := by
  cases e with
  | ok => rfl
  | count n => rfl
  | error x => exact absurd rfl (he x)

/-- both an inline and a multi-line error text -/
theorem duplicated_error_message (s : PState) (l : Nat) (c : List Cond) (cn : Conn) (re : Str)
    (r : Option Retry) (sql : Str) :
    (onDelimiter s (.stmt l c cn (.error (.inline re)) r) sql).fail =
      some (.err .duplicatedErrorMessage l) ∧
    (onDelimiter s (.query l c cn (.error (.inline re)) r) sql).fail =
      some (.err .duplicatedErrorMessage l) := ⟨rfl, rfl⟩

/-- a header at end of input: `UnexpectedEOF` one past the header line -/
theorem header_at_eof (s : PState) (h : Hdr) (hf : s.fail = none) (hm : s.mode = .sqlFirst h) :
    finish s = .error (.err .unexpectedEOF (h.line + 1)) := by
  simp [finish, hf, hm]

-- Non-vacuity of `reject_at`: a malformed line after two complete records.
example : failOf (parseLines ⟨fun _ => true, ColT.fromCharDefault⟩
    [kw "statement ok", kw "select 1", [], kw "halt", kw "statement ok retry 0 backoff 1s", kw "x"]) =
    some (.err .invalidRetryConfig 5) := by decide

end Slt.C04
