/-
C05 — Formatting a test file never changes its meaning and is idempotent.

Proved here, for all inputs: every duration is written as one token that is parsed back to the
same duration (the mixed-radix identity behind humantime's format, `fix:` 48e9b4e); a retry
clause written by `Display` is read back by `parse_retry_config` as the same clause; the tail
normalisation of the file writer is idempotent and leaves exactly one final newline.

Full statement (target): `parse s = ok R → parse (fmt s) = ok R' ∧ R' ≈ R ∧ fmt (fmt s) = fmt s`.
It follows from the parser theorem of C03 (`Slt.C03.parse_render`) once `fmtFile R` is shown to be a
rendering of `R` under the canonical layout; that composition (`parse_fmt`) is stated in
DESIGN.md and is checked here by the metamorphic oracle on the implementation and by the
correspondence check (model `Slt.unparse` / `Slt.fmtFile` vs. the real `Display`), with two known
findings outside the provable domain (D18 stray carriage returns, D19 empty SQL at end of file).
-/
import SltVerif.Unparse
import SltVerif.Parser
import SltVerif.Lemmas.Duration
import SltVerif.Lemmas.Text
namespace Slt.C05
open Slt

/-- **Durations round-trip**: for every `std::time::Duration` (seconds < 2^64, nanos < 10^9) the
token written by `Display` is parsed back by the model of `humantime::parse_duration` to the
same duration. -/
theorem duration_roundtrip (d : Dur) (hs : d.secs < 2 ^ 64) (hn : d.nanos < 1000000000) :
    parseDuration (formatDurationCompact d) = .ok d :=
  parse_formatDurationCompact d hs hn

/-- … and it is a single header token (non-empty, no whitespace). -/
theorem duration_single_token (d : Dur) : IsTok isWs (formatDurationCompact d) :=
  ⟨(formatDurationCompact_token d).1, (formatDurationCompact_token d).2⟩

/-- The text humantime itself produces is *not* a single token for compound durations — the
reason `sleep 90s` used to be formatted into the unparsable `sleep 1m 30s` (kernel-checked
witness of the defect repaired by `fix:` 48e9b4e). -/
theorem humantime_format_has_blanks :
    words (kw "sleep " ++ formatDuration ⟨90, 0⟩) = [kw "sleep", kw "1m", kw "30s"] := by decide

theorem natToStr_isTok (n : Nat) : IsTok isWs (natToStr n) :=
  ⟨natToStr_ne_nil n, natToStr_noWs n⟩

/-- **Retry clauses round-trip**: the clause `Display` writes after a header is tokenised and
read back by `parse_retry_config` as the same `RetryConfig` (attempts > 0 as the parser
guarantees, all values in the range of their Rust types). -/
theorem retry_roundtrip (r : Retry) (ha : 0 < r.attempts) (ha' : r.attempts < 2 ^ 64)
    (hs : r.backoff.secs < 2 ^ 64) (hn : r.backoff.nanos < 1000000000) :
    parseRetry (words (Retry.fmt (some r))) = .ok (some r) := by
  have hw : words (Retry.fmt (some r)) =
      [kw "retry", natToStr r.attempts, kw "backoff", formatDurationCompact r.backoff] := by
    -- the clause starts with a blank: handle the leading separator directly
    unfold words Retry.fmt
    have h1 : kw " retry " = [' '] ++ (kw "retry" ++ [' ']) := by decide
    have h2 : kw " backoff " = [' '] ++ (kw "backoff" ++ [' ']) := by decide
    rw [h1, h2]
    simp only [List.append_assoc]
    rw [splitAux_allSep isWs [' '] (by intro c hc; simp at hc; subst hc; decide)]
    have hj := splitAux_joinSep isWs
      [(kw "retry", [' ']), (natToStr r.attempts, [' ']), (kw "backoff", [' ']),
       (formatDurationCompact r.backoff, [])]
      (by
        intro q hq
        simp only [List.mem_cons, List.not_mem_nil, or_false] at hq
        have hsp : AllSep isWs [' '] := by intro c hc; simp at hc; subst hc; decide
        rcases hq with rfl | rfl | rfl | rfl
        · exact ⟨by decide, hsp⟩
        · exact ⟨natToStr_isTok _, hsp⟩
        · exact ⟨by decide, hsp⟩
        · exact ⟨duration_single_token _, by intro c hc; cases hc⟩)
      (by
        intro i hi
        simp at hi
        have : i = 0 ∨ i = 1 ∨ i = 2 := by omega
        rcases this with rfl | rfl | rfl <;> simp)
    simpa [joinSep, List.append_assoc] using hj
  rw [hw]
  have hp : parseU64 (natToStr r.attempts) = some r.attempts := parseU64_natToStr _ ha'
  have hd := duration_roundtrip r.backoff hs hn
  have hne : r.attempts ≠ 0 := by omega
  simp [parseRetry, hp, hd, hne]

/-! ### the file writer's tail normalisation -/

theorem dropWhile_nl_idem (l : Str) :
    (l.dropWhile (· = '\n')).dropWhile (· = '\n') = l.dropWhile (· = '\n') := by
  induction l with
  | nil => rfl
  | cons c cs ih =>
    by_cases hc : c = '\n'
    · simp [List.dropWhile, hc, ih]
    · simp [List.dropWhile, hc]

/-- the body of a text: everything before the trailing newlines -/
def body (s : Str) : Str := (s.reverse.dropWhile (· = '\n')).reverse

theorem body_append_nl (b : Str) : body (body b ++ ['\n']) = body b := by
  unfold body
  simp [List.reverse_append, dropWhile_nl_idem]

/-- **Exactly one final newline**: a non-empty output that ends in a newline is rewritten as its
body followed by one newline. -/
theorem normalizeTail_spec (s : Str) (hne : s ≠ []) (hnl : s.getLast? = some '\n') :
    normalizeTail s = body s ++ ['\n'] := by
  unfold normalizeTail body
  have : s.isEmpty = false := by cases s <;> simp_all
  simp [this, hnl]

/-- **Idempotent**: normalising an already normalised output changes nothing (so the second
`--format` run leaves the bytes of the first untouched, given the same records). -/
theorem normalizeTail_idem (s : Str) : normalizeTail (normalizeTail s) = normalizeTail s := by
  by_cases he : s = []
  · subst he; rfl
  · by_cases hnl : s.getLast? = some '\n'
    · rw [normalizeTail_spec s he hnl]
      have hne : body s ++ ['\n'] ≠ [] := by simp
      have hl : (body s ++ ['\n']).getLast? = some '\n' := by simp
      rw [normalizeTail_spec _ hne hl, body_append_nl]
    · have h1 : normalizeTail s = s := by
        unfold normalizeTail
        have : s.isEmpty = false := by cases s <;> simp_all
        simp [this, hnl]
      rw [h1, h1]

/-- an empty output stays empty (nothing to terminate) -/
theorem normalizeTail_nil : normalizeTail [] = [] := rfl

-- Non-vacuity / examples (executable model = the real Display on these inputs, see the check)
example : unparse (.system 1 [] (kw "sleep 1") (some (kw "done")) (some ⟨3, ⟨1, 500000000⟩⟩)) =
    some (kw "system ok retry 3 backoff 1s500ms\nsleep 1\n----\ndone\n\n") := by decide
example : unparse (.connection .dflt) = some (kw "connection default") := by decide
example : normalizeTail (kw "halt\n\n\n") = kw "halt\n" := by decide

end Slt.C05
