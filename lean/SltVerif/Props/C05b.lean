/-
C05 — Formatting a test file never changes its meaning and is idempotent: the composition with
the parser theorem of C03.

"Writing out the parsed records of any parseable script, as `--format` and `--override` do,
yields text that parses again to semantically the same script: same executable records in the
same order with the same SQL or command text, expectation, column types, sort mode, label, retry
clause, conditions, connection and comments.  Formatting the formatted text again reproduces it
byte for byte."

Model: `Unparse.lean` (`unparse` = `impl Display for Record`, `writeRecords` = one `writeln!` per
record, `normalizeTail`, `fmtFile`).  Specification: `Canon.lean`.

* `RecOk cfg r` (decidable): the records that are written faithfully — see `Canon.lean`; every
  conjunct is there because the proof needs it.  `ListOk R` (decidable): every statement | query |
  system record carries exactly the conditions / connection announced by the `condition` /
  `connection` records in front of it (`ctxOk`: `Display` does not write them, it relies on those
  records), and the last record, `newline`s apart, is not one whose SQL text is empty and ends the
  record (`EndOk`: known finding D19).
* `canonItems R`: the abstract script (`Item`s of `Render.lean`, one per record) in the layout
  `Display` produces.
* `SameMeaning R' R`: `meaning R' = meaning R`, where `meaning` takes the records apart into their
  pieces (`Rec.atoms`: every record without its line number; a comment record line by line, each
  line right-trimmed) and drops `newline` records at the very end.  Everything else — kind, order,
  SQL / command text, expectation with result lines verbatim, column types, sort mode, label,
  retry clause, conditions, connection — must be EQUAL.

Theorems (all for the FULL grammar — every record kind of `Syntax.lean` — nothing is partial):

* `unparse_is_render`   writeRecords R = some (linesToText (render (canonItems R)))
* `canon_wf`            every item of `canonItems R` is `WF`
* `canon_expected`      expected cfg (canonItems R) has the same pieces as R (`SameMeaning`;
                        `canon_expected_atoms`: nothing dropped at the end either)
* `parse_written`       the text written record by record parses to the same script (C03)
* `parse_fmt`           the formatted text (end of file normalised) parses, to records with the
                        same meaning
* `fmt_idem`            formatting the re-parsed records reproduces the bytes
* `fmt_script`          the two, stated from a script `s` with `parse cfg s = .ok R`
* `expected_writable`   closure: `RecOk` and `ctxOk` hold of `expected cfg A` for every well-formed
                        abstract script `A` of C03 whose lines are `LineOk`
* `format_wellformed`   hence C05 for the text of every such script in any layout, the only guard
                        left being `EndOk` (D19)

Note: `canonItems` takes no `cfg` (the canonical script does not depend on the configuration).
-/
import SltVerif.Lemmas.UnparseMain
import SltVerif.Lemmas.UnparseClosure
import SltVerif.Props.C05
namespace Slt.C05
open Slt

variable (cfg : PCfg)

/-! ## The three steps -/

/-- **Step 1: what is written is a rendering.**  One `writeln!` per record writes exactly the lines
of the canonical script, each followed by a line feed. -/
theorem unparse_is_render (R : List Rec) (hok : ∀ r ∈ R, RecOk cfg r) :
    writeRecords R = some (linesToText (render (canonItems R))) :=
  writeRecords_canon cfg R hok

/-- **Step 2: the canonical script is well-formed** (so the parser theorem of C03 applies). -/
theorem canon_wf (R : List Rec) (hok : ∀ r ∈ R, RecOk cfg r) : ∀ i ∈ canonItems R, WF cfg i :=
  canonItems_wf cfg R hok

/-- **Step 3: the canonical script stands for the records it was made from** — piece by piece
(`Rec.atoms`), without dropping anything at the end. -/
theorem canon_expected_atoms (R : List Rec) (hok : ∀ r ∈ R, RecOk cfg r)
    (hctx : ctxOk {} R = true) :
    (expected cfg (canonItems R)).flatMap Rec.atoms = R.flatMap Rec.atoms :=
  expected_canon cfg R hok hctx

theorem canon_expected (R : List Rec) (hok : ∀ r ∈ R, RecOk cfg r) (hctx : ctxOk {} R = true) :
    SameMeaning (expected cfg (canonItems R)) R :=
  sameMeaning_of_atoms _ _ (expected_canon cfg R hok hctx)

/-- … hence, by C03, the text written record by record parses to the same script (before the
writer cuts the blank lines at the end of the file). -/
theorem parse_written (R : List Rec) (hok : ∀ r ∈ R, RecOk cfg r) (hctx : ctxOk {} R = true) :
    ∃ text R', writeRecords R = some text ∧ parse cfg text = .ok R' ∧ SameMeaning R' R := by
  refine ⟨_, _, writeRecords_canon cfg R hok, ?_, canon_expected cfg R hok hctx⟩
  rw [parse_linesToText cfg _ (render_lineOk cfg R hok)]
  exact C03.parse_render cfg _ (canonItems_wf cfg R hok)

/-! ## The property -/

/-- **C05, formatting keeps the meaning**: the bytes `--format` writes for a writable record list
parse again, to records with the same meaning. -/
theorem parse_fmt (R : List Rec) (hok : ∀ r ∈ R, RecOk cfg r) (hlist : ListOk R) :
    ∃ text R', fmtFile R = some text ∧ parse cfg text = .ok R' ∧ SameMeaning R' R := by
  obtain ⟨text, R', h1, h2, h3, _⟩ := fmt_roundtrip cfg R hok hlist
  exact ⟨text, R', h1, h2, h3⟩

/-- **C05, formatting is idempotent**: formatting the records the formatted text parses to
reproduces it byte for byte. -/
theorem fmt_idem (R : List Rec) (hok : ∀ r ∈ R, RecOk cfg r) (hlist : ListOk R)
    (text : Str) (R' : List Rec) (hfmt : fmtFile R = some text) (hparse : parse cfg text = .ok R') :
    fmtFile R' = some text := by
  obtain ⟨text0, R0, h1, h2, _, h4⟩ := fmt_roundtrip cfg R hok hlist
  rw [hfmt, Option.some.injEq] at h1
  subst h1
  rw [hparse, Except.ok.injEq] at h2
  subst h2
  exact h4

/-- the formatter on a script: parse, write out, normalise the end of the file -/
def fmt (s : Str) : Option Str :=
  match parse cfg s with
  | .ok R => fmtFile R
  | .error _ => none

/-- **C05, from a script**: if `s` parses to writable records, then `fmt s` is defined, parses to
records with the same meaning, and `fmt (fmt s) = fmt s`. -/
theorem fmt_script (s : Str) (R : List Rec) (hp : parse cfg s = .ok R)
    (hok : ∀ r ∈ R, RecOk cfg r) (hlist : ListOk R) :
    ∃ text R', fmt cfg s = some text ∧ parse cfg text = .ok R' ∧ SameMeaning R' R ∧
      fmt cfg text = some text := by
  obtain ⟨text, R', h1, h2, h3, h4⟩ := fmt_roundtrip cfg R hok hlist
  refine ⟨text, R', ?_, h2, h3, ?_⟩
  · simp only [fmt, hp, h1]
  · simp only [fmt, h2, h4]

/-! ## Closure: the guards hold of everything the parser theorem covers -/

/-- **Every record list the parser theorem of C03 speaks about is writable**: for a configuration
whose column types can be written (`CfgOk`, e.g. `DefaultColumnType`) and a well-formed abstract
script `A` — full grammar, any layout — whose lines survive `str::lines`, every record of
`expected cfg A` satisfies `RecOk` (in particular: the trimmed multi-line text the parser returns is
trimmed, has no two consecutive empty lines and no stray CR), and conditions / connections are the
ones announced (`ctxOk`; this half holds of every script). -/
theorem expected_writable (hcfg : CfgOk cfg) (A : List Item) (hwf : ∀ i ∈ A, WF cfg i)
    (hok : ∀ l ∈ render A, LineOk l) :
    (∀ r ∈ expected cfg A, RecOk cfg r) ∧ ctxOk {} (expected cfg A) = true :=
  ⟨expected_recOk cfg hcfg A hwf hok, expected_ctxOk cfg A⟩

/-- **C05 for every well-formed script, however it is laid out** (extra blanks, LF / CRLF line
ends, with or without a final newline — the hypotheses are those of `C03.parse_render_text`): the
formatter is defined on the text, its output parses to records with the same meaning as the records
of the script, and formatting the output again reproduces it byte for byte.  The only guard left is
`EndOk` on the record list: the last record, `newline`s apart, is not one whose SQL text is empty
and ends the record (known finding D19). -/
theorem format_wellformed (hcfg : CfgOk cfg) (A : List Item) (hwf : ∀ i ∈ A, WF cfg i)
    (L : List (Str × Bool)) (final : Bool) (hL : L.map (·.1) = render A)
    (hok : ∀ l ∈ render A, LineOk l)
    (hlast : final = false → ∀ l, (render A).getLast? = some l → l ≠ [])
    (hend : EndOk (expected cfg A)) :
    ∃ text R', fmt cfg (renderText L final) = some text ∧ parse cfg text = .ok R' ∧
      SameMeaning R' (expected cfg A) ∧ fmt cfg text = some text :=
  fmt_script cfg _ _ (C03.parse_render_text cfg A hwf L final hL hok hlast)
    (expected_recOk cfg hcfg A hwf hok) ⟨expected_ctxOk cfg A, hend⟩

/-! ## A concrete record list -/

/-- every string is a valid regex; unknown type characters are `any` (as `DefaultColumnType`) -/
def exCfg : PCfg := ⟨fun _ => true, ColT.fromCharDefault⟩

/-- statement with conditions, connection and retry; query with types, sort mode, label and
results; `query` with nothing after it; multi-line error text with an empty line; inline error;
`connection default`; system with stdout and retry; two comment records in a row; a compound
duration; a statement with empty SQL text (not at the end); `newline` records at the end -/
def exR : List Rec := [
  .comment [kw " setup  ", kw "second line\t"],
  .condition (.skipIf (kw "mysql")),
  .connection (.named (kw "c1")),
  .statement 5 [.skipIf (kw "mysql")] (.named (kw "c1")) (kw "insert into t\nvalues (1)")
    (.count 3) (some ⟨2, ⟨1, 500000000⟩⟩),
  .newline,
  .control (.sortMode .rowsort),
  .query 12 [] .dflt (kw "select * from t")
    (.results [.int, .text] (some .rowsort) none (some (kw "lbl")) [kw "1 a", kw "2 b"]) none,
  .query 18 [] .dflt (kw "select 1") (.results [] none none none [kw "1"]) none,
  .statement 23 [] .dflt (kw "boom") (.error (.multi (kw "line one\n\n line two"))) none,
  .query 31 [] .dflt (kw "select 1") (.error (.inline (kw "no such table"))) none,
  .connection .dflt,
  .system 35 [] (kw "echo hi") (some (kw "hi")) (some ⟨3, ⟨120, 0⟩⟩),
  .comment [kw "a"], .comment [kw "b "],
  .sleep 41 ⟨90, 0⟩,
  .statement 42 [] .dflt [] (.error .empty) none,
  .halt 45, .newline, .newline]

/-- the bytes written, line by line (every line is followed by a line feed) -/
def exText : Str := linesToText ([
  "# setup", "#second line", "skipif mysql", "connection c1",
  "statement count 3 retry 2 backoff 1s500ms", "insert into t", "values (1)", "",
  "", "control sortmode rowsort",
  "query IT rowsort lbl", "select * from t", "----", "1 a", "2 b", "",
  "query ", "select 1", "----", "1", "",
  "statement error", "boom", "----", "line one", "", " line two", "", "",
  "query error no such table", "select 1", "",
  "connection default",
  "system ok retry 3 backoff 2m", "echo hi", "----", "hi", "", "",
  "#a", "#b", "sleep 1m30s",
  "statement error", "", "",
  "halt"].map String.toList)

/-- the records read back: other line numbers, comment lines right-trimmed, the two comment
records in one, no `newline` records at the end -/
def exR' : List Rec := [
  .comment [kw " setup", kw "second line"],
  .condition (.skipIf (kw "mysql")),
  .connection (.named (kw "c1")),
  .statement 5 [.skipIf (kw "mysql")] (.named (kw "c1")) (kw "insert into t\nvalues (1)")
    (.count 3) (some ⟨2, ⟨1, 500000000⟩⟩),
  .newline,
  .control (.sortMode .rowsort),
  .query 11 [] .dflt (kw "select * from t")
    (.results [.int, .text] (some .rowsort) none (some (kw "lbl")) [kw "1 a", kw "2 b"]) none,
  .query 17 [] .dflt (kw "select 1") (.results [] none none none [kw "1"]) none,
  .statement 22 [] .dflt (kw "boom") (.error (.multi (kw "line one\n\n line two"))) none,
  .query 30 [] .dflt (kw "select 1") (.error (.inline (kw "no such table"))) none,
  .connection .dflt,
  .system 34 [] (kw "echo hi") (some (kw "hi")) (some ⟨3, ⟨120, 0⟩⟩),
  .comment [kw "a", kw "b"],
  .sleep 42 ⟨90, 0⟩,
  .statement 43 [] .dflt [] (.error .empty) none,
  .halt 46]

set_option maxRecDepth 100000 in
example : (∀ r ∈ exR, RecOk exCfg r) ∧ ListOk exR := by decide

set_option maxRecDepth 100000 in
example : ∀ i ∈ canonItems exR, WF exCfg i := by decide

set_option maxRecDepth 100000 in
/-- the instance of `parse_fmt` and `fmt_idem`, checked by evaluation -/
example : fmtFile exR = some exText ∧ parse exCfg exText = .ok exR' ∧ SameMeaning exR' exR ∧
    fmtFile exR' = some exText := by decide

set_option maxRecDepth 100000 in
/-- the guards are needed: an inline error message of the shape of a retry clause, a label that
reads as a sort mode, a connection named `default`, an untrimmed multi-line text, a CR at the end
of an SQL line, an empty SQL text at the very end (D19) -/
example :
    ¬ RecOk exCfg (.statement 1 [] .dflt (kw "x") (.error (.inline (kw "retry 3 backoff 1s"))) none) ∧
    ¬ RecOk exCfg (.query 1 [] .dflt (kw "x") (.results [.int] none none (some (kw "rowsort")) []) none) ∧
    ¬ RecOk exCfg (.connection (.named (kw "default"))) ∧
    ¬ RecOk exCfg (.system 1 [] (kw "x") (some (kw " out")) none) ∧
    ¬ RecOk exCfg (.statement 1 [] .dflt (kw "a\r\nb") .ok none) ∧
    ¬ ListOk [.statement 1 [] .dflt [] .ok none, .newline] := by decide

set_option maxRecDepth 100000 in
/-- … and really so: written out and read back, these records come back different, or not at
all -/
example :
    (fmtFile [.connection (.named (kw "default"))]).map (parse exCfg) =
      some (.ok [.connection .dflt]) ∧
    (fmtFile [.query 1 [] .dflt (kw "x") (.results [.int] none none (some (kw "rowsort")) []) none]).map
      (parse exCfg) =
      some (.ok [.query 1 [] .dflt (kw "x") (.results [.int] (some .rowsort) none none []) none]) ∧
    (fmtFile [.statement 1 [] .dflt [] .ok none, .newline]).map (parse exCfg) =
      some (.error (.err .unexpectedEOF 2)) := by decide

set_option maxRecDepth 100000 in
/-- the scripts of C03 (every item kind, odd layouts, CRLF): the hypotheses of `format_wellformed`
hold -/
example : CfgOk C03.exCfg ∧ (∀ l ∈ render C03.exScript, LineOk l) ∧
    EndOk (expected C03.exCfg C03.exScript) ∧
    (∀ l ∈ render (C03.exScript2 ++ [C03.exLast]), LineOk l) ∧
    EndOk (expected C03.exCfg (C03.exScript2 ++ [C03.exLast])) :=
  ⟨cfgOk_default _, by decide, by decide, by decide, by decide⟩

end Slt.C05
