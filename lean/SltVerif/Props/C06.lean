/-
C06 — After override the file passes and is a fixed point (record level, and whole record lists
in memory; the write / re-parse round trip is C05's and is not composed here).

Theorems about `Slt.updateRecord` (model of `update_record_with_output`, runner.rs 1577-1804,
after the `fix:` commits) against the verdict table `Slt.judge` (`run_async_no_retry`):

* `update_accepts`   the rewritten record accepts the very output it was rewritten from;
* `update_idem`      updating the rewritten record from the same output changes nothing;
* `fromActualError_stable`, `update_retry_error_multiline`
                     the error expectation written is stable under header tokenisation and is
                     never the inline form when a retry clause is present;
* `applyRecord_outputFor` ties the shape hypothesis to the runner model;
* `update_same_execution`, `update_then_run`, `update_then_runRecord`
                     executed in the state the original record was executed in, the rewritten
                     record issues the same calls, reaches the same state and passes at its first
                     attempt (the induction step of the file-level theorem);
* `updateRecs_run`, `updateRecs_fixpoint`, `updateFile_writes_updateRecs`
                     the same for a whole include-free record list, in memory (i.e. without the
                     write / re-parse round trip, which is C05's): the rewritten list runs to `ok`
                     from the same initial state, ending in the state the update ended in; a second
                     update writes the same records; and the file driver writes exactly the text
                     of these records.

The normaliser algebra behind the query arm (`normalize_idem`, `normalize_eq_iff`,
`normalize_join`, `validator_accepts_own_rows`, `valueOk_iff`) is in
`SltVerif/Lemmas/Normalize.lean`; the arm-by-arm lemmas and the guards (`OutputFor`,
`Representable`) in `Lemmas/UpdateRec.lean`; "same execution" in `Lemmas/UpdateRecRun.lean`;
`updateRecs`, `GuardAlong` and the tie to `updateStep` in `Lemmas/UpdateRecFile.lean`.

Guards (each is necessary; a kernel-checked witness follows the theorems):
* `Representable o`: every value of a successful query answer satisfies `ValueOk` (a non-blank
  character; surrounding white space is ASCII white space); a system command succeeded and — at
  record level only — its captured stdout is already trimmed (the in-memory record holds the raw
  text, the verdict compares with the trimmed text; the written file holds the trimmed text, see
  `update_accepts_system_written`);
* `SepOk sep`: the column separator is a non-empty run of blanks / tabs;
* `resultMode ≠ valuewise` (known finding D4);
* `hEsc`: the regex oracle finds an escaped text in the text it came from (a hypothesis about the
  `regex` crate, carried as an explicit hypothesis).
-/
import SltVerif.Lemmas.UpdateRec
import SltVerif.Lemmas.UpdateRecRun
import SltVerif.Lemmas.UpdateRecFile
import SltVerif.Props.C01
namespace Slt.C06
open Slt

variable {σ : Type}

/-- **Shapes**: the output `apply_record` produces for a record is one of the shapes `OutputFor`
lists for that record. -/
theorem applyRecord_outputFor (E : Env σ) (cfg : RCfg) (w : World σ) (r : Rec) :
    OutputFor r (applyRecord E cfg w r).2 := by
  cases r with
  | statement l conds conn sql exp rt =>
    simp only [applyRecord]
    rcases C01.applyStatement_output E cfg w conds conn sql with h | ⟨n, e, h⟩ | ⟨t, rws, h⟩ <;>
      simp only [h] <;> simp [OutputFor]
  | query l conds conn sql exp rt =>
    simp only [applyRecord]
    rcases C01.applyQuery_output E cfg w conds conn sql exp with h | h
    · simp only [h]; simp [OutputFor]
    · generalize (applyQuery E cfg w conds conn sql exp).2 = o at h
      cases o with
      | nothing => simp [OutputFor]
      | system _ _ => cases h
      | statement n e =>
        cases e with
        | some _ => cases h
        | none => simp [OutputFor]
      | query t rws e => simp [OutputFor]
  | system l conds cmd out rt =>
    simp only [applyRecord]
    rcases C01.applySystem_output E cfg w conds cmd out with h | ⟨s, e, h⟩ <;>
      simp only [h] <;> simp [OutputFor]
  | sleep l d => simp [applyRecord, OutputFor]
  | control c' => simp [applyRecord, OutputFor]
  | hashThreshold l n => simp [applyRecord, OutputFor]
  | incl l f => simp [applyRecord, OutputFor]
  | subtest l n => simp [applyRecord, OutputFor]
  | halt l => simp [applyRecord, OutputFor]
  | condition c' => simp [applyRecord, OutputFor]
  | connection c' => simp [applyRecord, OutputFor]
  | comment ls => simp [applyRecord, OutputFor]
  | newline => simp [applyRecord, OutputFor]
  | beginInclude f => simp [applyRecord, OutputFor]
  | endInclude f => simp [applyRecord, OutputFor]

/-- **update_accepts**: for every record, every output of a shape `apply_record` can produce for
it, and every configuration outside value-wise mode, the record written by the updater (the
original one where the updater keeps it) passes on the very output it was written from.

Arms of `update_record_with_output` covered: `Nothing` (kept, passes); statement × rows;
query × completion (becomes `statement count N`); statement × completion; statement × error
(kept when the old pattern matches, else rewritten through `from_actual_error`); query × error
(same); query × rows over old results (old lines / types kept when the validators accept them,
else replaced); query × rows over an old `error` expectation; system × success.  The one arm where
the kept record does *not* pass — a failing system command — is excluded by `Representable`
(`system_failure_kept_and_fails` below). -/
theorem update_accepts (jc : JCfg) (uc : UCfg) (r : Rec) (o : Output)
    (hs : jc.strictCols = uc.strictCols) (hr : jc.regexMatch = uc.regexMatch)
    (hmode : jc.resultMode ≠ some .valuewise) (hsep : SepOk uc.sep)
    (hshape : OutputFor r o) (hrep : Representable o)
    (hEsc : ∀ t, uc.regexMatch (regexEscape (trim t)) t = true) :
    judge jc ((updateRecord uc r o).getD r) o = .pass := by
  cases r with
  | statement l cs cn sql exp rt => exact accepts_statement jc uc hr hEsc l cs cn sql exp rt o hshape
  | query l cs cn sql exp rt =>
    exact accepts_query jc uc hs hr hmode hsep hEsc l cs cn sql exp rt o hshape hrep.1
  | system l cs cmd out rt => exact accepts_system jc uc l cs cmd out rt o hshape hrep.2
  | _ =>
    cases o with
    | nothing => rfl
    | _ => exact absurd hshape (by simp [OutputFor])

/-- `update_accepts` for the output the runner model itself produces, judged in the
configuration the runner is in after executing the record. -/
theorem update_accepts_applied (E : Env σ) (cfg : RCfg) (uc : UCfg) (w : World σ) (r : Rec)
    (hs : uc.strictCols = cfg.strictCols) (hr : uc.regexMatch = E.regexMatch)
    (hmode : (applyRecord E cfg w r).1.resultMode ≠ some .valuewise) (hsep : SepOk uc.sep)
    (hrep : Representable (applyRecord E cfg w r).2)
    (hEsc : ∀ t, E.regexMatch (regexEscape (trim t)) t = true) :
    judge (jcfg E cfg (applyRecord E cfg w r).1)
      ((updateRecord uc r (applyRecord E cfg w r).2).getD r) (applyRecord E cfg w r).2 = .pass :=
  update_accepts _ uc r _ hs.symm hr.symm hmode hsep (applyRecord_outputFor E cfg w r) hrep
    (by rw [hr]; exact hEsc)

/-- **Same execution**: in the state `w`, the record the updater writes from the output of `r`
executes exactly like `r` — same database / shell calls, same resulting state, same output
(execution looks at the expectation only for the query sort mode and the presence of an expected
stdout, both of which the updater preserves where they matter).  No guard needed. -/
theorem update_same_execution (E : Env σ) (cfg : RCfg) (uc : UCfg) (w : World σ) (r : Rec) :
    applyRecord E cfg w ((updateRecord uc r (applyRecord E cfg w r).2).getD r) =
      applyRecord E cfg w r :=
  applyRecord_updated E cfg uc w r

/-- **update_then_run** (one record, no retry): running the rewritten record from the state the
original was executed in passes, and leaves the state the update run left. -/
theorem update_then_run (E : Env σ) (cfg : RCfg) (uc : UCfg) (w : World σ) (r : Rec)
    (hs : uc.strictCols = cfg.strictCols) (hr : uc.regexMatch = E.regexMatch)
    (hmode : (applyRecord E cfg w r).1.resultMode ≠ some .valuewise) (hsep : SepOk uc.sep)
    (hrep : Representable (applyRecord E cfg w r).2)
    (hEsc : ∀ t, E.regexMatch (regexEscape (trim t)) t = true) :
    runNoRetry E cfg w ((updateRecord uc r (applyRecord E cfg w r).2).getD r) =
      ((applyRecord E cfg w r).1, .pass) := by
  simp only [runNoRetry, update_same_execution]
  rw [update_accepts_applied E cfg uc w r hs hr hmode hsep hrep hEsc]

/-- … and through the retry loop of `run_async`: the first attempt passes, so no back-off sleep and
no second call happens (attempt counts are positive, as the parser guarantees). -/
theorem update_then_runRecord (E : Env σ) (cfg : RCfg) (uc : UCfg) (w : World σ) (r : Rec)
    (hs : uc.strictCols = cfg.strictCols) (hr : uc.regexMatch = E.regexMatch)
    (hmode : (applyRecord E cfg w r).1.resultMode ≠ some .valuewise) (hsep : SepOk uc.sep)
    (hrep : Representable (applyRecord E cfg w r).2)
    (hEsc : ∀ t, E.regexMatch (regexEscape (trim t)) t = true)
    (hatt : ∀ rt ∈ r.retry?, 0 < rt.attempts) :
    runRecord E cfg w ((updateRecord uc r (applyRecord E cfg w r).2).getD r) =
      ((applyRecord E cfg w r).1, .pass) := by
  have h1 := update_then_run E cfg uc w r hs hr hmode hsep hrep hEsc
  unfold runRecord
  rw [updateRecord_retry]
  cases hrt : r.retry? with
  | none => exact h1
  | some rt =>
    have hpos := hatt rt hrt
    obtain ⟨n, hn⟩ : ∃ n, rt.attempts = n + 1 := ⟨rt.attempts - 1, by omega⟩
    simp only [hn, retryLoop, h1, if_true]

/-! ### a whole (include-free) record list, in memory -/

/-- **In-memory update-then-run**: running the records the updater writes, from the initial state
of the update run, passes record by record — each at its first attempt — and ends in the state the
update run ended in (so a deterministic database gives the same answers in both runs: the runs
issue the same calls).  Guards along the run: `GuardAlong`. -/
theorem updateRecs_run (E : Env σ) (cfg : RCfg) (uc : UCfg)
    (hs : uc.strictCols = cfg.strictCols) (hr : uc.regexMatch = E.regexMatch)
    (hsep : SepOk uc.sep) (hEsc : ∀ t, E.regexMatch (regexEscape (trim t)) t = true)
    (w : World σ) (recs : List Rec) (hg : GuardAlong E cfg w recs) :
    runMulti E cfg w (updateRecs E cfg uc w recs).2 = ((updateRecs E cfg uc w recs).1, .ok) :=
  updateRecs_run_of_step E cfg uc w recs hg
    (fun w r hmode hrep hatt => update_then_runRecord E cfg uc w r hs hr hmode hsep hrep hEsc hatt)

/-- the file holds the *trimmed* stdout of a rewritten `system` record (`fmt_multiline` trims it);
that record accepts the raw output with no guard on the text -/
theorem update_accepts_system_written (jc : JCfg) (l : Nat) (cs : List Cond) (cmd : Str)
    (rt : Option Retry) (out : Option Str) :
    judge jc (.system l cs cmd (out.map trim) rt) (.system out none) = .pass :=
  accepts_system_trimmed jc l cs cmd rt out

/-- **update_idem**: updating the rewritten record from the same output keeps it (`none`) or
returns the same record again.  Needs neither the shape nor the system-command guard. -/
theorem update_idem (uc : UCfg) (r : Rec) (o : Output) (hsep : SepOk uc.sep)
    (hrep : RowsRepresentable o)
    (hEsc : ∀ t, uc.regexMatch (regexEscape (trim t)) t = true) :
    updateRecord uc ((updateRecord uc r o).getD r) o = none ∨
    updateRecord uc ((updateRecord uc r o).getD r) o = some ((updateRecord uc r o).getD r) := by
  cases r with
  | statement l cs cn sql exp rt => exact idem_statement uc hEsc l cs cn sql exp rt o
  | query l cs cn sql exp rt => exact idem_query uc hsep hEsc l cs cn sql exp rt o hrep
  | system l cs cmd out rt => exact idem_system uc l cs cmd out rt o
  | _ => left; cases o <;> simp [updateRecord]

/-- … under the hypotheses of `update_accepts`, as the property states it -/
theorem update_idem' (uc : UCfg) (r : Rec) (o : Output) (hsep : SepOk uc.sep)
    (hrep : Representable o) (hEsc : ∀ t, uc.regexMatch (regexEscape (trim t)) t = true) :
    updateRecord uc ((updateRecord uc r o).getD r) o = none ∨
    updateRecord uc ((updateRecord uc r o).getD r) o = some ((updateRecord uc r o).getD r) :=
  update_idem uc r o hsep hrep.1 hEsc

/-- **Fixed point**: the record the second update writes is the record the first update wrote. -/
theorem update_fixpoint (uc : UCfg) (r : Rec) (o : Output) (hsep : SepOk uc.sep)
    (hrep : RowsRepresentable o)
    (hEsc : ∀ t, uc.regexMatch (regexEscape (trim t)) t = true) :
    (updateRecord uc ((updateRecord uc r o).getD r) o).getD ((updateRecord uc r o).getD r) =
      (updateRecord uc r o).getD r := by
  rcases update_idem uc r o hsep hrep hEsc with h | h <;> rw [h] <;> rfl

/-- **In-memory fixed point**: a second update, from the same initial state, of the records the
first update wrote writes the same records again and ends in the same state. -/
theorem updateRecs_fixpoint (E : Env σ) (cfg : RCfg) (uc : UCfg) (hsep : SepOk uc.sep)
    (hEsc : ∀ t, uc.regexMatch (regexEscape (trim t)) t = true)
    (w : World σ) (recs : List Rec) (hg : RowsAlong E cfg w recs) :
    updateRecs E cfg uc w (updateRecs E cfg uc w recs).2 = updateRecs E cfg uc w recs :=
  updateRecs_fixpoint_of_step E cfg uc
    (fun r o hrep => update_fixpoint uc r o hsep hrep hEsc) w recs hg

/-- **The driver writes `updateRecs`**: on an include-free record list, `update_test_file` does not
crash, leaves the state `updateRecs` computes, and renames over `root` the text of the records
`updateRecs` computes, one `writeln!` each, passed through the tail trimmer (`trimOps`, which C08
proves equal to `normalizeTail`). -/
theorem updateFile_writes_updateRecs (E : Env σ) (cfg : RCfg) (uc : UCfg) (w : World σ)
    (root : Str) (recs : List Rec) (hnm : ∀ r ∈ recs, r.isMarker = false) :
    ∃ txt, writeRecords (updateRecs E cfg uc w recs).2 = some txt ∧
      (updateFile E cfg uc false w root recs).crashed = false ∧
      (updateFile E cfg uc false w root recs).world = (updateRecs E cfg uc w recs).1 ∧
      (updateFile E cfg uc false w root recs).final =
        [(root, (trimOps root (txt.length + 1) txt).2)] := by
  obtain ⟨txt, h, hw, h1, h2, h3, h4⟩ := foldl_updateStep_live E cfg uc recs hnm
    { world := w, stack := [⟨root, [], false⟩], evs := [.fs (.create root)] }
    ⟨root, [], false⟩ [] rfl rfl rfl
  refine ⟨txt, hw, ?_⟩
  simp only [updateFile, h1, h4, Bool.false_eq_true, if_false]
  refine ⟨trivial, h2, ?_⟩
  rw [h3]
  simp [closeOps]

/-- **fromActualError_stable**: an inline error expectation produced by `from_actual_error` is
non-empty, is the escaped trimmed error text, and survives the tokenisation of the header line
unchanged (`words` then join by single blanks — what the parser does with the tokens after
`error`); in particular it is a single line. -/
theorem fromActualError_stable (ref : Option ExpErr) (e re : Str)
    (h : fromActualError ref e = .inline re) :
    joinSp (words re) = re ∧ re ≠ [] ∧ re = regexEscape (trim e) ∧ '\n' ∉ re ∧
    ∀ t, ref ≠ some (.multi t) := by
  rcases fromActualError_cases ref e with h' | ⟨h', _⟩ | ⟨h', hne, hst, _, href⟩
  · rw [h'] at h; cases h
  · rw [h'] at h; cases h
  · rw [h'] at h
    injection h with h; subst h
    have hstable := regexEscape_words_stable (trim e) hst
    refine ⟨hstable, regexEscape_ne_nil _ hne, rfl, ?_, href⟩
    intro hnl
    rw [← hstable] at hnl
    -- a newline is neither the joining blank nor a character of a token
    have key : ∀ (ts : List Str), (∀ t ∈ ts, IsTok isWs t) → '\n' ∉ joinSp ts := by
      intro ts
      induction ts with
      | nil => intro _ h; cases h
      | cons t ts ih =>
        intro hts hmem
        cases ts with
        | nil =>
          have := (hts t (by simp)).2 '\n' (by simpa [joinSp, joinWith] using hmem)
          exact absurd this (by decide)
        | cons u us =>
          simp only [joinSp] at ih hmem
          rw [joinWith_cons_cons] at hmem
          simp only [List.mem_append, List.mem_cons, List.not_mem_nil, or_false] at hmem
          rcases hmem with (hm | hm) | hm
          · exact absurd ((hts t (by simp)).2 '\n' hm) (by decide)
          · exact absurd hm (by decide)
          · exact ih (fun t' ht' => hts t' (by simp [ht'])) hm
    exact key _ (words_isTok _) hnl

/-- … and it is never produced when the record has a retry clause: `errReference` then forces the
multi-line form, whose text is trimmed (`fmt_multiline` writes it unchanged). -/
theorem fromActualError_retry_multiline (rt : Option Retry) (old : Option ExpErr) (e : Str)
    (h : rt.isSome = true) :
    fromActualError (errReference rt old) e = .multi (trim e) ∧ trim (trim e) = trim e :=
  ⟨fromActualError_retry rt old e h, trim_trim e⟩

/-- every form `from_actual_error` produces: multi-line with the trimmed text, `error` alone for
a blank text, or the stable inline form -/
theorem fromActualError_forms (ref : Option ExpErr) (e : Str) :
    fromActualError ref e = .multi (trim e) ∨ fromActualError ref e = .empty ∨
    fromActualError ref e = .inline (regexEscape (trim e)) := by
  rcases fromActualError_cases ref e with h | ⟨h, _⟩ | ⟨h, _⟩
  · exact Or.inl h
  · exact Or.inr (Or.inl h)
  · exact Or.inr (Or.inr h)

/-- Record level: whenever the updater *writes* an error expectation into a statement with a retry
clause, it is the multi-line form (an inline pattern followed by `retry N backoff D` would be read
back as part of the pattern, former defect D5). -/
theorem update_retry_error_multiline (uc : UCfg) (l : Nat) (cs : List Cond) (cn : Conn) (sql : Str)
    (exp : SExp) (rt : Retry) (o : Output) (r' : Rec)
    (h : updateRecord uc (.statement l cs cn sql exp (some rt)) o = some r') :
    ∀ l' cs' cn' sql' ee rt', r' = .statement l' cs' cn' sql' (.error ee) rt' →
      ∃ e, ee = .multi (trim e) := by
  intro l' cs' cn' sql' ee rt' hr'
  subst hr'
  cases o with
  | nothing => simp [updateRecord] at h
  | system _ _ => simp [updateRecord] at h
  | query t rows err =>
    cases err with
    | some e => simp [updateRecord] at h
    | none => cases exp <;> simp [updateRecord] at h
  | statement n err =>
    cases err with
    | none => cases exp <;> simp [updateRecord] at h
    | some e =>
      refine ⟨e, ?_⟩
      cases exp with
      | ok =>
        simp only [updateRecord, Option.some.injEq, Rec.statement.injEq, SExp.error.injEq] at h
        rw [← h.2.2.2.2.1]; exact fromActualError_retry _ _ _ rfl
      | count k =>
        simp only [updateRecord, Option.some.injEq, Rec.statement.injEq, SExp.error.injEq] at h
        rw [← h.2.2.2.2.1]; exact fromActualError_retry _ _ _ rfl
      | error p =>
        simp only [updateRecord] at h
        split at h
        · cases h
        · simp only [Option.some.injEq, Rec.statement.injEq, SExp.error.injEq] at h
          rw [← h.2.2.2.2.1]; exact fromActualError_retry _ _ _ rfl

/-- the same for queries -/
theorem update_retry_error_multiline_query (uc : UCfg) (l : Nat) (cs : List Cond) (cn : Conn)
    (sql : Str) (exp : QExp) (rt : Retry) (o : Output) (r' : Rec)
    (h : updateRecord uc (.query l cs cn sql exp (some rt)) o = some r') :
    ∀ l' cs' cn' sql' ee rt', r' = .query l' cs' cn' sql' (.error ee) rt' →
      ∃ e, ee = .multi (trim e) := by
  intro l' cs' cn' sql' ee rt' hr'
  subst hr'
  cases o with
  | nothing => simp [updateRecord] at h
  | system _ _ => simp [updateRecord] at h
  | statement n err => cases err <;> simp [updateRecord] at h
  | query t rows err =>
    cases err with
    | none => cases exp <;> simp [updateRecord] at h
    | some e =>
      refine ⟨e, ?_⟩
      cases exp with
      | results et so rm lb eres =>
        simp only [updateRecord, Option.some.injEq, Rec.query.injEq, QExp.error.injEq] at h
        rw [← h.2.2.2.2.1]; exact fromActualError_retry _ _ _ rfl
      | error p =>
        simp only [updateRecord] at h
        split at h
        · cases h
        · simp only [Option.some.injEq, Rec.query.injEq, QExp.error.injEq] at h
          rw [← h.2.2.2.2.1]; exact fromActualError_retry _ _ _ rfl

/-! ### the excluded cases are really excluded (kernel-checked witnesses) -/

/-- a failing system command: the updater keeps the record and the record fails — outside the
property's guard ("system commands succeed") -/
theorem system_failure_kept_and_fails (jc : JCfg) (uc : UCfg) (l : Nat) (cs : List Cond)
    (cmd : Str) (exp out : Option Str) (rt : Option Retry) (err : Str) :
    updateRecord uc (.system l cs cmd exp rt) (.system out (some err)) = none ∧
    judge jc (.system l cs cmd exp rt) (.system out (some err)) = .fail .systemFail err := by
  simp [updateRecord, judge, judgeSystem]

-- the in-memory guard on stdout is necessary: untrimmed stdout is written raw into the record …
example : judge jc0 ((updateRecord uc0 (.system 1 [] (kw "echo hi") (some (kw "old")) none)
    (.system (some (kw "hi\n")) none)).getD .newline) (.system (some (kw "hi\n")) none) =
    .fail .stdoutMismatch (kw "hi\n") := by decide
-- … while the record read back from the written file (trimmed text) passes
example : judge jc0 (.system 1 [] (kw "echo hi") (some (trim (kw "hi\n"))) none)
    (.system (some (kw "hi\n")) none) = .pass := by decide
-- value-wise mode (known finding D4): the updater writes row-wise lines, the judge compares
-- value-wise
example : judge ⟨some .valuewise, true, toyRegex⟩
    ((updateRecord uc0 (.query 1 [] .dflt (kw "select 1,2") (.results [] none none none []) none)
      (.query [.int, .int] [[kw "1", kw "2"]] none)).getD .newline)
    (.query [.int, .int] [[kw "1", kw "2"]] none) =
    .fail .resultMismatch (kw "1 2") := by decide
-- a value outside `ValueOk` (trailing no-break space): the written line is rejected
example : judge jc0
    ((updateRecord uc0 (.query 1 [] .dflt (kw "q") (.results [] none none none []) none)
      (.query [.text, .text] [[kw "a\u00a0", kw "b"]] none)).getD .newline)
    (.query [.text, .text] [[kw "a\u00a0", kw "b"]] none) =
    .fail .resultMismatch (kw "a\u00a0 b") := by decide
-- a separator outside `SepOk`: the written line is rejected
example : judge jc0
    ((updateRecord ⟨kw ",", true, toyRegex⟩
      (.query 1 [] .dflt (kw "q") (.results [] none none none []) none)
      (.query [.int, .int] [[kw "1", kw "2"]] none)).getD .newline)
    (.query [.int, .int] [[kw "1", kw "2"]] none) = .fail .resultMismatch (kw "1 2") := by decide
-- a single-line error text of the four-token retry shape is written inline and would be read back
-- as a retry clause: this is a guard of the FILE-level theorem (DESIGN.md section 7), the record
-- level statements above hold for it
example : fromActualError none (kw "retry 3 backoff 1s") = .inline (kw "retry 3 backoff 1s") := by
  decide

/-! ### non-vacuity: concrete instances of every hypothesis, computed by the kernel -/

-- query over wrong results and wrong types, tab separator, strict column check: rewritten, passes
example :
    let r := Rec.query 7 [.onlyIf (kw "pg")] (.named (kw "c1")) (kw "select a, b from t")
      (.results [.text] (some .rowsort) none (some (kw "lbl")) [kw "stale"]) none
    let o := Output.query [.int, .text] [[kw "1", kw " x  y"], [kw "2", kw "z\t"]] none
    OutputFor r o ∧ Representable o ∧ SepOk uc0.sep ∧
    updateRecord uc0 r o = some (.query 7 [.onlyIf (kw "pg")] (.named (kw "c1"))
      (kw "select a, b from t")
      (.results [.int, .text] (some .rowsort) none (some (kw "lbl")) [kw "1\t x  y", kw "2\tz\t"])
      none) ∧
    judge jc0 ((updateRecord uc0 r o).getD r) o = .pass ∧
    updateRecord uc0 ((updateRecord uc0 r o).getD r) o = some ((updateRecord uc0 r o).getD r) := by
  decide
-- results that differ only in white space are kept as written
example : updateRecord uc0 (.query 1 [] .dflt (kw "q") (.results [.int, .int] none none none
      [kw "1     2"]) none) (.query [.int, .int] [[kw "1", kw "2"]] none) =
    some (.query 1 [] .dflt (kw "q") (.results [.int, .int] none none none [kw "1     2"]) none) := by
  decide
-- statement error: a tab inside the text forces the multi-line form; the record passes
example :
    let r := Rec.statement 3 [] .dflt (kw "drop table t") .ok none
    let o := Output.statement 0 (some (kw "  no such\ttable (t) "))
    updateRecord uc0 r o = some (.statement 3 [] .dflt (kw "drop table t")
      (.error (.multi (kw "no such\ttable (t)"))) none) ∧
    judge jc0 ((updateRecord uc0 r o).getD r) o = .pass := by decide
-- statement error: single-line text, metacharacters escaped, inline form; passes with the oracle
example :
    let r := Rec.statement 3 [] .dflt (kw "drop table t") (.count 1) none
    let o := Output.statement 0 (some (kw " no such table (t) "))
    updateRecord uc0 r o = some (.statement 3 [] .dflt (kw "drop table t")
      (.error (.inline (kw "no such table \\(t\\)"))) none) ∧
    judge jc0 ((updateRecord uc0 r o).getD r) o = .pass ∧
    updateRecord uc0 ((updateRecord uc0 r o).getD r) o = none := by decide
-- the same with a retry clause: multi-line form
example : updateRecord uc0 (.statement 3 [] .dflt (kw "x") (.count 1) (some ⟨2, ⟨1, 0⟩⟩))
    (.statement 0 (some (kw "boom"))) =
    some (.statement 3 [] .dflt (kw "x") (.error (.multi (kw "boom"))) (some ⟨2, ⟨1, 0⟩⟩)) := by
  decide
-- query answered by a completion becomes `statement count N`
example : updateRecord uc0 (.query 1 [] .dflt (kw "insert") (.error .empty) none)
    (.statement 5 none) = some (.statement 1 [] .dflt (kw "insert") (.count 5) none) := by decide
-- system command with trimmed stdout
example :
    let r := Rec.system 1 [] (kw "echo hi") (some (kw "old")) none
    let o := Output.system (some (kw "hi")) none
    Representable o ∧ judge jc0 ((updateRecord uc0 r o).getD r) o = .pass := by decide
-- the escape hypothesis has a model
example : ∀ t, uc0.regexMatch (regexEscape (trim t)) t = true := toyRegex_escape
-- a whole list against a small stateful database (`demoEnv`: a counter): the guards hold along
-- the run, the rewritten list runs to `ok` in the state the update left, the second update is the
-- identity, and the records are what one expects
example : GuardAlong demoEnv demoCfg { db := 0 } demoRecs := by decide
example : (updateRecs demoEnv demoCfg uc0 { db := 0 } demoRecs).2 =
  [ .query 1 [] .dflt (kw "q")
      (.results [.int, .text] (some .nosort) none none [kw "0\t x  y"]) none,
    .statement 5 [] .dflt (kw "ins") (.count 3) (some ⟨2, ⟨1, 0⟩⟩),
    .statement 8 [] (.named (kw "c2")) (kw "ins") (.count 3) none,
    .statement 11 [] .dflt (kw "bad") (.error (.multi (kw "no\tsuch table"))) (some ⟨2, ⟨1, 0⟩⟩),
    .query 14 [] .dflt (kw "q") (.results [.int, .text] none none none [kw "1\t x  y"]) none,
    .system 18 [] (kw "echo") (some (kw "out")) none,
    .comment [kw " c"],
    .halt 22,
    .statement 23 [] .dflt (kw "bad") .ok none ] := by decide
example : (runMulti demoEnv demoCfg { db := 0 }
    (updateRecs demoEnv demoCfg uc0 { db := 0 } demoRecs).2).2 = .ok := by decide
example : (updateRecs demoEnv demoCfg uc0 { db := 0 }
    (updateRecs demoEnv demoCfg uc0 { db := 0 } demoRecs).2).2 =
    (updateRecs demoEnv demoCfg uc0 { db := 0 } demoRecs).2 := by decide
example : ∀ r ∈ demoRecs, r.isMarker = false := by decide
example : RowsAlong demoEnv demoCfg { db := 0 } demoRecs := GuardAlong.rows (by decide)
-- … whereas the ORIGINAL list fails at its first record
example : (runMulti demoEnv demoCfg { db := 0 } demoRecs).2 =
    .failed 1 .columnsMismatch [ 'I', 'T' ] := by decide

end Slt.C06
