/-
C07 — Override changes only the expectations of records that did not pass.

Theorems about `Slt.updateRecord` (model of `update_record_with_output`, runner.rs 1577-1804) and
the per-record step of the file driver `Slt.updateStep` (runner.rs 1498-1546), for all records,
outputs and configurations.
-/
import SltVerif.Update
namespace Slt.C07
open Slt

/-- everything of a statement | query | system record that is not its expectation:
    line, conditions, connection (none for `system`), SQL / command text, retry clause -/
def Rec.skeleton : Rec → Option (Nat × List Cond × Option Conn × Str × Option Retry)
  | .statement l cs cn sql _ rt => some (l, cs, some cn, sql, rt)
  | .query l cs cn sql _ rt => some (l, cs, some cn, sql, rt)
  | .system l cs cmd _ rt => some (l, cs, none, cmd, rt)
  | _ => none

def Rec.kindTag : Rec → Nat
  | .statement .. => 1 | .query .. => 2 | .system .. => 3 | _ => 0

/-- a rewritten statement is the same statement with a new expectation -/
theorem update_statement_shape (c : UCfg) (l : Nat) (cs : List Cond) (cn : Conn) (sql : Str)
    (exp : SExp) (rt : Option Retry) (o : Output) (r' : Rec)
    (h : updateRecord c (.statement l cs cn sql exp rt) o = some r') :
    ∃ exp', r' = .statement l cs cn sql exp' rt := by
  cases o with
  | nothing => simp [updateRecord] at h
  | system a e => simp [updateRecord] at h
  | query t rows e =>
    cases e with
    | some e => simp [updateRecord] at h
    | none => simp [updateRecord] at h; exact ⟨_, h.symm⟩
  | statement n e =>
    cases e with
    | none => simp [updateRecord] at h; exact ⟨_, h.symm⟩
    | some e =>
      cases exp with
      | ok => simp [updateRecord] at h; exact ⟨_, h.symm⟩
      | count k => simp [updateRecord] at h; exact ⟨_, h.symm⟩
      | error p =>
        simp only [updateRecord] at h
        split at h
        · cases h
        · injection h with h; exact ⟨_, h.symm⟩

/-- a rewritten query is the same query with a new expectation, or — when the engine answered
with a statement completion — the same record as `statement count N` -/
theorem update_query_shape (c : UCfg) (l : Nat) (cs : List Cond) (cn : Conn) (sql : Str)
    (exp : QExp) (rt : Option Retry) (o : Output) (r' : Rec)
    (h : updateRecord c (.query l cs cn sql exp rt) o = some r') :
    (∃ exp', r' = .query l cs cn sql exp' rt) ∨
    (∃ n, o = .statement n none ∧ r' = .statement l cs cn sql (.count n) rt) := by
  cases o with
  | nothing => simp [updateRecord] at h
  | system a e => simp [updateRecord] at h
  | statement n e =>
    cases e with
    | some e => simp [updateRecord] at h
    | none => simp [updateRecord] at h; exact Or.inr ⟨n, rfl, h.symm⟩
  | query t rows e =>
    cases e with
    | none =>
      cases exp with
      | results et so rm lb eres => simp [updateRecord] at h; exact Or.inl ⟨_, h.symm⟩
      | error p => simp [updateRecord] at h; exact Or.inl ⟨_, h.symm⟩
    | some e =>
      cases exp with
      | results et so rm lb eres => simp [updateRecord] at h; exact Or.inl ⟨_, h.symm⟩
      | error p =>
        simp only [updateRecord] at h
        split at h
        · cases h
        · injection h with h; exact Or.inl ⟨_, h.symm⟩

/-- a rewritten system record is the same command with a new expected stdout -/
theorem update_system_shape (c : UCfg) (l : Nat) (cs : List Cond) (cmd : Str) (out : Option Str)
    (rt : Option Retry) (o : Output) (r' : Rec)
    (h : updateRecord c (.system l cs cmd out rt) o = some r') :
    ∃ out', r' = .system l cs cmd out' rt := by
  cases o with
  | nothing => simp [updateRecord] at h
  | query t rows e => simp [updateRecord] at h
  | statement n e => simp [updateRecord] at h
  | system a e =>
    cases e with
    | some e => simp [updateRecord] at h
    | none => simp [updateRecord] at h; exact ⟨_, h.symm⟩

/-- **Only the expectation changes**: whatever the output, a rewritten record has the same line,
conditions, connection, SQL / command text and retry clause as the original; its kind is the same
except that a `query` answered by a statement completion becomes `statement count N`. -/
theorem update_preserves (c : UCfg) (r r' : Rec) (o : Output) (h : updateRecord c r o = some r') :
    Rec.skeleton r' = Rec.skeleton r ∧ Rec.skeleton r ≠ none ∧
    (Rec.kindTag r' = Rec.kindTag r ∨
      (Rec.kindTag r = 2 ∧ ∃ n, o = .statement n none ∧ Rec.kindTag r' = 1)) := by
  cases r with
  | statement l cs cn sql exp rt =>
    obtain ⟨e', rfl⟩ := update_statement_shape c l cs cn sql exp rt o r' h
    exact ⟨rfl, by simp [Rec.skeleton], Or.inl rfl⟩
  | query l cs cn sql exp rt =>
    rcases update_query_shape c l cs cn sql exp rt o r' h with ⟨e', rfl⟩ | ⟨n, ho, rfl⟩
    · exact ⟨rfl, by simp [Rec.skeleton], Or.inl rfl⟩
    · exact ⟨rfl, by simp [Rec.skeleton], Or.inr ⟨rfl, n, ho, rfl⟩⟩
  | system l cs cmd out rt =>
    obtain ⟨o', rfl⟩ := update_system_shape c l cs cmd out rt o r' h
    exact ⟨rfl, by simp [Rec.skeleton], Or.inl rfl⟩
  | _ => cases o <;> simp [updateRecord] at h

/-- sort mode, result mode and label of a query are kept whenever the new expectation is a result
set written over an old result set -/
theorem update_keeps_query_modifiers (c : UCfg) (l : Nat) (cs : List Cond) (cn : Conn) (sql : Str)
    (et : List ColT) (so : Option SortMode) (rm : Option ResultMode) (lb : Option Str)
    (eres : List Str) (rt : Option Retry) (types : List ColT) (rows : List Row) :
    ∃ t' res', updateRecord c (.query l cs cn sql (.results et so rm lb eres) rt) (.query types rows none) =
      some (.query l cs cn sql (.results t' so rm lb res') rt) := by
  simp [updateRecord]

/-- **A skipped record is left as it is.** -/
theorem update_skipped (c : UCfg) (r : Rec) : updateRecord c r .nothing = none := by
  simp [updateRecord]

/-- **A failing system command is left as it is** (its expected stdout block included). -/
theorem update_system_fail (c : UCfg) (l : Nat) (cs : List Cond) (cmd : Str) (out : Option Str)
    (rt : Option Retry) (actual : Option Str) (e : Str) :
    updateRecord c (.system l cs cmd out rt) (.system actual (some e)) = none := by
  simp [updateRecord]

/-- records that are not statement | query | system are never rewritten -/
theorem update_non_executable (c : UCfg) (r : Rec) (o : Output) (h : Rec.skeleton r = none) :
    updateRecord c r o = none := by
  cases r <;> simp [Rec.skeleton] at h <;> cases o <;> simp [updateRecord]

/-- the judge's configuration as far as the updater shares it -/
def jcOf (c : UCfg) (rm : Option ResultMode) : JCfg :=
  { resultMode := rm, strictCols := c.strictCols, regexMatch := c.regexMatch }

/-- **A statement whose expectation already matches keeps it** (the record is returned unchanged
or equal to itself). -/
theorem update_keeps_passing_statement (c : UCfg) (rm : Option ResultMode) (l : Nat) (cs : List Cond)
    (cn : Conn) (sql : Str) (exp : SExp) (rt : Option Retry) (o : Output)
    (hpass : judge (jcOf c rm) (.statement l cs cn sql exp rt) o = .pass) :
    (updateRecord c (.statement l cs cn sql exp rt) o).getD (.statement l cs cn sql exp rt) =
      .statement l cs cn sql exp rt := by
  cases o with
  | nothing => simp [updateRecord]
  | system a e => simp [updateRecord]
  | query t rows e =>
    cases e with
    | some e => simp [updateRecord]
    | none =>
      cases exp with
      | ok => simp [updateRecord]
      | error p => simp [judge, judgeStatement] at hpass
      | count n =>
        simp only [judge, judgeStatement] at hpass
        split at hpass
        · cases hpass
        · rename_i hn
          have : n = rows.length := by
            apply Classical.byContradiction; intro hne; exact hn hne
          simp [updateRecord, this]
  | statement count e =>
    cases e with
    | none =>
      cases exp with
      | ok => simp [updateRecord]
      | error p => simp [judge, judgeStatement] at hpass
      | count n =>
        simp only [judge, judgeStatement] at hpass
        split at hpass
        · cases hpass
        · rename_i hn
          have : n = count := by
            apply Classical.byContradiction; intro hne; exact hn hne
          simp [updateRecord, this]
    | some e =>
      cases exp with
      | ok => simp [judge, judgeStatement] at hpass
      | count n => simp [judge, judgeStatement] at hpass
      | error p =>
        simp only [judge, judgeStatement, jcOf] at hpass
        by_cases hm : p.isMatch c.regexMatch e = true
        · simp [updateRecord, hm]
        · simp [hm] at hpass

/-- **A query whose expectation already matches keeps it verbatim** — original result lines,
column types, sort mode, label, error pattern — in row-wise result mode (value-wise mode is known
finding D4: the updater validates row-wise). The only change of kind is a query answered by a
statement completion (excluded here by `hout`). -/
theorem update_keeps_passing_query (c : UCfg) (rm : Option ResultMode) (hrm : rm ≠ some .valuewise)
    (l : Nat) (cs : List Cond) (cn : Conn) (sql : Str) (exp : QExp) (rt : Option Retry) (o : Output)
    (hout : ∀ n e, o ≠ .statement n e)
    (hpass : judge (jcOf c rm) (.query l cs cn sql exp rt) o = .pass) :
    (updateRecord c (.query l cs cn sql exp rt) o).getD (.query l cs cn sql exp rt) =
      .query l cs cn sql exp rt := by
  have hmode : ∀ rows : List Row, applyResultMode rm rows = rows := by
    intro rows
    cases rm with
    | none => rfl
    | some m => cases m with
      | rowwise => rfl
      | valuewise => exact absurd rfl hrm
  cases o with
  | nothing => simp [updateRecord]
  | system a e => simp [updateRecord]
  | statement n e => exact absurd rfl (hout n e)
  | query t rows e =>
    cases e with
    | some e =>
      cases exp with
      | results et so rm' lb eres => simp [judge, judgeQuery] at hpass
      | error p =>
        simp only [judge, judgeQuery, jcOf] at hpass
        by_cases hm : p.isMatch c.regexMatch e = true
        · simp [updateRecord, hm]
        · simp [hm] at hpass
    | none =>
      cases exp with
      | error p => simp [judge, judgeQuery] at hpass
      | results et so rm' lb eres =>
        simp only [judge, judgeQuery, jcOf, hmode] at hpass
        cases hc : columnsOk c.strictCols t et
        · simp [hc] at hpass
        · cases hv : defaultValidator rows eres
          · simp [hc, hv] at hpass
          · simp [updateRecord, hc, hv]

/-- **A passing system record is written back with the same text**: the in-memory record takes the
actual stdout, whose trimmed form — what is written — is the expected text. -/
theorem update_keeps_passing_system (c : UCfg) (rm : Option ResultMode) (l : Nat) (cs : List Cond)
    (cmd : Str) (out : Option Str) (rt : Option Retry) (o : Output)
    (hshape : ∀ a, o = .system a none → (a.isSome ↔ out.isSome))
    (htrim : ∀ e, out = some e → trim e = e)
    (hpass : judge (jcOf c rm) (.system l cs cmd out rt) o = .pass) :
    unparse ((updateRecord c (.system l cs cmd out rt) o).getD (.system l cs cmd out rt)) =
      unparse (.system l cs cmd out rt) := by
  cases o with
  | nothing => simp [updateRecord]
  | query t rows e => simp [updateRecord]
  | statement n e => simp [updateRecord]
  | system a e =>
    cases e with
    | some e => simp [updateRecord]
    | none =>
      have hs := hshape a rfl
      cases out with
      | none =>
        cases a with
        | none => simp [updateRecord]
        | some x => simp at hs
      | some ex =>
        cases a with
        | none => simp at hs
        | some x =>
          simp only [judge, judgeSystem, Option.getD] at hpass
          split at hpass
          · cases hpass
          · rename_i hne
            have heq : ex = trim x := by
              apply Classical.byContradiction; intro h; exact hne h
            have ht := htrim ex rfl
            simp only [updateRecord, Option.getD, unparse, fmtMultiText]
            rw [← heq, ht]

/-! ### the file driver -/

variable {σ : Type}

/-- **Records after `halt` are written as they are and cause no database call**: once the halt
flag of the current output file is set, a step only appends the record's own text. -/
theorem update_after_halt (E : Env σ) (cfg : RCfg) (uc : UCfg) (format : Bool) (s : UState σ)
    (r : Rec) (it : OutItem) (rest : List OutItem)
    (hc : s.crashed = false) (hstack : s.stack = it :: rest) (hhalt : it.halt = true)
    (hb : ∀ f, r ≠ .beginInclude f) (he : ∀ f, r ≠ .endInclude f) :
    updateStep E cfg uc format s r = writeTop s r := by
  unfold updateStep
  simp only [hc, Bool.false_eq_true, ↓reduceIte]
  cases r <;> simp [hstack, hhalt] <;> first | exact absurd rfl (hb _) | exact absurd rfl (he _)

/-- `writeTop` appends exactly the record's own text and touches neither the world nor the
database -/
theorem writeTop_spec (s : UState σ) (r : Rec) (it : OutItem) (rest : List OutItem) (text : Str)
    (hstack : s.stack = it :: rest) (htext : recordLine r = some text) :
    (writeTop s r).world = s.world ∧
    (writeTop s r).evs = s.evs ++ [.fs (.append it.file text)] ∧
    (writeTop s r).stack = { it with written := it.written ++ text } :: rest := by
  simp [writeTop, hstack, htext]

/-- a `halt` record sets the flag of its own output file and is itself written unchanged -/
theorem update_at_halt (E : Env σ) (cfg : RCfg) (uc : UCfg) (format : Bool) (s : UState σ)
    (l : Nat) (it : OutItem) (rest : List OutItem)
    (hc : s.crashed = false) (hstack : s.stack = it :: rest) (hhalt : it.halt = false) :
    updateStep E cfg uc format s (.halt l) =
      writeTop { s with stack := { it with halt := true } :: rest } (.halt l) := by
  simp [updateStep, hc, hstack, hhalt, Rec.isHalt]

/-- the flag is inherited by an included file and handed back at its end (`fix:` 567d252):
nothing is executed after a `halt`, across include boundaries -/
theorem halt_inherited (E : Env σ) (cfg : RCfg) (uc : UCfg) (format : Bool) (s : UState σ)
    (f : Str) (it : OutItem) (rest : List OutItem)
    (hc : s.crashed = false) (hstack : s.stack = it :: rest) :
    (updateStep E cfg uc format s (.beginInclude f)).stack = ⟨f, [], it.halt⟩ :: it :: rest := by
  simp [updateStep, hc, hstack]

theorem halt_handed_back (E : Env σ) (cfg : RCfg) (uc : UCfg) (format : Bool) (s : UState σ)
    (f : Str) (it parent : OutItem) (rest : List OutItem)
    (hc : s.crashed = false) (hstack : s.stack = it :: parent :: rest) :
    (updateStep E cfg uc format s (.endInclude f)).stack = { parent with halt := it.halt } :: rest := by
  simp [updateStep, hc, hstack]

-- Non-vacuity
example : updateRecord ⟨[' '], false, fun _ _ => false⟩
    (.query 3 [.onlyIf (kw "pg")] (.named (kw "a")) (kw "select 1") (.results [.int] (some .rowsort) none (some (kw "l")) [kw "9"]) none)
    (.query [.int] [[kw "1"]] none) =
  some (.query 3 [.onlyIf (kw "pg")] (.named (kw "a")) (kw "select 1") (.results [.int] (some .rowsort) none (some (kw "l")) [kw "1"]) none) := by
  decide

end Slt.C07
