/-
C08 — While a file and its includes are being updated or formatted, each original file on disk
holds either its complete old content or its complete new content at every instant; on normal
completion every parseable file, however small, is rewritten without a crash, every rewritten
file ends with exactly one newline, and no temporary files remain.

Model: `Slt.updateFile` (`update_test_file`, library and CLI copies, after the `fix:` commits)
produces the ordered list of database events and file-system operations; `FsOp.apply` gives the
operations their meaning (temp files live in their own name space, `rename f` moves the temp
file of `f` over `f`).  A crash point is a prefix of the event list.

Guards on the flattened record list `recs` (decidable; `decide` on concrete runs, see the end):
* `DistinctOpen [root] recs` — no path is open twice at the same time (no file includes itself,
  directly or indirectly; the real parser does not terminate on such a tree);
* `MarkersBalanced 0 recs` — the begin/end markers are balanced.
Both are PROVED for everything `parse_file` (model `parseFile`, C14) returns
(`parsed_distinct_open`), so `atomic_prefix_parsed` and `parsed_file_completes` carry no guard.
-/
import SltVerif.Lemmas.UpdateOwn
import SltVerif.Lemmas.UpdateNested
import SltVerif.Lemmas.UpdateDistinct
import SltVerif.Props.C05
namespace Slt.C08
open Slt

/-! ### 1. the 8-byte tail loop of `override_with_outfile` -/

/-- **`trim_spec`**: on every buffer that is empty or ends in a newline — of any length, fewer
than eight bytes and zero bytes included — the loop computes "strip all trailing newlines, keep
one" (`normalizeTail`, the specification used by C05). -/
theorem trimOps_spec (file : Str) (s : Str) (h : s = [] ∨ s.getLast? = some '\n') :
    (trimOps file (s.length + 1) s).2 = normalizeTail s := by
  rw [← trimRun_eq]
  rw [trimRun_shape file s h (s.length + 1) (by have := trailingNl_le_length s; omega)]

/-- … stated with the `body` of C05: the result is the body and one newline. -/
theorem trimOps_spec_body (file : Str) (s : Str) (hne : s ≠ []) (h : s.getLast? = some '\n') :
    (trimOps file (s.length + 1) s).2 = C05.body s ++ ['\n'] := by
  rw [trimOps_spec file s (Or.inr h), C05.normalizeTail_spec s hne h]

/-- **The fuel is sufficient**: any fuel above the number of trailing newlines gives the same
content, and the loop ends by its `break` — not because the model ran out of fuel.
(`trimRun` is `trimOps` with the way of ending made visible: `trimRun_eq`.) -/
theorem trim_fuel_suffices (file : Str) (s : Str) (h : s = [] ∨ s.getLast? = some '\n')
    (fuel : Nat) (hf : trailingNl s + 1 ≤ fuel) :
    (trimOps file fuel s).2 = normalizeTail s ∧ (trimRun file fuel s).2.2 = TrimExit.done := by
  have := trimRun_shape file s h fuel hf
  refine ⟨?_, by rw [this]⟩
  rw [← trimRun_eq, this]

/-- … and the same operations: beyond that bound the fuel is irrelevant altogether. -/
theorem trim_fuel_irrelevant (file : Str) (s : Str) (h : s = [] ∨ s.getLast? = some '\n')
    (fuel : Nat) (hf : trailingNl s + 1 ≤ fuel) :
    trimOps file fuel s = trimOps file (trailingNl s + 1) s :=
  trimOps_fuel_irrelevant file s h fuel hf

/-- the instrumented loop is the loop -/
theorem trimRun_is_trimOps (file : Str) (fuel : Nat) (s : Str) :
    ((trimRun file fuel s).1, (trimRun file fuel s).2.1) = trimOps file fuel s :=
  trimRun_eq file fuel s

/-- **`trim_no_assert`**: on a buffer that is empty or ends in a newline the branch of the Rust
`assert!(num_newlines > 0)` is never taken (nor does the fuel run out): the loop ends by `break`. -/
theorem trim_no_assert (file : Str) (s : Str) (h : s = [] ∨ s.getLast? = some '\n') :
    (trimRun file (s.length + 1) s).2.2 = TrimExit.done := by
  rw [trimRun_shape file s h (s.length + 1) (by have := trailingNl_le_length s; omega)]

/-- the loop invariant behind it: on a non-empty buffer ending in a newline the assertion holds
in this round, and the buffer handed to the next round is again non-empty and ends in a newline -/
theorem trim_round_invariant (s : Str) (hne : s ≠ []) (h : s.getLast? = some '\n') :
    let k := min (trailingNl s) (min s.length 8)
    let s' := if k > 1 then s.take (s.length - (k - 1)) else s
    0 < k ∧ s' ≠ [] ∧ s'.getLast? = some '\n' :=
  trim_round_inv s hne h

/-- **`written_shape`**: at every moment of an update every open buffer — in particular every
buffer that is closed next — is empty or ends in a newline, because it is a sequence of
`writeln!`-ed records. -/
theorem written_shape {σ : Type} (E : Env σ) (cfg : RCfg) (uc : UCfg) (format : Bool)
    (w : World σ) (root : Str) (recs : List Rec) :
    ∀ it ∈ (updateRun E cfg uc format w root recs).stack,
      (∃ rs, writeRecords rs = some it.written) ∧
      (it.written = [] ∨ it.written.getLast? = some '\n') := by
  intro it hit
  obtain ⟨rs, hrs⟩ :=
    (foldl_updateStep_InvS E cfg uc format recs (updateInit w root) (InvS.init root)).written it hit
  exact ⟨⟨rs, hrs⟩, writeRecords_shape hrs⟩

/-- **`trimOps_ops`**: the loop only ever shortens the temp file of the file being closed, by at
most seven bytes at a time, … -/
theorem trimOps_ops (file : Str) (fuel : Nat) (s : Str) :
    ∀ op ∈ (trimOps file fuel s).1, ∃ k, 1 ≤ k ∧ k < 8 ∧ op = FsOp.dropTail file k :=
  trimOps_ops_dropTail file fuel s

/-- … and applied to a file system in which that temp file holds `s` these operations leave
exactly the content the loop computes, touching nothing else. -/
theorem trimOps_applied (file : Str) (fuel : Nat) (s : Str) (st : FsState)
    (h : getFile st.temps file = some s) :
    applyFsOps st (trimOps file fuel s).1 =
      { st with temps := setFile st.temps file (trimOps file fuel s).2 } :=
  trimOps_apply file fuel s st h

/-! ### 2. atomicity at every crash point -/

/-- **`atomic_prefix`**: for every prefix `p` of the event list — every crash point, in
particular "right before the k-th database request" — every original path `f` holds its old
content or a complete content that `updateFile` renamed onto it. -/
theorem atomic_prefix {σ : Type} (E : Env σ) (cfg : RCfg) (uc : UCfg) (format : Bool)
    (w : World σ) (root : Str) (recs : List Rec) (fs0 : List (Str × Str))
    (hd : DistinctOpen [root] recs)
    (p : List UEv) (hp : p <+: (updateFile E cfg uc format w root recs).evs) (f : Str) :
    getFile (applyFsOps ⟨fs0, []⟩ (fsOpsOf p)).files f = getFile fs0 f ∨
    ∃ c, (f, c) ∈ (updateFile E cfg uc format w root recs).final ∧
      getFile (applyFsOps ⟨fs0, []⟩ (fsOpsOf p)).files f = some c :=
  (updateFile_InvA E cfg uc format w root recs fs0 hd).atomic p hp f

/-- … in particular right before any database request `e` (where a panicking driver or a kill
interrupts the run): `evs = p ++ .db e :: q`. -/
theorem atomic_before_db_request {σ : Type} (E : Env σ) (cfg : RCfg) (uc : UCfg) (format : Bool)
    (w : World σ) (root : Str) (recs : List Rec) (fs0 : List (Str × Str))
    (hd : DistinctOpen [root] recs) (p q : List UEv) (e : Ev)
    (hsplit : (updateFile E cfg uc format w root recs).evs = p ++ .db e :: q) (f : Str) :
    getFile (applyFsOps ⟨fs0, []⟩ (fsOpsOf p)).files f = getFile fs0 f ∨
    ∃ c, (f, c) ∈ (updateFile E cfg uc format w root recs).final ∧
      getFile (applyFsOps ⟨fs0, []⟩ (fsOpsOf p)).files f = some c :=
  atomic_prefix E cfg uc format w root recs fs0 hd p ⟨_, hsplit.symm⟩ f

/-- **`atomic_prefix_parsed`**: for everything `parse_file` returns the guard holds (an include
cycle makes `parse_file` fail), so for every parseable tree, at every crash point, every original
path holds its old content or a complete new content. -/
theorem atomic_prefix_parsed {σ : Type} (E : Env σ) (cfg : RCfg) (uc : UCfg) (format : Bool)
    (w : World σ) (pcfg : PCfg) (fs : Fs) (fuel : Nat) (root : Str) (upper : List (Str × Nat))
    (out : List LRec) (hparse : parseFile pcfg fs fuel root upper = .ok out)
    (fs0 : List (Str × Str)) (p : List UEv)
    (hp : p <+: (updateFile E cfg uc format w root (out.map (·.record))).evs) (f : Str) :
    getFile (applyFsOps ⟨fs0, []⟩ (fsOpsOf p)).files f = getFile fs0 f ∨
    ∃ c, (f, c) ∈ (updateFile E cfg uc format w root (out.map (·.record))).final ∧
      getFile (applyFsOps ⟨fs0, []⟩ (fsOpsOf p)).files f = some c :=
  atomic_prefix E cfg uc format w root _ fs0 (parseFile_distinctOpen hparse) p hp f

/-- the guard for parser output, on its own -/
theorem parsed_distinct_open (pcfg : PCfg) (fs : Fs) (fuel : Nat) (root : Str)
    (upper : List (Str × Nat)) (out : List LRec)
    (hparse : parseFile pcfg fs fuel root upper = .ok out) :
    DistinctOpen [root] (out.map (·.record)) ∧ MarkersBalanced 0 (out.map (·.record)) :=
  ⟨parseFile_distinctOpen hparse, parseFile_markersBalanced hparse⟩

/-- the invariant behind it, part 1: only `rename` touches an original path -/
theorem only_rename_touches_files (ops : List FsOp) (st : FsState)
    (h : ∀ op ∈ ops, op.isRename = false) : (applyFsOps st ops).files = st.files :=
  applyFsOps_files_of_no_rename ops st h

/-- the invariant behind it, part 2: after any list of records (every intermediate state of a
run has this form) the temp file of every open output file holds exactly the bytes written to
it so far — so what `rename` moves over the original is the complete buffer, trimmed -/
theorem temp_holds_written {σ : Type} (E : Env σ) (cfg : RCfg) (uc : UCfg) (format : Bool)
    (w : World σ) (root : Str) (recs : List Rec) (fs0 : List (Str × Str))
    (hd : DistinctOpen [root] recs) :
    ∀ it ∈ (updateRun E cfg uc format w root recs).stack,
      getFile (applyFsOps ⟨fs0, []⟩ (fsOpsOf (updateRun E cfg uc format w root recs).evs)).temps
        it.file = some it.written :=
  (foldl_updateStep_InvA E cfg uc format fs0 recs (updateInit w root) (InvA.init fs0 root)
    (fun _ => hd)).1.temps

/-! ### 3. what is renamed onto a path is complete -/

/-- **`final_is_complete`**: every content renamed onto a path is `normalizeTail` of the
concatenation of `writeln!`-ed records, i.e. the `fmtFile` (C05) of a list of records. -/
theorem final_is_complete {σ : Type} (E : Env σ) (cfg : RCfg) (uc : UCfg) (format : Bool)
    (w : World σ) (root : Str) (recs : List Rec) (f c : Str)
    (h : (f, c) ∈ (updateFile E cfg uc format w root recs).final) :
    ∃ rs text, writeRecords rs = some text ∧ c = normalizeTail text ∧ fmtFile rs = some c := by
  obtain ⟨rs, hrs⟩ := (updateFile_InvS E cfg uc format w root recs).final (f, c) h
  refine ⟨rs, ?_⟩
  unfold fmtFile at hrs
  cases hw : writeRecords rs with
  | none => rw [hw] at hrs; simp at hrs
  | some text =>
    rw [hw] at hrs
    simp only [Option.map_some, Option.some.injEq] at hrs
    exact ⟨text, rfl, hrs.symm, by simp [fmtFile, hw, hrs]⟩

/-- **`ends_with_one_newline`**: every rewritten file is empty (no record at all) or ends in
exactly one newline. -/
theorem ends_with_one_newline {σ : Type} (E : Env σ) (cfg : RCfg) (uc : UCfg) (format : Bool)
    (w : World σ) (root : Str) (recs : List Rec) (f c : Str)
    (h : (f, c) ∈ (updateFile E cfg uc format w root recs).final) :
    c = [] ∨ (c.getLast? = some '\n' ∧ ¬ ['\n', '\n'] <:+ c) := by
  obtain ⟨rs, hrs⟩ := (updateFile_InvS E cfg uc format w root recs).final (f, c) h
  exact fmtFile_one_newline hrs

/-! ### 4. normal completion: no crash, no debris -/

/-- **`completes`**: with balanced markers the update neither panics (no `Display` of an
injected record, no stack underflow, no failed assertion in the trimmer) nor leaves an output
file open. -/
theorem completes {σ : Type} (E : Env σ) (cfg : RCfg) (uc : UCfg) (format : Bool)
    (w : World σ) (root : Str) (recs : List Rec) (hb : MarkersBalanced 0 recs) :
    (updateFile E cfg uc format w root recs).crashed = false ∧
    (updateFile E cfg uc format w root recs).stack = [] :=
  ⟨(updateFile_balanced E cfg uc format w root recs [] hb).1,
   (updateFile_balanced E cfg uc format w root recs [] hb).2.1⟩

/-- **`no_debris`**: … and after all events no temporary file exists. -/
theorem no_debris {σ : Type} (E : Env σ) (cfg : RCfg) (uc : UCfg) (format : Bool)
    (w : World σ) (root : Str) (recs : List Rec) (fs0 : List (Str × Str))
    (hb : MarkersBalanced 0 recs) :
    (applyFsOps ⟨fs0, []⟩ (fsOpsOf (updateFile E cfg uc format w root recs).evs)).temps = [] :=
  (updateFile_balanced E cfg uc format w root recs fs0 hb).2.2

/-- at every crash point the only temp files are those of currently open output files
(stated for the state after any number of records) -/
theorem temps_belong_to_open_files {σ : Type} (E : Env σ) (cfg : RCfg) (uc : UCfg)
    (format : Bool) (w : World σ) (root : Str) (recs : List Rec) (fs0 : List (Str × Str)) :
    ∀ x ∈ (applyFsOps ⟨fs0, []⟩ (fsOpsOf (updateRun E cfg uc format w root recs).evs)).temps,
      x.1 ∈ (updateRun E cfg uc format w root recs).stack.map (·.file) :=
  foldl_updateStep_KeysIn E cfg uc format fs0 recs (updateInit w root) (KeysIn.init fs0 root)

/-- the bracketing guard is what `parse_file` produces: `MarkersBalanced 0` holds for the empty
list, is kept by an ordinary record in front, and by a block `begin f · inner · end f` in front
(the grammar of C14's `nested` theorem) -/
theorem balanced_grammar :
    MarkersBalanced 0 [] ∧
    (∀ (r : Rec) (rs : List Rec), r.isInjected = false → MarkersBalanced 0 rs →
      MarkersBalanced 0 (r :: rs)) ∧
    (∀ (f : Str) (inner rest : List Rec), MarkersBalanced 0 inner → MarkersBalanced 0 rest →
      MarkersBalanced 0 (.beginInclude f :: inner ++ .endInclude f :: rest)) :=
  ⟨MarkersBalanced.nil, fun _ _ hr h => MarkersBalanced.plain hr h,
   fun _ _ _ hi hr => MarkersBalanced.block hi hr⟩

/-- **Every parseable file is rewritten without a crash**: whatever `parse_file` returns for the
root file (C14: its markers are properly nested) — however small, the empty file included — is
updated or formatted to completion: no panic, every output file closed, no temp file left. -/
theorem parsed_file_completes {σ : Type} (E : Env σ) (cfg : RCfg) (uc : UCfg) (format : Bool)
    (w : World σ) (pcfg : PCfg) (fs : Fs) (fuel : Nat) (root : Str) (upper : List (Str × Nat))
    (out : List LRec) (fs0 : List (Str × Str))
    (hp : parseFile pcfg fs fuel root upper = .ok out) :
    (updateFile E cfg uc format w root (out.map (·.record))).crashed = false ∧
    (updateFile E cfg uc format w root (out.map (·.record))).stack = [] ∧
    (applyFsOps ⟨fs0, []⟩
      (fsOpsOf (updateFile E cfg uc format w root (out.map (·.record))).evs)).temps = [] :=
  updateFile_balanced E cfg uc format w root _ fs0 (parseFile_markersBalanced hp)

/-! ### 5. ownership: each file receives exactly its own records -/

/-- **`ownership`**: the contents renamed onto paths correspond, one to one and in order, to a
duplicate-free list `os` of openings — `none`: the root file, open from the start; `some i`: the
begin marker at position `i` of the flattened list — such that (`OwnEntry`) the entry `(f, c)`
paired with opening `o` has `f` = the file opened at `o` and `c` = the `fmtFile` of exactly the
records between `o` and the matching end marker at nesting depth 0 (`ownRecs 0`: nothing of the
including file, nothing of files included further down), each record kept or replaced by its
update (`UpdOf`).  No hypothesis: it holds for crashed and unbalanced runs as well. -/
theorem ownership {σ : Type} (E : Env σ) (cfg : RCfg) (uc : UCfg) (format : Bool)
    (w : World σ) (root : Str) (recs : List Rec) :
    ∃ os : List (Option Nat), os.Nodup ∧
      ListRel
        (fun (x : Str × Str) (o : Option Nat) =>
          OriginAt recs root x.1 o ∧
          ∃ rs', ListRel (UpdOf uc format) (ownRecs 0 (sufOf recs o)) rs' ∧ fmtFile rs' = some x.2)
        (updateFile E cfg uc format w root recs).final os :=
  updateFile_own E cfg uc format w root recs

/-- **`ownership_entry`**: … spelled out for one entry: `c` is the `fmtFile` of the (kept or
updated) records owned by `f` from the start of the list (root) or from right after one of its
begin markers. -/
theorem ownership_entry {σ : Type} (E : Env σ) (cfg : RCfg) (uc : UCfg) (format : Bool)
    (w : World σ) (root : Str) (recs : List Rec) (f c : Str)
    (h : (f, c) ∈ (updateFile E cfg uc format w root recs).final) :
    ∃ suf rs',
      ((f = root ∧ suf = recs) ∨
        ∃ i, recs[i]? = some (.beginInclude f) ∧ suf = recs.drop (i + 1)) ∧
      ListRel (fun r r' => r' = r ∨ (format = false ∧ ∃ o, updateRecord uc r o = some r'))
        (ownRecs 0 suf) rs' ∧
      fmtFile rs' = some c := by
  obtain ⟨os, _, hrel⟩ := updateFile_own E cfg uc format w root recs
  obtain ⟨o, _, ho⟩ := hrel.of_mem h
  exact OwnEntry.explicit ho

/-- **`ownership_format`**: when formatting, the content is the `fmtFile` of the file's own
records themselves. -/
theorem ownership_format {σ : Type} (E : Env σ) (cfg : RCfg) (uc : UCfg)
    (w : World σ) (root : Str) (recs : List Rec) (f c : Str)
    (h : (f, c) ∈ (updateFile E cfg uc true w root recs).final) :
    ∃ suf,
      ((f = root ∧ suf = recs) ∨
        ∃ i, recs[i]? = some (.beginInclude f) ∧ suf = recs.drop (i + 1)) ∧
      fmtFile (ownRecs 0 suf) = some c := by
  obtain ⟨suf, rs', ho, hall, hfmt⟩ := ownership_entry E cfg uc true w root recs f c h
  refine ⟨suf, ho, ?_⟩
  have : rs' = ownRecs 0 suf :=
    ListRel.eq_of_eq (hall.mono (fun _ _ h => UpdOf.format_eq h))
  rw [← this]; exact hfmt

/-- **`rewritten_count`**: with balanced markers exactly one file is rewritten per begin marker,
plus the root. -/
theorem rewritten_count {σ : Type} (E : Env σ) (cfg : RCfg) (uc : UCfg) (format : Bool)
    (w : World σ) (root : Str) (recs : List Rec) (hb : MarkersBalanced 0 recs) :
    (updateFile E cfg uc format w root recs).final.length = countBegins recs + 1 :=
  updateFile_count E cfg uc format w root recs hb

/-! ### a concrete two-file run (the hypotheses are satisfiable; the model computes) -/

section example_run

private def exEnv : Env Nat :=
  { make := fun n _ => (n, none)
    run := fun n _ _ => (n + 1, .rows [.int] [[kw "7"]])
    engine := fun _ => []
    cmd := fun n _ => (n, .exit 0 [])
    subst := fun _ s => .ok s
    regexMatch := fun _ _ => false
    hash := fun s => s }
private def exCfg : RCfg := ⟨[], false⟩
private def exUc : UCfg := ⟨[' '], false, fun _ _ => false⟩
private def exWorld : World Nat := { db := 0 }
/-- `a.slt` = a query with a stale result, `include b.slt`, a blank line;
    `b.slt` = `halt` and two blank lines -/
private def exRecs : List Rec :=
  [ .query 1 [] .dflt (kw "select 7") (.results [.int] none none none [kw "6"]) none,
    .incl 5 (kw "b.slt"),
    .beginInclude (kw "b.slt"),
    .halt 1, .newline, .newline,
    .endInclude (kw "b.slt"),
    .newline ]
private def exFs0 : List (Str × Str) := [(kw "a.slt", kw "old a"), (kw "b.slt", kw "old b")]

example : MarkersBalanced 0 exRecs ∧ DistinctOpen [kw "a.slt"] exRecs := by decide

example : (updateFile exEnv exCfg exUc false exWorld (kw "a.slt") exRecs).final =
    [(kw "b.slt", kw "halt\n"),
     (kw "a.slt", kw "query I\nselect 7\n----\n7\n\ninclude b.slt\n")] := by decide

/-- the events: one database request, `b.slt.temp` trimmed by two bytes, two renames -/
example : (updateFile exEnv exCfg exUc false exWorld (kw "a.slt") exRecs).evs =
    [ .fs (.create (kw "a.slt")),
      .db (.make 0 true), .db (.run 0 (kw "select 7")),
      .fs (.append (kw "a.slt") (kw "query I\nselect 7\n----\n7\n\n")),
      .fs (.append (kw "a.slt") (kw "include b.slt\n")),
      .fs (.create (kw "b.slt")),
      .fs (.append (kw "b.slt") (kw "halt\n")),
      .fs (.append (kw "b.slt") (kw "\n")),
      .fs (.append (kw "b.slt") (kw "\n")),
      .fs (.dropTail (kw "b.slt") 2),
      .fs (.rename (kw "b.slt")),
      .fs (.append (kw "a.slt") (kw "\n")),
      .fs (.dropTail (kw "a.slt") 1),
      .fs (.rename (kw "a.slt")) ] := by decide

/-- the file system at the end, and at the crash point right before the database request -/
example :
    let evs := (updateFile exEnv exCfg exUc false exWorld (kw "a.slt") exRecs).evs
    (applyFsOps ⟨exFs0, []⟩ (fsOpsOf evs)).files =
      [(kw "a.slt", kw "query I\nselect 7\n----\n7\n\ninclude b.slt\n"),
       (kw "b.slt", kw "halt\n")] ∧
    (applyFsOps ⟨exFs0, []⟩ (fsOpsOf evs)).temps = [] ∧
    (applyFsOps ⟨exFs0, []⟩ (fsOpsOf (evs.take 2))).files = exFs0 ∧
    (applyFsOps ⟨exFs0, []⟩ (fsOpsOf (evs.take 11))).files =
      [(kw "a.slt", kw "old a"), (kw "b.slt", kw "halt\n")] := by decide

/-- the empty file: rewritten as the empty file, no crash, nothing left behind -/
example :
    let r := updateFile exEnv exCfg exUc false exWorld (kw "e.slt") []
    r.crashed = false ∧ r.final = [(kw "e.slt", [])] ∧
    r.evs = [.fs (.create (kw "e.slt")), .fs (.rename (kw "e.slt"))] ∧
    (applyFsOps ⟨[(kw "e.slt", [])], []⟩ (fsOpsOf r.evs)).temps = [] := by decide

/-- small buffers: the loop on fewer than eight bytes, on nothing, on nine newlines -/
example : (trimOps (kw "f") 6 (kw "halt\n")).2 = kw "halt\n" ∧
    trimOps (kw "f") 1 [] = ([], []) ∧
    trimOps (kw "f") 14 (kw "halt\n\n\n\n\n\n\n\n\n") =
      ([.dropTail (kw "f") 7, .dropTail (kw "f") 1], kw "halt\n") := by decide

end example_run

end Slt.C08
