/-
C09 — Retry: at most N attempts, stop at the first pass, wait the backoff in between.

Theorems about `Slt.retryLoop` / `Slt.runRecord` (model of `Runner::run_async`, runner.rs 958-986),
for every environment (database, shell), every runner state, every record and every N — no bound.

`attempt i` is the state of the world just before the (i+1)-th execution provided all earlier
executions failed: it is obtained from the initial world by `i` times "execute once, then wait D".
-/
import SltVerif.Runner
import SltVerif.Parser
namespace Slt.C09
open Slt

variable {σ : Type}

/-- execute the record once and wait the backoff -/
def next (E : Env σ) (cfg : RCfg) (r : Rec) (d : Dur) (w : World σ) : World σ :=
  (runNoRetry E cfg w r).1.log (.sleep d)

/-- the world before attempt `i` (0-based) when attempts `0..i-1` all failed -/
def attempt (E : Env σ) (cfg : RCfg) (r : Rec) (d : Dur) (w : World σ) : Nat → World σ
  | 0 => w
  | i + 1 => attempt E cfg r d (next E cfg r d w) i

/-- verdict of attempt `i` -/
def verdictAt (E : Env σ) (cfg : RCfg) (r : Rec) (d : Dur) (w : World σ) (i : Nat) : Verdict :=
  (runNoRetry E cfg (attempt E cfg r d w i) r).2

theorem attempt_succ (E : Env σ) (cfg : RCfg) (r : Rec) (d : Dur) (w : World σ) (i : Nat) :
    attempt E cfg r d w (i + 1) = attempt E cfg r d (next E cfg r d w) i := rfl

/-- **Stop at the first pass.** If attempt `i < N` is the first one that passes, the retry loop
returns exactly the state and verdict of that execution: `i+1` executions, `i` waits of `D`
(one between each pair of consecutive attempts), nothing after the pass. -/
theorem retry_first_pass (E : Env σ) (cfg : RCfg) (r : Rec) (d : Dur) :
    ∀ (n : Nat) (w : World σ) (last : Verdict) (i : Nat), i < n →
      (∀ j, j < i → verdictAt E cfg r d w j ≠ .pass) →
      verdictAt E cfg r d w i = .pass →
      retryLoop E cfg r d n w last = runNoRetry E cfg (attempt E cfg r d w i) r := by
  intro n
  induction n with
  | zero => intro w last i hi; omega
  | succ n ih =>
    intro w last i hi hfail hpass
    cases i with
    | zero =>
      have h0 : (runNoRetry E cfg w r).2 = .pass := hpass
      simp [retryLoop, h0, attempt]
    | succ i =>
      have h0 : (runNoRetry E cfg w r).2 ≠ .pass := hfail 0 (by omega)
      have := ih (next E cfg r d w) (runNoRetry E cfg w r).2 i (by omega)
        (fun j hj => by
          have := hfail (j + 1) (by omega)
          simpa [verdictAt, attempt_succ] using this)
        (by simpa [verdictAt, attempt_succ] using hpass)
      simp only [retryLoop, h0, if_false]
      rw [attempt_succ]
      exact this

/-- **At most N attempts, last error reported.** If none of the first `N > 0` attempts passes,
the record has been executed exactly `N` times and the verdict is the failure of attempt `N-1`. -/
theorem retry_all_fail (E : Env σ) (cfg : RCfg) (r : Rec) (d : Dur) :
    ∀ (n : Nat) (w : World σ) (last : Verdict), 0 < n →
      (∀ j, j < n → verdictAt E cfg r d w j ≠ .pass) →
      retryLoop E cfg r d n w last =
        (attempt E cfg r d w n, verdictAt E cfg r d w (n - 1)) := by
  intro n
  induction n with
  | zero => intro w last h; omega
  | succ n ih =>
    intro w last _ hfail
    have h0 : (runNoRetry E cfg w r).2 ≠ .pass := hfail 0 (by omega)
    simp only [retryLoop, h0, if_false]
    cases n with
    | zero => simp [retryLoop, attempt, next, verdictAt]
    | succ m =>
      have := ih (next E cfg r d w) (runNoRetry E cfg w r).2 (by omega)
        (fun j hj => by
          have := hfail (j + 1) (by omega)
          simpa [verdictAt, attempt_succ] using this)
      rw [show (runNoRetry E cfg w r).1.log (.sleep d) = next E cfg r d w from rfl, this]
      simp [attempt_succ, verdictAt]

/-- **Succeeds iff one of the first N attempts passes.** -/
theorem retry_pass_iff (E : Env σ) (cfg : RCfg) (r : Rec) (d : Dur) (n : Nat) (w : World σ)
    (last : Verdict) (hn : 0 < n) :
    (retryLoop E cfg r d n w last).2 = .pass ↔
      ∃ i, i < n ∧ (∀ j, j < i → verdictAt E cfg r d w j ≠ .pass) ∧
        verdictAt E cfg r d w i = .pass := by
  constructor
  · intro h
    -- either some attempt passes (take the first), or all fail (contradiction)
    by_cases hall : ∀ j, j < n → verdictAt E cfg r d w j ≠ .pass
    · rw [retry_all_fail E cfg r d n w last hn hall] at h
      exact absurd h (hall (n - 1) (by omega))
    · -- least passing index
      have hex : ∃ j, j < n ∧ verdictAt E cfg r d w j = .pass := by
        apply Classical.byContradiction
        intro hne
        apply hall
        intro j hj hp
        exact hne ⟨j, hj, hp⟩
      have key : ∀ m, (∃ j, j < m ∧ verdictAt E cfg r d w j = .pass) →
          ∃ i, i < m ∧ (∀ j, j < i → verdictAt E cfg r d w j ≠ .pass) ∧
            verdictAt E cfg r d w i = .pass := by
        intro m
        induction m with
        | zero => rintro ⟨j, hj, _⟩; omega
        | succ m ihm =>
          rintro ⟨j, hj, hp⟩
          by_cases hlt : ∃ j', j' < m ∧ verdictAt E cfg r d w j' = .pass
          · obtain ⟨i, hi, h1, h2⟩ := ihm hlt
            exact ⟨i, by omega, h1, h2⟩
          · have hjm : j = m := by
              apply Classical.byContradiction
              intro hne
              exact hlt ⟨j, by omega, hp⟩
            subst hjm
            exact ⟨j, by omega, fun j' hj' hp' => hlt ⟨j', hj', hp'⟩, hp⟩
      exact key n hex
  · rintro ⟨i, hi, hfail, hpass⟩
    rw [retry_first_pass E cfg r d n w last i hi hfail hpass]
    exact hpass

/-- **No retry clause: exactly one execution, no wait.** -/
theorem no_retry_once (E : Env σ) (cfg : RCfg) (w : World σ) (r : Rec) (h : r.retry? = none) :
    runRecord E cfg w r = runNoRetry E cfg w r := by
  simp [runRecord, h]

/-- `run_async` with a clause `retry N backoff D` is the loop above. -/
theorem run_with_retry (E : Env σ) (cfg : RCfg) (w : World σ) (r : Rec) (rt : Retry)
    (h : r.retry? = some rt) :
    runRecord E cfg w r = retryLoop E cfg r rt.backoff rt.attempts w .unreachable := by
  simp [runRecord, h]

/-- The waits: executing once and waiting appends exactly one `sleep D` after whatever the
execution itself logged; hence between attempt `i` and `i+1` there is exactly one wait of `D`. -/
theorem next_trace (E : Env σ) (cfg : RCfg) (r : Rec) (d : Dur) (w : World σ) :
    (next E cfg r d w).trace = (runNoRetry E cfg w r).1.trace ++ [.sleep d] := rfl

/-- The parser never produces `attempts = 0` (anchor: parser.rs 1098-1102). -/
theorem attempts_pos (ts : List Str) (rt : Retry) (h : parseRetry ts = .ok (some rt)) :
    0 < rt.attempts := by
  unfold parseRetry at h
  repeat' split at h
  all_goals first
    | (injection h with h; injection h with h; subst h; simp; omega)
    | cases h

-- Non-vacuity: a concrete environment in which attempt 0 fails and attempt 1 passes.
section Example
def exEnv : Env Nat :=
  { make := fun s _ => (s, none)
    run := fun s _ _ => (s + 1, if s = 0 then .error (kw "boom") else .complete 1)
    engine := fun _ => []
    cmd := fun s _ => (s, .exit 0 [])
    subst := fun _ s => .ok s
    regexMatch := fun _ _ => false
    hash := fun s => s }
def exRec : Rec := .statement 1 [] .dflt (kw "insert") .ok (some ⟨3, ⟨0, 0⟩⟩)
def exW : World Nat := { db := 0 }
example : verdictAt exEnv ⟨[], false⟩ exRec ⟨0, 0⟩ exW 0 ≠ .pass ∧
    verdictAt exEnv ⟨[], false⟩ exRec ⟨0, 0⟩ exW 1 = .pass := by decide
example : (runRecord exEnv ⟨[], false⟩ exW exRec).2 = .pass ∧
    (runRecord exEnv ⟨[], false⟩ exW exRec).1.trace =
      [.make 0 true, .run 0 (kw "insert"), .sleep ⟨0, 0⟩, .run 0 (kw "insert")] := by decide
end Example

end Slt.C09
