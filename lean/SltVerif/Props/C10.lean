/-
C10 — rowsort / valuesort make the verdict order-independent; nosort keeps order.

Theorems about `Slt.applySort` / `Slt.shape` (runner.rs 871-892) and the verdict computed from the
shaped rows, for all row lists (no bound on size), all hash functions, thresholds, result modes.
-/
import SltVerif.Runner
namespace Slt.C10
open Slt

theorem rowLe_trans : ∀ a b c : Row, rowLe a b = true → rowLe b c = true → rowLe a c = true := by
  intro a b c; simp [rowLe]; exact List.le_trans
theorem rowLe_total : ∀ a b : Row, (rowLe a b || rowLe b a) = true := by
  intro a b; simp [rowLe]; exact List.le_total a b

/-- The compared sequence under rowsort is ascending in the byte-wise order … -/
theorem sortRows_sorted (rows : List Row) :
    (sortRows rows).Pairwise (fun a b => rowLe a b = true) :=
  List.pairwise_mergeSort rowLe_trans rowLe_total rows

/-- … and a permutation of what the database returned. -/
theorem sortRows_perm (rows : List Row) : (sortRows rows).Perm rows :=
  List.mergeSort_perm rows rowLe

/-- The ascending arrangement of a multiset of rows is unique: sorting is invariant under any
reordering of its input (so Rust's `sort_unstable` is the same function as the model's sort). -/
theorem sortRows_perm_inv (l₁ l₂ : List Row) (h : l₁.Perm l₂) : sortRows l₁ = sortRows l₂ := by
  apply List.Perm.eq_of_pairwise (le := fun a b => rowLe a b = true)
  · intro a b _ _ hab hba
    simp [rowLe] at hab hba
    exact List.le_antisymm hab hba
  · exact sortRows_sorted l₁
  · exact sortRows_sorted l₂
  · exact (sortRows_perm l₁).trans (h.trans (sortRows_perm l₂).symm)

/-- **rowsort**: any reordering of the rows gives the same shaped result (full rows or digest). -/
theorem rowsort_perm (hash : Str → Str) (thr : Nat) (l₁ l₂ : List Row) (h : l₁.Perm l₂) :
    shape hash thr (some .rowsort) l₁ = shape hash thr (some .rowsort) l₂ := by
  simp [shape, applySort, sortRows_perm_inv l₁ l₂ h]

/-- **valuesort**: any reordering of the individual values gives the same shaped result. -/
theorem valuesort_perm (hash : Str → Str) (thr : Nat) (l₁ l₂ : List Row)
    (h : l₁.flatten.Perm l₂.flatten) :
    shape hash thr (some .valuesort) l₁ = shape hash thr (some .valuesort) l₂ := by
  have hp : (flattenValues l₁).Perm (flattenValues l₂) := by
    unfold flattenValues; exact h.map _
  simp [shape, applySort, sortRows_perm_inv _ _ hp]

/-- The verdict of a query whose answer is `rows` with column types `types`. -/
def queryVerdict (hash : Str → Str) (thr : Nat) (fileSort : Option SortMode) (c : JCfg)
    (exp : QExp) (types : List ColT) (rows : List Row) : Verdict :=
  judgeQuery c exp (.query types (shape hash thr (effectiveSort (querySort exp) fileSort) rows) none)

/-- Order-independence of the verdict under an effective `rowsort`. -/
theorem verdict_rowsort_perm (hash : Str → Str) (thr : Nat) (fs : Option SortMode) (c : JCfg)
    (exp : QExp) (types : List ColT) (l₁ l₂ : List Row) (h : l₁.Perm l₂)
    (hm : effectiveSort (querySort exp) fs = some .rowsort) :
    queryVerdict hash thr fs c exp types l₁ = queryVerdict hash thr fs c exp types l₂ := by
  simp [queryVerdict, hm, rowsort_perm hash thr l₁ l₂ h]

/-- Order-independence of the verdict under an effective `valuesort`. -/
theorem verdict_valuesort_perm (hash : Str → Str) (thr : Nat) (fs : Option SortMode) (c : JCfg)
    (exp : QExp) (types : List ColT) (l₁ l₂ : List Row) (h : l₁.flatten.Perm l₂.flatten)
    (hm : effectiveSort (querySort exp) fs = some .valuesort) :
    queryVerdict hash thr fs c exp types l₁ = queryVerdict hash thr fs c exp types l₂ := by
  simp [queryVerdict, hm, valuesort_perm hash thr l₁ l₂ h]

/-- **Precedence**: a mode written on the query wins, the file-level mode applies otherwise. -/
theorem sortmode_resolution (q f : Option SortMode) :
    effectiveSort q f = (match q with | some m => some m | none => f) := by
  cases q <;> rfl

theorem query_nosort_overrides (f : Option SortMode) :
    effectiveSort (some .nosort) f = some .nosort := rfl

/-- **nosort keeps order**: with no sorting in force and no hashing, the compared rows are the
database's rows in the database's order … -/
theorem nosort_shape (hash : Str → Str) (m : Option SortMode) (rows : List Row)
    (hm : m = none ∨ m = some .nosort) : shape hash 0 m rows = rows := by
  rcases hm with rfl | rfl <;> simp [shape, applySort]

/-- … and an answer whose normalised row sequence differs from the expected one fails with a
result mismatch (when the column check passes). -/
theorem nosort_order (hash : Str → Str) (fs : Option SortMode) (c : JCfg) (types et : List ColT)
    (so : Option SortMode) (rm : Option ResultMode) (lb : Option Str) (eres : List Str)
    (rows : List Row)
    (hm : effectiveSort so fs = none ∨ effectiveSort so fs = some .nosort)
    (hcol : columnsOk c.strictCols types et = true)
    (hdiff : (applyResultMode c.resultMode rows).map (fun r => joinSp (r.map normalize)) ≠
      eres.map normalize) :
    queryVerdict hash 0 fs c (.results et so rm lb eres) types rows =
      .fail .resultMismatch (joinNl (rows.map joinSp)) := by
  simp [queryVerdict, querySort, nosort_shape hash _ rows hm, judgeQuery, hcol, defaultValidator, hdiff]

/-- Conversely the verdict under nosort is `pass` exactly when the normalised sequences agree. -/
theorem nosort_pass_iff (hash : Str → Str) (fs : Option SortMode) (c : JCfg) (types et : List ColT)
    (so : Option SortMode) (rm : Option ResultMode) (lb : Option Str) (eres : List Str)
    (rows : List Row)
    (hm : effectiveSort so fs = none ∨ effectiveSort so fs = some .nosort)
    (hcol : columnsOk c.strictCols types et = true) :
    queryVerdict hash 0 fs c (.results et so rm lb eres) types rows = .pass ↔
      (applyResultMode c.resultMode rows).map (fun r => joinSp (r.map normalize)) =
        eres.map normalize := by
  simp only [queryVerdict, querySort, nosort_shape hash _ rows hm, judgeQuery, hcol, defaultValidator]
  by_cases h : (applyResultMode c.resultMode rows).map (fun r => joinSp (r.map normalize)) =
      eres.map normalize <;> simp [h]

/-- Tie to the runner: when the database answers a (non-skipped) query with rows, the output the
judge sees is exactly `shape` of those rows under the effective mode. -/
theorem applyQuery_rows {σ : Type} (E : Env σ) (cfg : RCfg) (w : World σ) (conds : List Cond)
    (conn : Conn) (sql : Str) (exp : QExp) (k : Nat) (sql' : Str) (types : List ColT)
    (rows : List Row) (db' : σ)
    (hconn : (getConn E w conn).2 = .ok k)
    (hskip : shouldSkip cfg.labels (E.engine k) conds = false)
    (hsub : maySubstitute E (getConn E w conn).1 true sql = .ok sql')
    (hrun : E.run (getConn E w conn).1.db k sql' = (db', .rows types rows)) :
    (applyQuery E cfg w conds conn sql exp).2 =
      .query types (shape E.hash (getConn E w conn).1.threshold
        (effectiveSort (querySort exp) (getConn E w conn).1.sortMode) rows) none := by
  simp [applyQuery, hconn, hskip, hsub, hrun]

-- Non-vacuity: a permuted answer, equal verdicts under rowsort, different under nosort.
-- (executable test of the sort; `mergeSort` is defined by well-founded recursion and does not
-- reduce in the kernel, so this is a `#guard`, not a theorem)
#guard sortRows [[kw "b"], [kw "a"], [kw "B"]] = [[kw "B"], [kw "a"], [kw "b"]]
example : shape id 0 (some .rowsort) [[kw "b"], [kw "a"]] = shape id 0 (some .rowsort) [[kw "a"], [kw "b"]] :=
  rowsort_perm id 0 _ _ (List.Perm.swap _ _ _)
example : ([[kw "b"], [kw "a"]] : List Row).Perm [[kw "a"], [kw "b"]] :=
  List.Perm.swap _ _ _

end Slt.C10
