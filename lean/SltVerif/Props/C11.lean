/-
C11 — skipif / onlyif decide execution exactly by label membership.

Theorems about `Slt.shouldSkip` (runner.rs 654-668, parser.rs 534-542) and the skip branches of
`applyStatement` / `applyQuery` / `applySystem`, for all guard lists, label sets, records,
environments. (That guards attach to the next statement|query|system only is part of the parser
theorem of C03: `Slt.C03.guards_attach`.)
-/
import SltVerif.Runner
namespace Slt.C11
open Slt

/-- what a guard demands of the label set -/
def admits (S : List Str) : Cond → Prop
  | .onlyIf l => l ∈ S
  | .skipIf l => l ∉ S

/-- The label set a guard is evaluated against: the runner's labels plus the engine name when
it is non-empty. -/
theorem mem_labelSet (labels : List Str) (engine l : Str) :
    l ∈ labelSet labels engine ↔ l ∈ labels ∨ (engine ≠ [] ∧ l = engine) := by
  unfold labelSet
  cases engine with
  | nil => simp
  | cons c cs => simp

theorem shouldSkip_one (S : List Str) (c : Cond) : c.shouldSkip S = false ↔ admits S c := by
  cases c <;> simp [Cond.shouldSkip, admits]

/-- **A record runs iff every guard admits the label set** (skipped as soon as one says so). -/
theorem runs_iff (labels : List Str) (engine : Str) (conds : List Cond) :
    shouldSkip labels engine conds = false ↔ ∀ g ∈ conds, admits (labelSet labels engine) g := by
  unfold shouldSkip
  rw [Bool.eq_false_iff, Ne, List.any_eq_true]
  constructor
  · intro h g hg
    rw [← shouldSkip_one]
    cases hs : g.shouldSkip (labelSet labels engine) with
    | false => rfl
    | true => exact absurd ⟨g, hg, hs⟩ h
  · rintro h ⟨g, hg, hs⟩
    have := (shouldSkip_one _ g).mpr (h g hg)
    rw [hs] at this; cases this

variable {σ : Type}

/-- the events a record execution may add that the property forbids for a skipped record -/
def isEffect : Ev → Bool
  | .run .. => true
  | .cmd _ => true
  | .sleep _ => true
  | _ => false

theorem getConn_no_effect (E : Env σ) (w : World σ) (c : Conn) :
    ∃ t, (getConn E w c).1.trace = w.trace ++ t ∧ ∀ e ∈ t, isEffect e = false := by
  unfold getConn
  split
  · exact ⟨[], by simp⟩
  · cases h : (E.make w.db w.makes).2 with
    | some msg => exact ⟨[.make w.makes false], by simp [h, isEffect]⟩
    | none => exact ⟨[.make w.makes true], by simp [h, isEffect]⟩

/-- **A skipped statement is silent**: no output, no SQL reaches any session, no command, no
sleep — whatever its expectation and whatever substitution would have done to its text. -/
theorem skipped_statement (E : Env σ) (cfg : RCfg) (w : World σ) (conds : List Cond) (conn : Conn)
    (sql : Str) (k : Nat) (hconn : (getConn E w conn).2 = .ok k)
    (hskip : shouldSkip cfg.labels (E.engine k) conds = true) :
    applyStatement E cfg w conds conn sql = ((getConn E w conn).1, .nothing) := by
  simp [applyStatement, hconn, hskip]

theorem skipped_query (E : Env σ) (cfg : RCfg) (w : World σ) (conds : List Cond) (conn : Conn)
    (sql : Str) (exp : QExp) (k : Nat) (hconn : (getConn E w conn).2 = .ok k)
    (hskip : shouldSkip cfg.labels (E.engine k) conds = true) :
    applyQuery E cfg w conds conn sql exp = ((getConn E w conn).1, .nothing) := by
  simp [applyQuery, hconn, hskip]

/-- A skipped system record leaves the world untouched (the engine name does not count for
`system`). -/
theorem skipped_system (E : Env σ) (cfg : RCfg) (w : World σ) (conds : List Cond) (cmd : Str)
    (out : Option Str) (hskip : shouldSkip cfg.labels [] conds = true) :
    applySystem E cfg w conds cmd out = (w, .nothing) := by
  simp [applySystem, hskip]

/-- **A skipped record cannot fail**: output `nothing` is judged `pass` for every record. -/
theorem nothing_passes (c : JCfg) (r : Rec) : judge c r .nothing = .pass := rfl

/-- Whole-record statement: a statement whose guards reject the label set passes, and the trace
grows by at most the (effect-free) opening of its session. -/
theorem skipped_statement_run (E : Env σ) (cfg : RCfg) (w : World σ) (line : Nat)
    (conds : List Cond) (conn : Conn) (sql : Str) (exp : SExp) (k : Nat)
    (hconn : (getConn E w conn).2 = .ok k)
    (hskip : shouldSkip cfg.labels (E.engine k) conds = true) :
    (runNoRetry E cfg w (.statement line conds conn sql exp none)).2 = .pass ∧
    ∃ t, (runNoRetry E cfg w (.statement line conds conn sql exp none)).1.trace = w.trace ++ t ∧
      ∀ e ∈ t, isEffect e = false := by
  simp only [runNoRetry, applyRecord, skipped_statement E cfg w conds conn sql k hconn hskip]
  exact ⟨rfl, getConn_no_effect E w conn⟩

/-- Conversely, an admitted statement does reach its session with its (substituted) text. -/
theorem admitted_statement_runs (E : Env σ) (cfg : RCfg) (w : World σ) (conds : List Cond)
    (conn : Conn) (sql sql' : Str) (k : Nat) (hconn : (getConn E w conn).2 = .ok k)
    (hskip : shouldSkip cfg.labels (E.engine k) conds = false)
    (hsub : maySubstitute E (getConn E w conn).1 true sql = .ok sql') :
    (applyStatement E cfg w conds conn sql).1.trace =
      (getConn E w conn).1.trace ++ [.run k sql'] := by
  simp [applyStatement, hconn, hskip, hsub]

-- Non-vacuity
example : shouldSkip [kw "pg"] (kw "mock") [.onlyIf (kw "mock"), .skipIf (kw "duck")] = false := by
  decide
example : shouldSkip [kw "pg"] [] [.onlyIf (kw "mock")] = true := by decide

end Slt.C11
