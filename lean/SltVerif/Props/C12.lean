/-
C12 — `connection NAME` routes only the next record; sessions are isolated and closed.

Theorems about `Slt.getConn` / `Slt.lookupConn` / `Slt.shutdownAll` (model of
`Connections::{get, shutdown_all}`, connection.rs 52-76) and about the parser's handling of the
pending connection (parser.rs 771-775, 819, 906), for all names, scripts and environments.
-/
import SltVerif.Runner
import SltVerif.Parser
namespace Slt.C12
open Slt

variable {σ : Type}

/-- `default` names the default session; every other name is its own session (case-sensitive:
names are compared by equality of their characters). -/
theorem mkConn_injective (a b : Str) (h : mkConn a = mkConn b) : a = b := by
  unfold mkConn at h
  by_cases ha : a = kw "default" <;> by_cases hb : b = kw "default" <;> simp_all

theorem mkConn_default : mkConn (kw "default") = .dflt := by decide
example : mkConn (kw "Default") ≠ mkConn (kw "default") := by decide
example : mkConn (kw "a") ≠ mkConn (kw "A") := by decide

/-- **Reuse**: a name already bound is routed to its session; no connection is made. -/
theorem getConn_existing (E : Env σ) (w : World σ) (c : Conn) (k : Nat)
    (h : lookupConn w.conns c = some k) : getConn E w c = (w, .ok k) := by
  simp [getConn, h]

theorem lookupConn_append (l : List (Conn × Nat)) (c c' : Conn) (k : Nat) :
    lookupConn (l ++ [(c', k)]) c =
      match lookupConn l c with
      | some j => some j
      | none => if c' = c then some k else none := by
  induction l with
  | nil => simp [lookupConn]
  | cons p l ih =>
    obtain ⟨c0, k0⟩ := p
    simp only [List.cons_append, lookupConn]
    split
    · rfl
    · exact ih

/-- **Create on first use**: an unbound name makes exactly one connection (numbered by the call
count), binds it, and the next use of the same name reuses it. -/
theorem getConn_fresh (E : Env σ) (w : World σ) (c : Conn)
    (h : lookupConn w.conns c = none) (hok : (E.make w.db w.makes).2 = none) :
    (getConn E w c).2 = .ok w.makes ∧
    (getConn E w c).1.trace = w.trace ++ [.make w.makes true] ∧
    (getConn E w c).1.makes = w.makes + 1 ∧
    lookupConn (getConn E w c).1.conns c = some w.makes := by
  simp [getConn, h, hok, lookupConn_append]

/-- a failed connection attempt binds nothing: the next use tries again -/
theorem getConn_failed (E : Env σ) (w : World σ) (c : Conn) (msg : Str)
    (h : lookupConn w.conns c = none) (hfail : (E.make w.db w.makes).2 = some msg) :
    (getConn E w c).2 = .error msg ∧ (getConn E w c).1.conns = w.conns ∧
    (getConn E w c).1.trace = w.trace ++ [.make w.makes false] := by
  simp [getConn, h, hfail]

/-- **Isolation of routing**: using one name never changes the session another name is bound to. -/
theorem getConn_other (E : Env σ) (w : World σ) (c c' : Conn) (hne : c' ≠ c) :
    lookupConn (getConn E w c).1.conns c' = lookupConn w.conns c' := by
  unfold getConn
  split
  · rfl
  · cases hm : (E.make w.db w.makes).2 with
    | some msg => simp [hm]
    | none =>
      simp only [hm, lookupConn_append]
      cases lookupConn w.conns c' <;> simp [Ne.symm hne]

/-- **Route**: an executed statement reaches exactly the session bound to its connection name. -/
theorem route_statement (E : Env σ) (cfg : RCfg) (w : World σ) (conds : List Cond) (conn : Conn)
    (sql sql' : Str) (k : Nat) (hconn : (getConn E w conn).2 = .ok k)
    (hskip : shouldSkip cfg.labels (E.engine k) conds = false)
    (hsub : maySubstitute E (getConn E w conn).1 true sql = .ok sql') :
    (applyStatement E cfg w conds conn sql).1.trace = (getConn E w conn).1.trace ++ [.run k sql'] ∧
    lookupConn (getConn E w conn).1.conns conn = some k := by
  constructor
  · simp [applyStatement, hconn, hskip, hsub]
  · unfold getConn at hconn ⊢
    split at hconn
    · rename_i k' hk
      simp only [hk]
      injection hconn with hconn; subst hconn; rfl
    · rename_i hnone
      cases hm : (E.make w.db w.makes).2 with
      | some msg => simp [hm] at hconn
      | none =>
        simp only [hm] at hconn ⊢
        injection hconn with hconn; subst hconn
        simp [hnone, lookupConn_append]

/-! ### every session that was opened is closed exactly once -/

def madeOk : List Ev → List Nat
  | [] => []
  | .make i true :: t => i :: madeOk t
  | _ :: t => madeOk t

theorem madeOk_append (a b : List Ev) : madeOk (a ++ b) = madeOk a ++ madeOk b := by
  induction a with
  | nil => rfl
  | cons e a ih =>
    cases e <;> simp only [List.cons_append, madeOk, ih]
    case make i ok => cases ok <;> simp [madeOk, ih]

/-- invariant: the bound sessions are exactly the successfully made connections, in order -/
def Inv (w : World σ) : Prop := w.conns.map (·.2) = madeOk w.trace

theorem getConn_inv (E : Env σ) (w : World σ) (c : Conn) (h : Inv w) : Inv (getConn E w c).1 := by
  unfold getConn
  split
  · exact h
  · cases hm : (E.make w.db w.makes).2 with
    | some msg => simp only [hm, Inv, madeOk_append, madeOk]; simpa [Inv] using h
    | none => simp only [hm, Inv, madeOk_append, madeOk, List.map_append]; simp [Inv] at h; simp [h]

theorem inv_log (w : World σ) (e : Ev) (he : ∀ i, e ≠ .make i true) (h : Inv w) :
    Inv { w with trace := w.trace ++ [e] } := by
  simp only [Inv, madeOk_append]
  unfold Inv at h
  cases e with
  | make i ok =>
    cases ok
    · simpa [madeOk] using h
    · exact absurd rfl (he i)
  | run k sql => simpa [madeOk] using h
  | cmd t => simpa [madeOk] using h
  | sleep d => simpa [madeOk] using h
  | shutdown k => simpa [madeOk] using h

theorem applyRecord_inv (E : Env σ) (cfg : RCfg) (w : World σ) (r : Rec) (h : Inv w) :
    Inv (applyRecord E cfg w r).1 := by
  cases r <;> simp only [applyRecord, World.log] <;> try exact h
  case statement l conds conn sql exp rt =>
    simp only [applyStatement]
    have hg := getConn_inv E w conn h
    split
    · exact hg
    · split
      · exact hg
      · split
        · exact hg
        · exact inv_log _ _ (by intro i h; cases h) hg
  case query l conds conn sql exp rt =>
    simp only [applyQuery]
    have hg := getConn_inv E w conn h
    split
    · exact hg
    · split
      · exact hg
      · split
        · exact hg
        · split <;> exact inv_log _ _ (by intro i h; cases h) hg
  case system l conds cmd out rt =>
    simp only [applySystem]
    split
    · exact h
    · split
      · exact h
      · split
        · exact h
        · split
          · exact inv_log _ _ (by intro i h; cases h) h
          · split <;> exact inv_log _ _ (by intro i h; cases h) h
          · exact inv_log _ _ (by intro i h; cases h) h
  case sleep l d => exact inv_log _ _ (by intro i h; cases h) h
  case control c => cases c <;> exact h

theorem runRecord_inv (E : Env σ) (cfg : RCfg) (w : World σ) (r : Rec) (h : Inv w) :
    Inv (runRecord E cfg w r).1 := by
  unfold runRecord
  cases r.retry? with
  | none => exact applyRecord_inv E cfg w r h
  | some rt =>
    simp only []
    have : ∀ (n : Nat) (w : World σ) (last : Verdict), Inv w →
        Inv (retryLoop E cfg r rt.backoff n w last).1 := by
      intro n
      induction n with
      | zero => intro w last h; exact h
      | succ n ih =>
        intro w last h
        simp only [retryLoop]
        have h1 : Inv (runNoRetry E cfg w r).1 := applyRecord_inv E cfg w r h
        split
        · exact h1
        · exact ih _ _ (inv_log _ _ (by intro i h; cases h) h1)
    exact this _ w _ h

theorem runMulti_inv (E : Env σ) (cfg : RCfg) :
    ∀ (rs : List Rec) (w : World σ), Inv w → Inv (runMulti E cfg w rs).1 := by
  intro rs
  induction rs with
  | nil => intro w h; exact h
  | cons r rs ih =>
    intro w h
    simp only [runMulti]
    split
    · exact h
    · have h1 := runRecord_inv E cfg w r h
      split
      · exact ih _ h1
      · exact h1
      · exact h1

/-- **Shutdown closes every session that was opened, exactly once**: after any script run from
a fresh runner, the shutdown events are exactly the successfully made connections. -/
theorem shutdown_all (E : Env σ) (cfg : RCfg) (rs : List Rec) (db : σ) :
    let w := runMulti E cfg { db := db } rs
    (shutdownAll w.1).trace = w.1.trace ++ (madeOk w.1.trace).map Ev.shutdown := by
  have h : Inv (runMulti E cfg ({ db := db } : World σ) rs).1 :=
    runMulti_inv E cfg rs _ (by simp [Inv, madeOk])
  simp only [shutdownAll]
  rw [← h]
  simp

/-! ### the parser consumes the pending connection at the next statement | query only -/

theorem startStmt_conn (s : PState) (n : Nat) (e : SExp) (r : Option Retry) :
    (startStmt s n e r).conn = .dflt ∧
    (startStmt s n e r).mode = .sqlFirst (.stmt n s.conds s.conn e r) := ⟨rfl, rfl⟩

theorem startQuery_conn (s : PState) (n : Nat) (e : QExp) (r : Option Retry) :
    (startQuery s n e r).conn = .dflt ∧
    (startQuery s n e r).mode = .sqlFirst (.query n s.conds s.conn e r) := ⟨rfl, rfl⟩

/-- a `system` record neither uses nor consumes the pending connection -/
theorem startSystem_conn (s : PState) (n : Nat) (r : Option Retry) :
    (startSystem s n r).conn = s.conn := rfl

theorem setConn_conn (s : PState) (c : Conn) : (setConn s c).conn = c := rfl

end Slt.C12
