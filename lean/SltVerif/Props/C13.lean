/-
C13 — substitution.

"With substitution off (the default) SQL and commands reach the database and the shell unchanged,
dollar signs and backslashes included.  After `control substitution on`, `$VAR`, `${VAR}`,
`${VAR:default}` (defaults may nest), `\$` and `\\` in SQL are replaced as documented, runner-local
variables taking precedence over the process environment, inserted values are neither re-expanded
nor re-escaped, and an undefined variable without default fails that record instead of reaching the
database; system commands get only the special and runner-local variables replaced and are otherwise
left to the shell.  `$__TEST_DIR__` names one existing directory that is the same for all records of a
runner, differs between runners, and is removed when the runner is dropped."

Model: `Subst.lean` (the `subst` 0.3.7 crate and `substitution.rs`, on bytes), `Runner.lean`.
Spec: `SubstSpec.lean` (`Piece`, `render`, `eval`, `WFt`, `normalizeTpl`, `ImplementsSubst`, test-directory
state machine).  Lemmas: `Lemmas/Subst{Find,Scan,Parse,Sim,Misc,Norm}.lean`.
-/
import SltVerif.Lemmas.SubstMisc
import SltVerif.Lemmas.SubstNorm
import SltVerif.Lemmas.SubstExamples
namespace Slt.C13
open Slt

variable {σ : Type}

/-! ### 1–2. the parser and the expander implement the documented grammar -/

/-- **`find_closing_brace` returns the variable's own closing brace**: on `${NAME:default}rest`,
for a well-formed default of any nesting depth and whatever follows. -/
theorem closing_brace (n : Bytes) (d : List Piece) (rest : Bytes)
    (hn : n.all isNameByte = true) (hd : WFt true d) :
    let h := bDollar :: bLBrace :: (n ++ bColon :: (render d ++ bRBrace :: rest))
    findClosing h (h.length + 1) 0 0 = some (3 + n.length + (render d).length) :=
  findClosing_default n d rest hn hd _ (Nat.lt_succ_self _)

/-- **`Template::parse` inverts `render`** on well-formed templates: the parts it returns are the
template's pieces (nesting depth unbounded), for every amount of fuel above the text length
(so in particular the fuel `length + 1` used by `substFull` is enough, and more changes nothing). -/
theorem parse_show (t : List Piece) (inDefault : Bool) (h : WFt inDefault t) (fuel : Nat)
    (hfuel : (render t).length < fuel) :
    parseTemplate fuel (render t) = .ok (toParts t) :=
  parse_render t inDefault fuel h hfuel

/-- `Template::expand` of the parsed parts is the meaning of the template. -/
theorem expand_eval (get : Bytes → Option Bytes) (t : List Piece) :
    expandParts get (toParts t) = eval get t :=
  expandParts_toParts get t

/-- **`subst_show`**: for every variable map, `subst::substitute` applied to the concrete syntax of
a well-formed template yields the template's documented meaning (value or error). -/
theorem subst_show (get : Bytes → Option Bytes) (t : List Piece) (h : WFt false t) :
    substFull get (render t) = eval get t :=
  substFull_render get t false h

/-- the same for templates satisfying the stricter conditions for defaults -/
theorem subst_show_default (get : Bytes → Option Bytes) (t : List Piece) (h : WFt true t) :
    substFull get (render t) = eval get t :=
  substFull_render get t true h

/-- The conditions "literal pieces are non-empty and not adjacent" are a normal form only:
`normalizeTpl` establishes them without changing the text or the meaning, so the theorem holds for
every template whose normal form is well-formed. -/
theorem subst_show_normalize (get : Bytes → Option Bytes) (t : List Piece)
    (h : WFt false (normalizeTpl t)) :
    substFull get (render t) = eval get t := by
  rw [← render_normalizeTpl t, ← eval_normalizeTpl get t]
  exact substFull_render get _ false h

/-- `normalizeTpl` changes neither text nor meaning and yields literals that are non-empty and not
adjacent (conditions W2, W3 of `WFt`), at every nesting level. -/
theorem normal_form_harmless (get : Bytes → Option Bytes) (t : List Piece) :
    render (normalizeTpl t) = render t ∧ eval get (normalizeTpl t) = eval get t ∧
    litNormal (normalizeTpl t) = true :=
  ⟨render_normalizeTpl t, eval_normalizeTpl get t, litNormal_normalizeTpl t⟩

/-- with the runner's variables: what `Substitution::substitute` does to SQL -/
theorem substitute_sql (v : VarEnv) (t : List Piece) (h : WFt false t) :
    substitute v true (render t) = eval v.get t := by
  simp only [substitute, ↓reduceIte]
  exact substFull_render v.get t false h

/-! ### 3. substitution off: identity -/

/-- **`off_identity`** -/
theorem off_identity (E : Env σ) (w : World σ) (full : Bool) (s : Str) (h : w.substOn = false) :
    maySubstitute E w full s = .ok s := by
  simp [maySubstitute, h]

/-- the default is off -/
theorem off_by_default (db : σ) : ({ db := db } : World σ).substOn = false := rfl

/-- `control substitution on|off` sets the switch (and produces no effect and no output) -/
theorem control_substitution (E : Env σ) (cfg : RCfg) (w : World σ) (b : Bool) :
    applyRecord E cfg w (.control (.substitution b)) = ({ w with substOn := b }, .nothing) := rfl

/-- With substitution off an executed statement sends the record's SQL text unchanged
(whatever `E.subst` would do with it). -/
theorem off_statement_verbatim (E : Env σ) (cfg : RCfg) (w : World σ) (conds : List Cond)
    (conn : Conn) (sql : Str) (k : Nat) (hconn : (getConn E w conn).2 = .ok k)
    (hskip : shouldSkip cfg.labels (E.engine k) conds = false) (hoff : w.substOn = false) :
    (applyStatement E cfg w conds conn sql).1.trace =
      (getConn E w conn).1.trace ++ [.run k sql] := by
  have hoff' : (getConn E w conn).1.substOn = false := by rw [getConn_substOn]; exact hoff
  simp [applyStatement, hconn, hskip, maySubstitute, hoff']

theorem off_query_verbatim (E : Env σ) (cfg : RCfg) (w : World σ) (conds : List Cond)
    (conn : Conn) (sql : Str) (exp : QExp) (k : Nat) (hconn : (getConn E w conn).2 = .ok k)
    (hskip : shouldSkip cfg.labels (E.engine k) conds = false) (hoff : w.substOn = false) :
    (applyQuery E cfg w conds conn sql exp).1.trace =
      (getConn E w conn).1.trace ++ [.run k sql] := by
  have hoff' : (getConn E w conn).1.substOn = false := by rw [getConn_substOn]; exact hoff
  simp only [applyQuery, hconn, hskip, maySubstitute, hoff', Bool.false_eq_true, ↓reduceIte]
  cases (E.run (getConn E w conn).1.db k sql).2 <;> rfl

/-- With substitution off a system command that is run (not skipped, not backgrounded) is handed
to the shell unchanged. -/
theorem off_system_verbatim (E : Env σ) (cfg : RCfg) (w : World σ) (conds : List Cond)
    (command : Str) (expStdout : Option Str) (hskip : shouldSkip cfg.labels [] conds = false)
    (hbg : isBackground command = false) (hoff : w.substOn = false) :
    (applySystem E cfg w conds command expStdout).1.trace = w.trace ++ [.cmd command] := by
  simp only [applySystem, hskip, maySubstitute, hoff, Bool.false_eq_true, ↓reduceIte, hbg]
  cases (E.cmd w.db command).2 with
  | spawnErr => rfl
  | signal sig out => rfl
  | exit code out => by_cases hc : code = 0 <;> simp [hc]

/-! ### 4. lookup order: special names, runner locals, environment -/

theorem special_first_testDir (v : VarEnv) : v.get (bytesOfString "__TEST_DIR__") = some v.testDir := by
  simp [VarEnv.get]

theorem special_first_now (v : VarEnv) : v.get (bytesOfString "__NOW__") = some v.now := by
  have : bytesOfString "__NOW__" ≠ bytesOfString "__TEST_DIR__" := by decide +kernel
  simp [VarEnv.get, this]

/-- **`locals_shadow_env`**: a runner-local variable wins, whatever the environment holds -/
theorem locals_shadow_env (v : VarEnv) (k x : Bytes) (hl : lookupB v.locals k = some x)
    (h1 : k ≠ bytesOfString "__TEST_DIR__") (h2 : k ≠ bytesOfString "__NOW__") :
    v.get k = some x := by
  simp [VarEnv.get, h1, h2, hl]

/-- in particular the result does not depend on the environment -/
theorem locals_shadow_env' (v : VarEnv) (env' : List (Bytes × Bytes)) (k x : Bytes)
    (hl : lookupB v.locals k = some x) :
    ({ v with env := env' } : VarEnv).get k = v.get k := by
  simp only [VarEnv.get, hl]

theorem env_fallback (v : VarEnv) (k : Bytes) (hl : lookupB v.locals k = none)
    (h1 : k ≠ bytesOfString "__TEST_DIR__") (h2 : k ≠ bytesOfString "__NOW__") :
    v.get k = lookupB v.env k := by
  simp [VarEnv.get, h1, h2, hl]

/-! ### 5. a failing substitution fails the record; nothing reaches the database -/

/-- If substitution is on and fails for the SQL text, the statement's world is the one after
connection lookup: no `run` event, database state untouched — in every case (connection failure,
skipped, or not). -/
theorem failed_subst_no_run (E : Env σ) (cfg : RCfg) (w : World σ) (conds : List Cond)
    (conn : Conn) (sql msg : Str) (hon : w.substOn = true) (hfail : E.subst true sql = .error msg) :
    (applyStatement E cfg w conds conn sql).1 = (getConn E w conn).1 := by
  have hon' : (getConn E w conn).1.substOn = true := by rw [getConn_substOn]; exact hon
  simp only [applyStatement]
  split
  · rfl
  · split
    · rfl
    · simp [maySubstitute, hon', hfail]

theorem failed_subst_no_run_query (E : Env σ) (cfg : RCfg) (w : World σ) (conds : List Cond)
    (conn : Conn) (sql msg : Str) (exp : QExp) (hon : w.substOn = true)
    (hfail : E.subst true sql = .error msg) :
    (applyQuery E cfg w conds conn sql exp).1 = (getConn E w conn).1 := by
  have hon' : (getConn E w conn).1.substOn = true := by rw [getConn_substOn]; exact hon
  simp only [applyQuery]
  split
  · rfl
  · split
    · rfl
    · simp [maySubstitute, hon', hfail]

/-- … and the record's output is the substitution error. -/
theorem failed_subst_output (E : Env σ) (cfg : RCfg) (w : World σ) (conds : List Cond)
    (conn : Conn) (sql msg : Str) (k : Nat) (hconn : (getConn E w conn).2 = .ok k)
    (hskip : shouldSkip cfg.labels (E.engine k) conds = false)
    (hon : w.substOn = true) (hfail : E.subst true sql = .error msg) :
    (applyStatement E cfg w conds conn sql).2 = .statement 0 (some msg) := by
  have hon' : (getConn E w conn).1.substOn = true := by rw [getConn_substOn]; exact hon
  simp [applyStatement, hconn, hskip, maySubstitute, hon', hfail]

theorem failed_subst_output_query (E : Env σ) (cfg : RCfg) (w : World σ) (conds : List Cond)
    (conn : Conn) (sql msg : Str) (exp : QExp) (k : Nat) (hconn : (getConn E w conn).2 = .ok k)
    (hskip : shouldSkip cfg.labels (E.engine k) conds = false)
    (hon : w.substOn = true) (hfail : E.subst true sql = .error msg) :
    (applyQuery E cfg w conds conn sql exp).2 = .query [] [] (some msg) := by
  have hon' : (getConn E w conn).1.substOn = true := by rw [getConn_substOn]; exact hon
  simp [applyQuery, hconn, hskip, maySubstitute, hon', hfail]

/-- an undefined variable without default makes `eval` fail, wherever it stands at top level
(the pieces before it evaluate, the pieces after it are irrelevant) -/
theorem eval_undefined (get : Bytes → Option Bytes) (pre post : List Piece) (n : Bytes) (b : Bool)
    (a : Bytes) (hpre : eval get pre = .ok a) (hn : get n = none) :
    eval get (pre ++ .var n b none :: post) = .error (.noSuchVar n) := by
  rw [eval_append, hpre, eval_cons, evalPiece_undefined get n b hn]

/-- **`undefined_fails`** (statement): in an environment whose `subst` implements the substitution
model for the variables `v`, with substitution on, a statement whose SQL is the text of a
well-formed template that has no value (e.g. `noSuchVar`) yields an error output carrying that
error, and no `run` event is appended: the text does not reach the database. -/
theorem undefined_fails (E : Env σ) (br : SubstBridge) (v : VarEnv) (hE : ImplementsSubst E br v)
    (cfg : RCfg) (w : World σ) (conds : List Cond) (conn : Conn) (sql : Str) (k : Nat)
    (t : List Piece) (e : SubstErr) (hwf : WFt false t) (henc : br.enc sql = render t)
    (hev : eval v.get t = .error e)
    (hconn : (getConn E w conn).2 = .ok k)
    (hskip : shouldSkip cfg.labels (E.engine k) conds = false) (hon : w.substOn = true) :
    (applyStatement E cfg w conds conn sql).2 = .statement 0 (some (br.msg e)) ∧
    (applyStatement E cfg w conds conn sql).1.trace = (getConn E w conn).1.trace ∧
    (applyStatement E cfg w conds conn sql).1.db = (getConn E w conn).1.db := by
  have hfail : E.subst true sql = .error (br.msg e) := by
    rw [hE true sql, henc, substitute_sql v t hwf, hev]; rfl
  refine ⟨failed_subst_output E cfg w conds conn sql _ k hconn hskip hon hfail, ?_, ?_⟩ <;>
    rw [failed_subst_no_run E cfg w conds conn sql _ hon hfail]

/-- **`undefined_fails`** (query) -/
theorem undefined_fails_query (E : Env σ) (br : SubstBridge) (v : VarEnv)
    (hE : ImplementsSubst E br v)
    (cfg : RCfg) (w : World σ) (conds : List Cond) (conn : Conn) (sql : Str) (exp : QExp) (k : Nat)
    (t : List Piece) (e : SubstErr) (hwf : WFt false t) (henc : br.enc sql = render t)
    (hev : eval v.get t = .error e)
    (hconn : (getConn E w conn).2 = .ok k)
    (hskip : shouldSkip cfg.labels (E.engine k) conds = false) (hon : w.substOn = true) :
    (applyQuery E cfg w conds conn sql exp).2 = .query [] [] (some (br.msg e)) ∧
    (applyQuery E cfg w conds conn sql exp).1.trace = (getConn E w conn).1.trace ∧
    (applyQuery E cfg w conds conn sql exp).1.db = (getConn E w conn).1.db := by
  have hfail : E.subst true sql = .error (br.msg e) := by
    rw [hE true sql, henc, substitute_sql v t hwf, hev]; rfl
  refine ⟨failed_subst_output_query E cfg w conds conn sql _ exp k hconn hskip hon hfail, ?_, ?_⟩ <;>
    rw [failed_subst_no_run_query E cfg w conds conn sql _ exp hon hfail]

/-- The positive counterpart: with substitution on, the text that reaches the session is the
meaning of the template — exactly once, as one `run` event. -/
theorem on_statement_runs_eval (E : Env σ) (br : SubstBridge) (v : VarEnv)
    (hE : ImplementsSubst E br v)
    (cfg : RCfg) (w : World σ) (conds : List Cond) (conn : Conn) (sql : Str) (k : Nat)
    (t : List Piece) (out : Bytes) (hwf : WFt false t) (henc : br.enc sql = render t)
    (hev : eval v.get t = .ok out)
    (hconn : (getConn E w conn).2 = .ok k)
    (hskip : shouldSkip cfg.labels (E.engine k) conds = false) (hon : w.substOn = true) :
    (applyStatement E cfg w conds conn sql).1.trace =
      (getConn E w conn).1.trace ++ [.run k (br.dec out)] := by
  have hon' : (getConn E w conn).1.substOn = true := by rw [getConn_substOn]; exact hon
  have hok : E.subst true sql = .ok (br.dec out) := by
    rw [hE true sql, henc, substitute_sql v t hwf, hev]; rfl
  simp [applyStatement, hconn, hskip, maySubstitute, hon', hok]

/-! ### 6. inserted values are verbatim -/

/-- **`values_verbatim`**: the result for `$n` / `${n}` is exactly the variable's value, even if it
contains `$`, `\`, `{`, `}` — it is neither expanded again nor escaped. -/
theorem values_verbatim (get : Bytes → Option Bytes) (n v : Bytes) (b : Bool)
    (h : get n = some v) : eval get [.var n b none] = .ok v := by
  rw [eval_cons, evalPiece_defined get n b none v h, eval_nil]
  simp

/-- a defined variable ignores its default (which is not even evaluated: it may be erroneous) -/
theorem values_verbatim_default (get : Bytes → Option Bytes) (n v : Bytes) (b : Bool)
    (d : List Piece) (h : get n = some v) : eval get [.var n b (some d)] = .ok v := by
  rw [eval_cons, evalPiece_defined get n b _ v h, eval_nil]
  simp

/-- in context: the value stands between the results of the surrounding pieces, unchanged -/
theorem values_verbatim_ctx (get : Bytes → Option Bytes) (pre post : List Piece) (n v a c : Bytes)
    (b : Bool) (d : Option (List Piece)) (h : get n = some v)
    (hpre : eval get pre = .ok a) (hpost : eval get post = .ok c) :
    eval get (pre ++ .var n b d :: post) = .ok (a ++ v ++ c) := by
  rw [eval_append, hpre, eval_cons, evalPiece_defined get n b d v h, hpost]
  simp

/-- … and this is what the real substitution returns for the text `$n` / `${n}` -/
theorem values_verbatim_subst (get : Bytes → Option Bytes) (n v : Bytes) (b : Bool)
    (hne : n ≠ []) (hn : n.all isNameByte = true) (h : get n = some v) :
    substFull get (render [.var n b none]) = .ok v := by
  have hwf : WFt false [.var n b none] := by
    have : n.isEmpty = false := by cases n <;> simp at hne ⊢
    cases b <;> simp [WFt, wfList, wfPiece, followOk, startsWithNameByte, hn, this]
  rw [subst_show get _ hwf]
  exact values_verbatim get n v b h

/-! ### 7. system commands: simple replacement only -/

/-- **`system_simple`** -/
theorem system_simple (v : VarEnv) (s : Bytes) : substitute v false s = .ok (simpleReplace v s) := by
  simp [substitute]

/-- it never fails -/
theorem system_never_fails (v : VarEnv) (s : Bytes) (e : SubstErr) :
    substitute v false s ≠ .error e := by
  simp [substitute]

/-- `simple_replace` is the identity on a text in which none of `$__TEST_DIR__`, `$__NOW__`,
`$key` (key a runner local) occurs -/
theorem system_identity (v : VarEnv) (s : Bytes)
    (h1 : ¬ (bDollar :: bytesOfString "__TEST_DIR__") <:+: s)
    (h2 : ¬ (bDollar :: bytesOfString "__NOW__") <:+: s)
    (h3 : ∀ kv ∈ v.locals, ¬ (bDollar :: kv.1) <:+: s) : simpleReplace v s = s := by
  apply simpleReplace_noOccur
  intro pat hpat
  simp only [simplePatterns, List.mem_cons, List.mem_map] at hpat
  rcases hpat with rfl | rfl | ⟨kv, hkv, rfl⟩
  · exact h1
  · exact h2
  · exact h3 kv hkv

/-- the process environment plays no role for commands: `$ENVVAR` is left to the shell -/
theorem system_env_ignored (v : VarEnv) (env' : List (Bytes × Bytes)) (s : Bytes) :
    simpleReplace { v with env := env' } s = simpleReplace v s := rfl

/-- a text without `$` is unchanged; escapes (`\\`, `\$`) are not interpreted for commands -/
theorem system_noDollar (v : VarEnv) (s : Bytes) (h : bDollar ∉ s) : simpleReplace v s = s :=
  simpleReplace_noDollar v s h

/-- with substitution on, a system command that is run reaches the shell as `simple_replace`
of the record's text -/
theorem on_system_simple (E : Env σ) (br : SubstBridge) (v : VarEnv) (hE : ImplementsSubst E br v)
    (cfg : RCfg) (w : World σ) (conds : List Cond) (command : Str) (expStdout : Option Str)
    (hskip : shouldSkip cfg.labels [] conds = false)
    (hbg : isBackground (br.dec (simpleReplace v (br.enc command))) = false)
    (hon : w.substOn = true) :
    (applySystem E cfg w conds command expStdout).1.trace =
      w.trace ++ [.cmd (br.dec (simpleReplace v (br.enc command)))] := by
  have hok : E.subst false command = .ok (br.dec (simpleReplace v (br.enc command))) := by
    rw [hE false command, system_simple]; rfl
  simp only [applySystem, hskip, maySubstitute, hon, hok, Bool.false_eq_true, ↓reduceIte, hbg]
  cases (E.cmd w.db (br.dec (simpleReplace v (br.enc command)))).2 with
  | spawnErr => rfl
  | signal sig out => rfl
  | exit code out => by_cases hc : code = 0 <;> simp [hc]

/-! ### 8. the test directory -/

section TestDir
variable {Dir : Type} (fresh : Nat → Dir)

/-- once allocated, every later use (whatever happened to the file system in between) returns the
same directory and allocates nothing -/
theorem testDir_stable (fs fs' : FsState Dir) (r : Locals Dir) :
    let u := r.useTestDir fresh fs
    u.2.1.useTestDir fresh fs' = (fs', u.2.1, u.2.2) := by
  cases h : r.testDir with
  | some d => simp [Locals.useTestDir, h]
  | none => simp [Locals.useTestDir, h]

/-- the directory exists after a first use -/
theorem testDir_exists (fs : FsState Dir) (r : Locals Dir) (h : r.testDir = none) :
    (r.useTestDir fresh fs).2.2 ∈ (r.useTestDir fresh fs).1.existing := by
  simp [Locals.useTestDir, h]

/-- the allocation counter never decreases -/
theorem allocs_mono (fs : FsState Dir) (r : Locals Dir) :
    fs.allocs ≤ (r.useTestDir fresh fs).1.allocs := by
  cases h : r.testDir <;> simp [Locals.useTestDir, h]

/-- two runners get different directories, given the allocator is injective: runner `a` allocates
in state `fs`, runner `b` in any later state `fs'` -/
theorem testDir_distinct (hinj : Function.Injective fresh) (fs fs' : FsState Dir)
    (a b : Locals Dir) (ha : a.testDir = none) (hb : b.testDir = none)
    (hlater : (a.useTestDir fresh fs).1.allocs ≤ fs'.allocs) :
    (a.useTestDir fresh fs).2.2 ≠ (b.useTestDir fresh fs').2.2 := by
  simp only [Locals.useTestDir, ha, hb] at hlater ⊢
  intro h
  have := hinj h
  omega

/-- dropping the runner removes its directory … -/
theorem drop_removes [DecidableEq Dir] (fs : FsState Dir) (r : Locals Dir) (d : Dir)
    (h : r.testDir = some d) : d ∉ (r.drop fs).existing := by
  simp [Locals.drop, h]

/-- … and only that one -/
theorem drop_keeps_others [DecidableEq Dir] (fs : FsState Dir) (r : Locals Dir) (d d' : Dir)
    (h : r.testDir = some d) (hne : d' ≠ d) (hex : d' ∈ fs.existing) :
    d' ∈ (r.drop fs).existing := by
  simp [Locals.drop, h, hex, hne]

/-- a runner that never used `$__TEST_DIR__` has nothing to remove -/
theorem drop_unused [DecidableEq Dir] (fs : FsState Dir) (r : Locals Dir) (h : r.testDir = none) :
    r.drop fs = fs := by
  simp [Locals.drop, h]

end TestDir

/-! ### examples (kernel-evaluated; the counterexamples for the conditions of `WFt` are the
`cex_*` theorems of `Lemmas/SubstExamples.lean`) -/

section Examples
open SubstEx

/-- `select ${X:${Y:${Z:a\}b$A}}} from $V;\$\\{}`: depth-3 defaults, escapes, a value containing
`$A`, a backslash and `${A:z}`: the instance of `subst_show` … -/
example : substFull gV (render tNested) = eval gV tNested := subst_show gV tNested tNested_wf

/-- … and both sides computed -/
example : substFull gV (B "select ${X:${Y:${Z:a\\}b$A}}} from $V;\\$\\\\{}") =
    .ok (B "select a}bx from $A \\ ${A:z} {};$\\{}") := tNested_subst
example : eval gV tNested = .ok (B "select a}bx from $A \\ ${A:z} {};$\\{}") := tNested_eval

/-- lookup order -/
example : exVars.get (B "HOME") = some (B "local") := by decide +kernel
example : exVars.get (B "USER") = some (B "u") := by decide +kernel
example : exVars.get (B "__TEST_DIR__") = some (B "/tmp/d1") := by decide +kernel
example : exVars.get (B "NOPE") = none := by decide +kernel

/-- SQL, substitution on: locals before environment, nested default, escape -/
example : substitute exVars true (B "use ${__DATABASE__}; -- $HOME ${NOPE:${NADA:$USER}} \\$x") =
    .ok (B "use db1; -- local u $x") := by decide +kernel

/-- an undefined variable without default is an error -/
example : substitute exVars true (B "select $NOPE") = .error (.noSuchVar (B "NOPE")) := by
  decide +kernel

/-- outside the documented syntax: a text ending in `$` makes the crate panic -/
example : substitute exVars true (B "select 1 $") = .error .panic := by decide +kernel

/-- a command: only `$__TEST_DIR__`, `$__NOW__` and runner locals are replaced; `$USER`, `${HOME}`,
`\$` and `${X:y}` are left to the shell -/
example : substitute exVars false (B "cd $__TEST_DIR__; echo $HOME $USER ${HOME} \\$ ${X:y} $__NOW__") =
    .ok (B "cd /tmp/d1; echo local $USER ${HOME} \\$ ${X:y} 17") := by decide +kernel

/-- two runners, allocator `fresh n = n`: distinct directories, stable per runner, removed on drop -/
example :
    let fs0 : FsState Nat := ⟨0, []⟩
    let a := ({} : Locals Nat).useTestDir id fs0
    let b := ({} : Locals Nat).useTestDir id a.1
    let a' := a.2.1.useTestDir id b.1
    a.2.2 = 0 ∧ b.2.2 = 1 ∧ a'.2.2 = 0 ∧ a'.1.existing = [1, 0] ∧
    (a.2.1.drop a'.1).existing = [1] := by decide

end Examples

end Slt.C13
