/-
C14 — include splicing.

"Parsing a file expands every `include PATTERN` in place: the pattern is resolved relative to the
directory of the including file, the matching files are spliced in ascending path order directly
after the include record, recursively, each bracketed by begin/end markers that are properly
nested.  Records from included files report their own file and line followed by the chain of
include sites; a pattern that matches nothing, or a missing file, is a located parse error.
Running the file executes the records in exactly that spliced order."

Model: `Slt.parseFile` / `expandRecs` / `expandFiles` (`Include.lean`, ⟦parse_file_inner⟧), tied to
the Rust code by the differential harness.  Proved here, for every parser configuration, file
system, file, chain and fuel:

* `expand_splice` / `expand_splice_rel` — a successful expansion is the reference flattening: every
  record keeps its place, every include record is immediately followed by one bracketed block per
  match, in the order of `glob`; the relation `Spliced` is the fuel-free reference semantics, the
  model is sound and complete for it and it is functional;
* `nested` — the marker projection is a Dyck word with equal names on matching brackets;
* `loc_chain` (structural) / `loc_chain_sites` (semantic) — own file, and the chain of include sites;
* `empty_match_error`, `missing_file_error`, `included_parse_error`, `first_error_wins`,
  `error_located` — errors and where they are located; `fuel_suffices` — no `outOfFuel` on trees;
* `relative` — patterns are resolved against the directory of the including file;
* `glob_sorted`, `glob_matches`, `glob_pattern_sorted`, `glob_path_sorted` — matches of a wildcard
  component / of a whole pattern in strictly ascending (component-wise) order;
* `fuel_irrelevant` — more fuel never changes a successful result.

The last sentence of the property (execution order) is C02's `runMulti` theorems applied to the
record list `out.map (·.record)` whose order is fixed by `expand_splice`.

Definitions used in the statements live in `Lemmas/Include*.lean`:
`Spliced`, `spliceRef`, `bracket`, `expansionOf` (IncludeSplice); `Nested`, `balanced`
(IncludeNested); `Chained`, `Reach`, `IncludeSite`, `OwnRecord` (IncludeLoc); `ErrAt` (IncludeErr);
`seqExp` (IncludeAppend); `pathLt`, `Fs.EntriesClean` (IncludeGlobOrder); `Rec.isMarker`
(IncludeParse).  The unfolding equations of the three WF-recursive functions (`parseFile_succ`,
`expandRecs_nil/_cons_incl/_cons_other`, `expandFiles_nil/_cons`) are in `Lemmas/IncludeEq.lean`.
-/
import SltVerif.Lemmas.IncludeEq
import SltVerif.Lemmas.IncludeSplice
import SltVerif.Lemmas.IncludeFuel
import SltVerif.Lemmas.IncludeFlatten
import SltVerif.Lemmas.IncludeNested
import SltVerif.Lemmas.IncludeLoc
import SltVerif.Lemmas.IncludeErr
import SltVerif.Lemmas.IncludeAppend
import SltVerif.Lemmas.IncludePath
import SltVerif.Lemmas.IncludeGlob
import SltVerif.Lemmas.IncludeGlobOrder
import SltVerif.Lemmas.IncludeExample
namespace Slt.C14
open Slt

variable {cfg : PCfg} {fs : Fs}

/-! ### 1. splicing -/

/-- **Splicing (equational form).**  If the record list `recs` of `file` expands successfully, the
result is `recs.flatMap` of: the record itself, located at `(file, upper)`, followed — when it is
`include pat` at line `line` — by `begin g :: expansion of g ++ [end g]` for every match `g` of
`glob (resolveInclude file pat)`, in that order; the expansion of `g` is the (successful) result
of `parseFile` on `g` with the include site `(file, line)` put in front of the chain, and every
include has at least one match. -/
theorem expand_splice {fuel : Nat} {file : Str} {upper : List (Str × Nat)} {recs : List Rec}
    {out : List LRec} (h : expandRecs cfg fs fuel file upper recs = .ok out) :
    out = recs.flatMap (fun r =>
            ⟨r, file, upper⟩ ::
              match r with
              | .incl line pat =>
                (glob fs (resolveInclude file pat)).flatMap (fun g =>
                  ⟨.beginInclude g, file, upper⟩ ::
                    expansionOf cfg fs fuel g ((file, line) :: upper) ++
                    [⟨.endInclude g, file, upper⟩])
              | _ => []) ∧
    ∀ line pat, .incl line pat ∈ recs →
      glob fs (resolveInclude file pat) ≠ [] ∧
      ∀ g ∈ glob fs (resolveInclude file pat),
        parseFile cfg fs fuel g ((file, line) :: upper) =
          .ok (expansionOf cfg fs fuel g ((file, line) :: upper)) :=
  expandRecs_eq_spliceRef h

/-- … and a file expands to the splicing of the records it parses to. -/
theorem expand_file {fuel : Nat} {f : Str} {upper : List (Str × Nat)} {out : List LRec}
    (h : parseFile cfg fs fuel f upper = .ok out) :
    ∃ fuel' script recs, fuel = fuel' + 1 ∧ fs.read (normPath f) = some script ∧
      parse cfg script = .ok recs ∧ expandRecs cfg fs fuel' f upper recs = .ok out :=
  parseFile_ok_inv h

/-- **Splicing (relational form).**  Every successful run is a derivation of the fuel-free
reference relation `Spliced` … -/
theorem expand_splice_rel {fuel : Nat} {f : Str} {upper : List (Str × Nat)} {out : List LRec}
    (h : parseFile cfg fs fuel f upper = .ok out) : Spliced cfg fs (.file f upper) out :=
  spliced_of_parseFile fuel f upper out h

/-- … every derivation is computed by the model with enough fuel … -/
theorem splice_complete {f : Str} {upper : List (Str × Nat)} {out : List LRec}
    (h : Spliced cfg fs (.file f upper) out) : ∃ fuel, parseFile cfg fs fuel f upper = .ok out :=
  h.complete

/-- … the relation is functional … -/
theorem splice_deterministic {j : Job} {o₁ o₂ : List LRec}
    (h₁ : Spliced cfg fs j o₁) (h₂ : Spliced cfg fs j o₂) : o₁ = o₂ :=
  h₁.det h₂

/-- … and it is exactly the explicit flattening over the splicings of the included files. -/
theorem splice_iff_flatten {file : Str} {upper : List (Str × Nat)} {recs : List Rec}
    {out : List LRec} :
    Spliced cfg fs (.recs file upper recs) out ↔
    ∃ sub : Str → List (Str × Nat) → List LRec,
      out = spliceRef fs sub file upper recs ∧
      ∀ line pat, .incl line pat ∈ recs →
        glob fs (resolveInclude file pat) ≠ [] ∧
        ∀ g ∈ glob fs (resolveInclude file pat),
          Spliced cfg fs (.file g ((file, line) :: upper)) (sub g ((file, line) :: upper)) :=
  ⟨Spliced.flatten, fun ⟨_, e, h⟩ => e ▸ spliced_of_spliceRef recs h⟩

/-- Expansion is compositional in the record list (the first error wins). -/
theorem expand_append (fuel : Nat) (file : Str) (upper : List (Str × Nat)) (a b : List Rec) :
    expandRecs cfg fs fuel file upper (a ++ b) =
      seqExp (expandRecs cfg fs fuel file upper a) (expandRecs cfg fs fuel file upper b) :=
  expandRecs_append cfg fs fuel file upper a b

/-! ### 2. nesting -/

/-- **Markers are properly nested**: the records of a successful expansion form a Dyck word —
ordinary records interleaved with blocks `beginInclude g … endInclude g` carrying the same name. -/
theorem nested {fuel : Nat} {f : Str} {upper : List (Str × Nat)} {out : List LRec}
    (h : parseFile cfg fs fuel f upper = .ok out) : Nested (out.map (·.record)) :=
  ((spliced_of_parseFile fuel f upper out h).chained trivial).nested

/-- the same, as seen by the stack checker -/
theorem nested_check {fuel : Nat} {f : Str} {upper : List (Str × Nat)} {out : List LRec}
    (h : parseFile cfg fs fuel f upper = .ok out) : balanced [] (out.map (·.record)) = true :=
  balanced_of_nested (nested h)

/-- the checker decides the grammar (so `nested_check` is the whole statement) -/
theorem nested_check_iff (rs : List Rec) : balanced [] rs = true ↔ Nested rs :=
  balanced_iff_nested rs

/-- nesting of the expansion of a record list that contains no markers itself … -/
theorem nested_recs {fuel : Nat} {file : Str} {upper : List (Str × Nat)} {recs : List Rec}
    {out : List LRec} (hm : ∀ r ∈ recs, r.isMarker = false)
    (h : expandRecs cfg fs fuel file upper recs = .ok out) : Nested (out.map (·.record)) :=
  ((spliced_of_expandRecs' h).chained hm none).nested

/-- … which is what the parser produces. -/
theorem parse_no_markers (script : Str) (recs : List Rec) (h : parse cfg script = .ok recs) :
    ∀ r ∈ recs, r.isMarker = false :=
  parse_noMarker cfg script recs h

/-! ### 3. locations -/

/-- **Location chain (structural form).**  In the expansion of `f` (own chain `upper`): records and
markers outside any block carry `(f, upper)`; directly inside a block `begin g … end g` that
follows the include record at line `l`, they carry `(g, (f, l) :: upper)`; and so on recursively
(`Chained`). -/
theorem loc_chain {fuel : Nat} {f : Str} {upper : List (Str × Nat)} {out : List LRec}
    (h : parseFile cfg fs fuel f upper = .ok out) : Chained f upper none out :=
  (spliced_of_parseFile fuel f upper out h).chained trivial

/-- **Location chain (semantic form).**  Every located record `x` of the expansion of `f`:
`x.upper` is a path of real include sites from `(f, upper)` down to `x.file` — each element
`(g, l)` names a file `g` that parses to an `include` record at line `l` whose resolved pattern
matches the next file — and `x.record` is one of the records `x.file` parses to (with its own
line), or a marker for a match of one of its includes. -/
theorem loc_chain_sites {fuel : Nat} {f : Str} {upper : List (Str × Nat)} {out : List LRec}
    (h : parseFile cfg fs fuel f upper = .ok out) :
    ∀ x ∈ out, Reach cfg fs f upper x.file x.upper ∧ OwnRecord cfg fs x.file x.record :=
  (spliced_of_parseFile fuel f upper out h).located

/-- the chain of every record ends with the chain of the root file, and a record whose chain is
the root chain is a record of the root file -/
theorem loc_chain_root {fuel : Nat} {f : Str} {upper : List (Str × Nat)} {out : List LRec}
    (h : parseFile cfg fs fuel f upper = .ok out) :
    ∀ x ∈ out, upper <:+ x.upper ∧ (x.upper = upper → x.file = f) :=
  fun x hx => ⟨(loc_chain h).suffix x hx, (loc_chain h).top_file x hx⟩

/-! ### 4. errors -/

/-- **A pattern without match is an error located at the include record.** -/
theorem empty_match_error (fuel : Nat) (file : Str) (upper : List (Str × Nat)) (line : Nat)
    (pat : Str) (rest : List Rec) (h : glob fs (resolveInclude file pat) = []) :
    expandRecs cfg fs fuel file upper (.incl line pat :: rest) =
      .error (.emptyInclude file line upper) := by
  rw [expandRecs_cons_incl, h]; rfl

/-- **A missing file is an error located at that file (line 0) with its chain.** -/
theorem missing_file_error (fuel : Nat) (f : Str) (upper : List (Str × Nat))
    (h : fs.read (normPath f) = none) (hd : fs.isDir (normPath f) = false) :
    parseFile cfg fs (fuel + 1) f upper = .error (.notFound f upper) := by
  rw [parseFile_succ]; simp only [h, missingKind, hd]; rfl

/-- **So is a path that exists but cannot be read as a text file** (a directory matched by the
pattern): a located error, not a crash (the pinned tree panicked here, D27). -/
theorem directory_error (fuel : Nat) (f : Str) (upper : List (Str × Nat))
    (h : fs.read (normPath f) = none) (hd : fs.isDir (normPath f) = true) :
    parseFile cfg fs (fuel + 1) f upper = .error (.unreadable f upper) := by
  rw [parseFile_succ]; simp only [h, missingKind, hd]; rfl

/-- **A parse error is reported with the file it occurred in and that file's chain** … -/
theorem parse_error_located (fuel : Nat) (f : Str) (upper : List (Str × Nat)) (script : Str)
    (pf : PFail) (hr : fs.read (normPath f) = some script) (hp : parse cfg script = .error pf) :
    parseFile cfg fs (fuel + 1) f upper = .error (.parse pf f upper) := by
  rw [parseFile_succ]; simp only [hr, hp]

/-- … in particular for an included file: the chain starts with the include site. -/
theorem included_parse_error (fuel : Nat) (file : Str) (upper : List (Str × Nat)) (line : Nat)
    (pat : Str) (rest : List Rec) (g : Str) (more : List Str) (script : Str) (pf : PFail)
    (hg : glob fs (resolveInclude file pat) = g :: more)
    (hr : fs.read (normPath g) = some script) (hp : parse cfg script = .error pf) :
    expandRecs cfg fs (fuel + 1) file upper (.incl line pat :: rest) =
      .error (.parse pf g ((file, line) :: upper)) := by
  rw [expandRecs_cons_incl, hg, if_neg (by simp), expandFiles_cons,
    parse_error_located fuel g _ script pf hr hp]

/-- **The first failing match decides**: if the matches before `g` expand and `g` fails with `e`,
the include fails with `e`. -/
theorem first_error_wins (fuel : Nat) (file : Str) (upper : List (Str × Nat)) (line : Nat)
    (pat : Str) (rest : List Rec) (pre post : List Str) (g : Str) (e : IFail) (o : List LRec)
    (hg : glob fs (resolveInclude file pat) = pre ++ g :: post)
    (hpre : expandFiles cfg fs fuel file ((file, line) :: upper) pre = .ok o)
    (he : parseFile cfg fs fuel g ((file, line) :: upper) = .error e) :
    expandRecs cfg fs fuel file upper (.incl line pat :: rest) = .error e := by
  rw [expandRecs_cons_incl, hg, if_neg (by simp),
    expandFiles_first_error cfg fs fuel file _ pre post g e o hpre he]

/-- **Every error is located.**  A failing `parseFile` reports — with exactly the file `g` and chain
`chain` of a file reachable from the root through include sites — that `g` is missing, that `g`
does not parse, or that an include record of `g` has no match; or it ran out of fuel, and then
there really is a chain of `fuel` nested include sites below the root. -/
theorem error_located {fuel : Nat} {f : Str} {upper : List (Str × Nat)} {e : IFail}
    (h : parseFile cfg fs fuel f upper = .error e) :
    (e = .outOfFuel ∧
      ∃ g chain, Reach cfg fs f upper g chain ∧ chain.length = upper.length + fuel) ∨
    ∃ g chain, Reach cfg fs f upper g chain ∧ ErrAt cfg fs g chain e :=
  parseFile_error_located fuel f upper e h

/-- **Enough fuel**: on a tree whose include depth below the root is less than `fuel` the run never
ends with `outOfFuel` (so the fuel is invisible on file trees). -/
theorem fuel_suffices {fuel : Nat} {f : Str} {upper : List (Str × Nat)}
    (hdepth : ∀ g chain, Reach cfg fs f upper g chain → chain.length < upper.length + fuel) :
    parseFile cfg fs fuel f upper ≠ .error .outOfFuel :=
  parseFile_fuel_suffices hdepth

/-- In particular on acyclic include graphs: if some rank strictly decreases from every including
file to each file it includes, any fuel above the rank of the root is enough. -/
theorem fuel_suffices_acyclic {rank : Str → Nat}
    (hrank : ∀ g l h, IncludeSite cfg fs g l h → rank h < rank g)
    {fuel : Nat} {f : Str} {upper : List (Str × Nat)} (hf : rank f < fuel) :
    parseFile cfg fs fuel f upper ≠ .error .outOfFuel :=
  parseFile_fuel_suffices_rank hrank hf

/-! ### 5. relative resolution -/

/-- **Patterns are resolved against the directory of the including file**: an include in `d/name`
resolves a relative `pat` to `d/pat` … -/
theorem relative (d name pat : Str) (hname : '/' ∉ name) (hrel : pat.head? ≠ some '/') :
    resolveInclude (d ++ '/' :: name) pat = d ++ '/' :: pat :=
  resolveInclude_in_dir d name pat hname hrel

/-- … where `d` is what `path_buf.pop()` leaves … -/
theorem relative_parent (d name : Str) (hname : '/' ∉ name) :
    parentDir (d ++ '/' :: name) = d :=
  parentDir_append_slash d name hname

/-- … in general: the parent directory of the including file, or nothing for a bare file name … -/
theorem relative_general (including pat : Str) (hrel : pat.head? ≠ some '/') :
    resolveInclude including pat =
      if (splitSlash including).length ≤ 1 then pat else parentDir including ++ '/' :: pat :=
  resolveInclude_relative including pat hrel

theorem relative_bare (name pat : Str) (hname : '/' ∉ name) : resolveInclude name pat = pat :=
  resolveInclude_bare name pat hname

/-- … and an absolute pattern is taken as it is. -/
theorem relative_absolute (including p : Str) : resolveInclude including ('/' :: p) = '/' :: p :=
  rfl

/-! ### 6. order of the matches -/

/-- **Matches of a wildcard component are listed in strictly ascending path order.** -/
theorem glob_sorted (d c : Str) (hc : hasMeta c = true) :
    (globStep fs [d] c).Pairwise (· < ·) :=
  globStep_wild_sorted fs d c hc

/-- the same in terms of the comparison the sort uses -/
theorem glob_sorted_le (d c : Str) (hc : hasMeta c = true) :
    (globStep fs [d] c).Pairwise (fun a b => strLe a b = true) :=
  globStep_wild_sorted_le fs d c hc

/-- **The matches are exactly the entries of the directory that match the component.** -/
theorem glob_matches (d c p : Str) (hc : hasMeta c = true) :
    p ∈ globStep fs [d] c ↔
      ∃ name, name ∈ fs.entries d ∧ wildMatch c name = true ∧ p = joinPath d name :=
  mem_globStep_wild fs d c p hc

/-- **Whole patterns of the usual shape** `literal/…/literal/wildcard` (e.g. `include dir/*.slt`):
the matches come in strictly ascending path order … -/
theorem glob_pattern_sorted (pattern : Str) (cs : List Str) (c : Str)
    (hsplit : splitSlash pattern = cs ++ [c]) (hlit : ∀ x ∈ cs, hasMeta x = false)
    (hc : hasMeta c = true) : (glob fs pattern).Pairwise (· < ·) :=
  glob_last_wild_sorted fs pattern cs c hsplit hlit hc

theorem glob_dir_sorted (d c : Str) (hd : ∀ x ∈ splitSlash d, hasMeta x = false)
    (hs : '/' ∉ c) (hc : hasMeta c = true) : (glob fs (d ++ '/' :: c)).Pairwise (· < ·) :=
  glob_dir_wild_sorted fs d c hd hs hc

/-- … and a pattern without metacharacters names at most one file. -/
theorem glob_literal_unique (pattern : Str) (h : ∀ c ∈ splitSlash pattern, hasMeta c = false) :
    (glob fs pattern).length ≤ 1 :=
  glob_literal_length fs pattern h

/-- **Any pattern** (several wildcard components, e.g. `*/*.slt`): the matches come in strictly
ascending `Path` order, i.e. lexicographically by components (`pathLt`) — not in the order of the
path strings (`a/x` precedes `a-b/x`).  Guard: no directory entry is named `""` or `.`, which
holds whenever no path component of the tree is (`entries_clean`). -/
theorem glob_path_sorted (hclean : fs.EntriesClean) (pattern : Str) :
    (glob fs pattern).Pairwise pathLt :=
  glob_pathSorted fs hclean pattern

theorem entries_clean (h : ∀ f ∈ fs, ∀ c ∈ splitSlash f.1, c ≠ [] ∧ c ≠ ['.']) : fs.EntriesClean :=
  entriesClean_of_components fs h

/-- `*` matches every name; a component without metacharacters matches itself only -/
theorem wild_star (s : Str) : wildMatch ['*'] s = true := wildMatch_star s

theorem wild_literal (p : Str) (hp : hasMeta p = false) (s : Str) :
    wildMatch p s = true ↔ s = p := wildMatch_literal p hp s

/-! ### 7. fuel -/

/-- **Fuel is irrelevant**: a successful expansion is unchanged by more fuel … -/
theorem fuel_irrelevant {n m : Nat} (hnm : n ≤ m) {f : Str} {upper : List (Str × Nat)}
    {out : List LRec} (h : parseFile cfg fs n f upper = .ok out) :
    parseFile cfg fs m f upper = .ok out :=
  parseFile_mono n m hnm f upper out h

/-- … and two successful runs agree whatever their fuel. -/
theorem fuel_agree {n m : Nat} {f : Str} {upper : List (Str × Nat)} {o₁ o₂ : List LRec}
    (h₁ : parseFile cfg fs n f upper = .ok o₁) (h₂ : parseFile cfg fs m f upper = .ok o₂) :
    o₁ = o₂ :=
  Job.run_agree (j := .file f upper) h₁ h₂

/-! ### tests on a concrete tree (`Lemmas/IncludeExample.lean`) -/

section tests
open Slt.IncludeExample

-- test: two-level tree, wildcard include, `..` in an include, ascending order a < b, c.txt skipped
#guard parseFile IncludeExample.cfg tree 3 (kw "main.slt") [] = .ok mainExpansion
-- test: not enough fuel for depth 3
#guard parseFile IncludeExample.cfg tree 2 (kw "main.slt") [] = .error .outOfFuel
-- test: more fuel, same result
#guard parseFile IncludeExample.cfg tree 9 (kw "main.slt") [] = .ok mainExpansion
-- test: pattern without match
#guard parseFile IncludeExample.cfg tree 3 (kw "bad.slt") [] =
  .error (.emptyInclude (kw "bad.slt") 1 [])
-- test: missing root
#guard parseFile IncludeExample.cfg tree 3 (kw "nope.slt") [] = .error (.notFound (kw "nope.slt") [])
-- test: parse error inside an included file is reported with that file and the include site
#guard parseFile IncludeExample.cfg tree 3 (kw "broken.slt") [] =
  .error (.parse (.err .invalidLine 1) (kw "sub/c.txt") [(kw "broken.slt", 1)])
-- test: glob order and resolution
#guard glob tree (kw "sub/*.slt") = [kw "sub/a.slt", kw "sub/b.slt"]
#guard glob tree (kw "sub/?.*") = [kw "sub/a.slt", kw "sub/b.slt", kw "sub/c.txt"]
#guard resolveInclude (kw "sub/a.slt") (kw "../leaf.slt") = kw "sub/../leaf.slt"
-- test: `Path` order, not string order (as strings "a-b/x.slt" < "a/x.slt")
#guard glob tree2 (kw "*/*.slt") = [kw "a/x.slt", kw "a/y.slt", kw "a-b/x.slt"]
#guard strLe (kw "a-b/x.slt") (kw "a/x.slt")
-- test: the expected expansion is nested
#guard balanced [] (mainExpansion.map (·.record))

/-- kernel-checked instance (literal pattern): `top.slt` includes `leaf.slt` -/
example : parseFile IncludeExample.cfg tree 2 (kw "top.slt") [] = .ok topExpansion := by
  have hg : glob tree (resolveInclude (kw "top.slt") (kw "leaf.slt")) = [kw "leaf.slt"] := by decide
  rw [parseFile_ok_intro (script := kw "include leaf.slt\nhalt\n")
        (recs := [.incl 1 (kw "leaf.slt"), .halt 2]) (by decide) (by decide),
    expandRecs_cons_incl, hg, if_neg (by decide), expandFiles_cons,
    parseFile_ok_intro (script := kw "halt\n") (recs := [.halt 1]) (by decide) (by decide),
    expandRecs_cons_other _ _ _ _ _ _ _ (by intro _ _ h; cases h), expandRecs_nil, expandFiles_nil,
    expandRecs_cons_other _ _ _ _ _ _ _ (by intro _ _ h; cases h), expandRecs_nil]
  rfl

example : tree.EntriesClean := entries_clean (by decide)
example : tree2.EntriesClean := entries_clean (by decide)
example : Nested (mainExpansion.map (·.record)) := by decide
example : ¬ Nested [.beginInclude (kw "a"), .endInclude (kw "b")] := by decide
example : ¬ Nested [.endInclude (kw "a"), .beginInclude (kw "a")] := by decide
example : resolveInclude (kw "dir/sub/x.slt") (kw "*.slt") = kw "dir/sub/*.slt" := by decide
example : resolveInclude (kw "x.slt") (kw "inc/*.slt") = kw "inc/*.slt" := by decide

end tests

end Slt.C14
