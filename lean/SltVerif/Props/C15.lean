/-
C15 — Large results are compared through the standard sqllogictest MD5 digest line.

Theorems about `Slt.shape` (runner.rs 894-914) for an arbitrary hash function, all row lists,
thresholds and sort modes; threshold scoping (`apply_record`, runner.rs 939-942); shape of the
concrete digest (`Md5.lean`: 32 lower-case hex digits).
-/
import SltVerif.Runner
import SltVerif.Md5
namespace Slt.C15
open Slt

/-- the rows in result order, i.e. after the effective sort mode -/
def ordered (m : Option SortMode) (rows : List Row) : List Row := (applySort m rows).1

/-- the values in result order -/
def valuesInOrder (m : Option SortMode) (rows : List Row) : List Str := (ordered m rows).flatten

theorem flattenValues_flatten (rows : List Row) : (flattenValues rows).flatten = rows.flatten := by
  unfold flattenValues
  induction rows.flatten with
  | nil => rfl
  | cons v vs ih => simp [ih]

/-- Sorting never changes the number of values: `count` is the number of values returned. -/
theorem count_invariant (m : Option SortMode) (rows : List Row) :
    numValues (ordered m rows) = rows.flatten.length := by
  unfold ordered numValues applySort
  have hperm : ∀ l : List Row, (sortRows l).flatten.length = l.flatten.length := by
    intro l
    have := (List.mergeSort_perm l rowLe)
    exact (List.Perm.flatten this).length_eq
  cases m with
  | none => rfl
  | some m =>
    cases m with
    | nosort => rfl
    | rowsort => exact hperm rows
    | valuesort => simp only []; rw [hperm, flattenValues_flatten]

/-- **Hash when**: threshold `T > 0` in force and more than `T` values returned ⇒ the compared
result is the single line `<count> values hashing to <hash(v₁\n v₂\n …)>` over the values in
result order (after the effective sort). -/
theorem hash_when (hash : Str → Str) (T : Nat) (m : Option SortMode) (rows : List Row)
    (hT : 0 < T) (hc : rows.flatten.length > T) :
    shape hash T m rows =
      [[natToStr rows.flatten.length ++ kw " values hashing to " ++
        hash ((valuesInOrder m rows).flatMap (· ++ ['\n']))]] := by
  have hcount := count_invariant m rows
  unfold ordered at hcount
  simp only [shape, hashLine, hashInput, valuesInOrder, ordered, hcount]
  rw [if_pos ⟨hT, hc⟩]

/-- **Full comparison otherwise**: `T = 0`, or at most `T` values ⇒ rows are compared in full. -/
theorem hash_unless (hash : Str → Str) (T : Nat) (m : Option SortMode) (rows : List Row)
    (h : T = 0 ∨ rows.flatten.length ≤ T) :
    shape hash T m rows = ordered m rows := by
  have hcount := count_invariant m rows
  unfold ordered at hcount
  simp only [shape, ordered, hcount]
  rw [if_neg]
  rintro ⟨h1, h2⟩
  rcases h with h | h <;> omega

variable {σ : Type}

theorem getConn_threshold (E : Env σ) (w : World σ) (c : Conn) :
    (getConn E w c).1.threshold = w.threshold := by
  unfold getConn
  split
  · rfl
  · cases h : (E.make w.db w.makes).2 <;> simp [h]

/-- **Threshold scope, one record**: only a `hash-threshold` record changes the threshold. -/
theorem applyRecord_threshold (E : Env σ) (cfg : RCfg) (w : World σ) (r : Rec) :
    (applyRecord E cfg w r).1.threshold =
      (match r with | .hashThreshold _ n => n | _ => w.threshold) := by
  cases r <;> simp only [applyRecord, World.log]
  case statement l conds conn sql exp rt =>
    simp only [applyStatement]
    split
    · exact getConn_threshold E w conn
    · split
      · exact getConn_threshold E w conn
      · split <;> exact getConn_threshold E w conn
  case query l conds conn sql exp rt =>
    simp only [applyQuery]
    split
    · exact getConn_threshold E w conn
    · split
      · exact getConn_threshold E w conn
      · split
        · exact getConn_threshold E w conn
        · split <;> exact getConn_threshold E w conn
  case system l conds cmd out rt =>
    simp only [applySystem]
    repeat' split
    all_goals rfl
  case control c => cases c <;> rfl

/-- … and retries do not change it either. -/
theorem retryLoop_threshold (E : Env σ) (cfg : RCfg) (r : Rec) (d : Dur)
    (hr : ∀ l n, r ≠ .hashThreshold l n) :
    ∀ (n : Nat) (w : World σ) (last : Verdict),
      (retryLoop E cfg r d n w last).1.threshold = w.threshold := by
  have h1 : ∀ w : World σ, (runNoRetry E cfg w r).1.threshold = w.threshold := by
    intro w
    simp only [runNoRetry]
    rw [applyRecord_threshold]
    cases r <;> first | rfl | exact absurd rfl (hr _ _)
  intro n
  induction n with
  | zero => intro w last; rfl
  | succ n ih =>
    intro w last
    simp only [retryLoop]
    split
    · exact h1 w
    · rw [ih]; exact h1 w

/-- the threshold in force after a prefix of records: the last `hash-threshold`, else the initial
(API) value -/
def thresholdAfter (init : Nat) : List Rec → Nat
  | [] => init
  | .hashThreshold _ n :: rs => thresholdAfter n rs
  | _ :: rs => thresholdAfter init rs

theorem runRecord_threshold (E : Env σ) (cfg : RCfg) (w : World σ) (r : Rec) :
    (runRecord E cfg w r).1.threshold =
      (match r with | .hashThreshold _ n => n | _ => w.threshold) := by
  unfold runRecord
  cases hrt : r.retry? with
  | none => simp only [runNoRetry]; exact applyRecord_threshold E cfg w r
  | some rt =>
    simp only []
    have hr : ∀ l n, r ≠ .hashThreshold l n := by
      intro l n h; subst h; simp [Rec.retry?] at hrt
    rw [retryLoop_threshold E cfg r rt.backoff hr]
    cases r <;> first | rfl | exact absurd rfl (hr _ _)

/-- **Threshold scope, whole script**: when a script runs to completion without `halt`, the
threshold in force afterwards (and, applied to prefixes, before each record) is `thresholdAfter`. -/
theorem runMulti_threshold (E : Env σ) (cfg : RCfg) :
    ∀ (rs : List Rec) (w : World σ), (∀ r ∈ rs, r.isHalt = false) →
      (runMulti E cfg w rs).2 = .ok →
      (runMulti E cfg w rs).1.threshold = thresholdAfter w.threshold rs := by
  intro rs
  induction rs with
  | nil => intro w _ _; rfl
  | cons r rs ih =>
    intro w hh hok
    have hr : r.isHalt = false := hh r (by simp)
    simp only [runMulti, hr, Bool.false_eq_true, ↓reduceIte] at hok ⊢
    cases hv : (runRecord E cfg w r).2 with
    | pass =>
      simp only [hv] at hok ⊢
      rw [ih _ (fun r' h' => hh r' (by simp [h'])) hok, runRecord_threshold]
      cases r <;> rfl
    | fail k d => simp [hv] at hok
    | unreachable => simp [hv] at hok

/-! ### the concrete digest: 32 lower-case hexadecimal digits -/

def isLowerHex (c : Char) : Bool := ('0' ≤ c && c ≤ '9') || ('a' ≤ c && c ≤ 'f')

theorem hexDigit_lower (n : Nat) (h : n < 16) : isLowerHex (hexDigit n) = true := by
  have : n = 0 ∨ n = 1 ∨ n = 2 ∨ n = 3 ∨ n = 4 ∨ n = 5 ∨ n = 6 ∨ n = 7 ∨ n = 8 ∨ n = 9 ∨
      n = 10 ∨ n = 11 ∨ n = 12 ∨ n = 13 ∨ n = 14 ∨ n = 15 := by omega
  rcases this with h | h | h | h | h | h | h | h | h | h | h | h | h | h | h | h <;> subst h <;> decide

theorem hexOfBytes_lower (bs : List UInt8) : ∀ c ∈ hexOfBytes bs, isLowerHex c = true := by
  intro c hc
  simp only [hexOfBytes, List.mem_flatMap] at hc
  obtain ⟨b, _, hb⟩ := hc
  have hlt : b.toNat < 256 := b.toNat_lt
  simp at hb
  rcases hb with rfl | rfl
  · exact hexDigit_lower _ (by omega)
  · exact hexDigit_lower _ (by omega)

theorem hexOfBytes_length (bs : List UInt8) : (hexOfBytes bs).length = 2 * bs.length := by
  induction bs with
  | nil => rfl
  | cons b bs ih => simp [hexOfBytes] at ih ⊢; omega

theorem md5_length (msg : List UInt8) : (md5 msg).length = 16 := by
  simp [md5, u32Bytes]

/-- **hex_lower**: the digest written into the line is 32 characters from `0-9a-f`. -/
theorem md5Hex_shape (s : Str) :
    (md5Hex s).length = 32 ∧ ∀ c ∈ md5Hex s, isLowerHex c = true := by
  unfold md5Hex
  exact ⟨by rw [hexOfBytes_length, md5_length], hexOfBytes_lower _⟩

-- Non-vacuity: 3 values, threshold 2 → digest line; threshold 3 → full rows.
example : shape id 2 none [[kw "a"], [kw "b"], [kw "c"]] =
    [[kw "3 values hashing to a\nb\nc\n"]] := by decide
example : shape id 3 none [[kw "a"], [kw "b"], [kw "c"]] = [[kw "a"], [kw "b"], [kw "c"]] := by decide

end Slt.C15
