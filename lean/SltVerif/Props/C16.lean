/-
C16 — CLI exit status and JUnit report.

"The CLI exits with status 0 exactly when every selected test file ran to completion and passed;
a failing record, a parse error, a connection failure, a skipped or a cancelled file each make the
exit status non-zero. The per-file status lines and the JUnit report agree with what happened: one
test case per selected file, named after its path, marked success, failure or skipped accordingly,
with totals that add up - in serial and in parallel mode alike, and without interleaving the
reports of different files."

Theorems about the serial driver's fold (`runSerial`, `exitOk`; main.rs 527-582), the JUnit status
(`FileResult.junit`) and the report checker (`checkReport`, which judges the observed exit status,
status tags and JUnit summary of real runs — serial and parallel — against the ground truth of the
files).  Helper definitions (`isCause`, `judgeFile`, `ReportOk`, `FileReportOk`) are in
`Lemmas/CliSerial.lean` and `Lemmas/CliReport.lean`.
-/
import SltVerif.Lemmas.CliSerial
import SltVerif.Lemmas.CliReport
import SltVerif.Lemmas.CliParallel
import SltVerif.Lemmas.CliTrace
import SltVerif.Lemmas.CliCancel
namespace Slt.C16
open Slt

/-- **One result (status line, JUnit case) per selected file.** -/
theorem serial_one_result_per_file (ff : Bool) (files : List (Ground × Bool)) :
    (runSerial ff files).results.length = files.length := by
  rw [runSerial_eq, runSerialFrom_results_length]
  simp

/-- **Exit status 0 iff every file was reported `ok`.** -/
theorem exit_zero_iff (ff : Bool) (files : List (Ground × Bool)) :
    exitOk (runSerial ff files) = true ↔ ∀ r ∈ (runSerial ff files).results, r = FileResult.ok := by
  rw [exitOk_iff]
  exact runSerialFrom_exitInv ff files {} exitInv_init

/-- **… and, without a signal, iff every selected file passes** (whatever `--fail-fast` says). -/
theorem exit_zero_iff_ground (ff : Bool) (files : List (Ground × Bool))
    (hsig : ∀ g ∈ files, g.2 = false) :
    exitOk (runSerial ff files) = true ↔ ∀ g ∈ files, g.1 = Ground.pass := by
  rw [runSerial_eq, runSerialFrom_exitOk ff files {} hsig]
  simp [exitOk]

/-- a failing file (failing record / parse error / connection failure) makes the exit non-zero -/
theorem exit_nonzero_of_fail (ff : Bool) (files : List (Ground × Bool)) (g : Ground × Bool)
    (hg : g ∈ files) (hfail : g.1 ≠ Ground.pass) : exitOk (runSerial ff files) = false := by
  cases h : exitOk (runSerial ff files) with
  | false => rfl
  | true =>
    exfalso
    by_cases hsig : ∃ x ∈ files, x.2 = true
    · have hc := runSerialFrom_signal ff files {} hsig
      rw [← runSerial_eq] at hc
      simp [exitOk, hc] at h
    · have hsig' : ∀ x ∈ files, x.2 = false := by
        intro x hx
        cases hx2 : x.2 with
        | false => rfl
        | true => exact absurd ⟨x, hx, hx2⟩ hsig
      exact hfail ((exit_zero_iff_ground ff files hsig').mp h g hg)

/-- a skipped or cancelled file makes the exit non-zero -/
theorem exit_nonzero_of_skipped (ff : Bool) (files : List (Ground × Bool)) (r : FileResult)
    (hr : r ∈ (runSerial ff files).results) (hne : r ≠ FileResult.ok) :
    exitOk (runSerial ff files) = false := by
  cases h : exitOk (runSerial ff files) with
  | false => rfl
  | true => exact absurd ((exit_zero_iff ff files).mp h r hr) hne

/-- the number of failures counted = the number of `err` results -/
theorem failed_count (ff : Bool) (files : List (Ground × Bool)) :
    (runSerial ff files).failed = (runSerial ff files).results.count FileResult.err :=
  runSerialFrom_failed ff files {} rfl

/-- **Shape of the result list, no cancel cause**: without a signal, a failure under fail-fast or a
refused connection (`isCause ff g = false` for every file) every file is judged on its own ground. -/
theorem serial_results_noCause (ff : Bool) (files : List (Ground × Bool))
    (h : ∀ g ∈ files, isCause ff g = false) :
    (runSerial ff files).results = files.map judgeFile ∧ (runSerial ff files).cancelled = false := by
  have := runSerialFrom_noCause ff files {} rfl h
  rw [runSerial_eq]
  exact ⟨by simpa using this.2, this.1⟩

/-- **Shape of the result list, with a cancel cause**: the files before the first cause are judged on
their own ground, the cause itself is `err` (failure) or `cancelled` (signal), everything after it is
`skipped`. -/
theorem serial_results_shape (ff : Bool) (pre post : List (Ground × Bool)) (g : Ground × Bool)
    (hpre : ∀ x ∈ pre, isCause ff x = false) (hg : isCause ff g = true) :
    (runSerial ff (pre ++ g :: post)).results =
      pre.map judgeFile ++ [judgeFile g] ++ post.map (fun _ => FileResult.skipped) ∧
    (runSerial ff (pre ++ g :: post)).cancelled = true := by
  have := runSerialFrom_shape ff {} pre post g rfl hpre hg
  rw [runSerial_eq]
  exact ⟨by simpa using this.2, this.1⟩

/-- the two cases are exhaustive: every file list either has no cause or splits at its first one -/
theorem serial_results_cases (ff : Bool) (files : List (Ground × Bool)) :
    (∀ g ∈ files, isCause ff g = false) ∨
    ∃ pre g post, files = pre ++ g :: post ∧ (∀ x ∈ pre, isCause ff x = false) ∧
      isCause ff g = true :=
  split_first_cause ff files

/-- what `judgeFile` and `isCause` mean -/
theorem judgeFile_table (g : Ground × Bool) :
    (judgeFile g = FileResult.ok ↔ g.2 = false ∧ g.1 = Ground.pass) ∧
    (judgeFile g = FileResult.err ↔ g.2 = false ∧ g.1 ≠ Ground.pass) ∧
    (judgeFile g = FileResult.cancelled ↔ g.2 = true) ∧
    judgeFile g ≠ FileResult.skipped := by
  obtain ⟨g1, g2⟩ := g
  cases g2 <;> cases g1 <;> simp [judgeFile]

theorem isCause_table (ff : Bool) (g : Ground × Bool) :
    isCause ff g = true ↔
      g.2 = true ∨ (∃ r, g.1 = Ground.fail r ∧ ff = true) ∨ g.1 = Ground.fail true := by
  obtain ⟨g1, g2⟩ := g
  cases g2 <;> cases g1 <;> simp [isCause]

/-- **JUnit status of a result**: ok ↦ success, err ↦ failure, skipped / cancelled ↦ skipped. -/
theorem junit_status (r : FileResult) :
    (r.junit = JStatus.success ↔ r = FileResult.ok) ∧
    (r.junit = JStatus.failure ↔ r = FileResult.err) ∧
    (r.junit = JStatus.skipped ↔ r = FileResult.skipped ∨ r = FileResult.cancelled) := by
  cases r <;> simp [FileResult.junit]

/-- **The report checker is sound**: a report it accepts satisfies the declarative specification
`ReportOk`: every file has a status tag `t`; `t = ok` ⇒ the file passes; `t = err` ⇒ it does not;
`t = skipped / cancelled` ⇒ there is a cancel cause; its JUnit case is present, named
`testCaseName path`, with status `t.junit`; the JUnit total equals the number of selected files;
exit 0 ⇒ all tags ok; all tags ok ⇒ exit 0, unless a Ctrl-C arrived (after the last file). -/
theorem checkReport_sound (exitCode : Nat) (cancelCause : Bool) (n : Nat) (rs : List FileReport)
    (h : checkReport exitCode cancelCause n rs = none) : ReportOk exitCode cancelCause n rs :=
  (checkReport_none_iff exitCode cancelCause n rs).mp h

/-- **… and complete**: it accepts every report that satisfies the specification. -/
theorem checkReport_complete (exitCode : Nat) (cancelCause : Bool) (n : Nat) (rs : List FileReport)
    (h : ReportOk exitCode cancelCause n rs) : checkReport exitCode cancelCause n rs = none :=
  (checkReport_none_iff exitCode cancelCause n rs).mpr h

/-- without a cancel cause the accepted exit status is 0 exactly when every file is tagged ok, and
then every file passes -/
theorem checkReport_exit_iff (exitCode : Nat) (n : Nat) (rs : List FileReport)
    (h : checkReport exitCode false n rs = none) :
    (exitCode = 0 ↔ ∀ r ∈ rs, r.tag = some FileResult.ok) ∧
    (exitCode = 0 ↔ ∀ r ∈ rs, r.ground = Ground.pass) := by
  have hr := checkReport_sound exitCode false n rs h
  have h1 : exitCode = 0 ↔ ∀ r ∈ rs, r.tag = some FileResult.ok :=
    ⟨hr.exitZero, fun hall => by rcases hr.exitNonZero hall with h | h <;> simp_all⟩
  refine ⟨h1, ?_⟩
  rw [h1]
  constructor
  · intro hall r hrm
    obtain ⟨t, ht⟩ := hr.perFile r hrm
    have : t = FileResult.ok := by
      have := hall r hrm
      rw [ht.tag] at this
      exact Option.some.inj this
    exact ht.okPass this
  · intro hall r hrm
    obtain ⟨t, ht⟩ := hr.perFile r hrm
    rw [ht.tag]
    cases t with
    | ok => rfl
    | err => exact absurd (hall r hrm) (ht.errFail rfl)
    | skipped => have := ht.skipCause (Or.inl rfl); simp at this
    | cancelled => have := ht.skipCause (Or.inr rfl); simp at this

/-! ### parallel mode: the results of the driver's transition system, for every schedule -/

/-- **One result per selected file in parallel mode too**: once the run phase is over, the indices
of the reported results are a permutation of `0 .. n-1` — every file exactly once, in completion
order. -/
theorem parallel_one_result_per_file {c : DCfg} {ls : List DLabel} {s : DSt}
    (h : drun c (dinit c) ls = some s) (hp : s.phase = .dropping ∨ s.phase = .finished) :
    (s.results.map (·.1)).Perm (List.range c.files.length) :=
  results_perm_of_finished h hp

theorem parallel_result_count {c : DCfg} {ls : List DLabel} {s : DSt}
    (h : drun c (dinit c) ls = some s) (hp : s.phase = .dropping ∨ s.phase = .finished) :
    s.results.length = c.files.length := by
  have := (parallel_one_result_per_file h hp).length_eq
  simpa using this

/-- while the run is going on, every file is in exactly one of: reported, in flight, pending -/
theorem parallel_partition {c : DCfg} {ls : List DLabel} {s : DSt}
    (h : drun c (dinit c) ls = some s) :
    (s.results.map (·.1) ++ s.inflight.map (·.1) ++ s.pending).Perm (List.range c.files.length) :=
  drun_idxInv ls s h

/-- **A skipped or cancelled result exists only if there is a cancel cause**: a Ctrl-C (the `cancel`
event in the log), or a reported failure under fail-fast or with a refused connection — the
hypothesis under which `checkReport` accepts such tags. -/
theorem parallel_skip_needs_cause {c : DCfg} {ls : List DLabel} {s : DSt}
    (h : drun c (dinit c) ls = some s) (p : Nat × FileResult) (hp : p ∈ s.results)
    (hs : p.2 = FileResult.skipped ∨ p.2 = FileResult.cancelled) :
    CEv.cancel ∈ s.log ∨
      ∃ i, (i, FileResult.err) ∈ s.results ∧ (c.failFast = true ∨ s.refused = true) := by
  have hi := drun_resInv ls s h
  exact hi.cause (hi.skipped p hp hs)

/-- **Exit status of a parallel run, for every schedule**: the process result of `run_parallel` is
`Ok` (exit 0) iff every file was reported `ok` and no Ctrl-C arrived — a failed, skipped or cancelled
file, or a signal that arrives when every file is already through, makes the run fail. -/
theorem parallel_exit_zero_iff {c : DCfg} {ls : List DLabel} {s : DSt}
    (h : drun c (dinit c) ls = some s) :
    dexitOk s = true ↔ (∀ p ∈ s.results, p.2 = FileResult.ok) ∧ CEv.cancel ∉ s.log := by
  have hi := drun_resInv ls s h
  have hl := drun_cancelLogInv ls s h
  unfold dexitOk
  simp only [Bool.and_eq_true, Bool.not_eq_true', List.any_eq_false, beq_iff_eq]
  constructor
  · rintro ⟨hne, hnc⟩
    refine ⟨?_, ?_⟩
    · intro p hp
      cases hp2 : p.2 with
      | ok => rfl
      | err => exact absurd hp2 (hne p hp)
      | skipped => have := hi.skipped p hp (Or.inl hp2); rw [hnc] at this; cases this
      | cancelled => have := hi.skipped p hp (Or.inr hp2); rw [hnc] at this; cases this
    · intro hmem
      obtain ⟨pre, post, hsplit⟩ := List.append_of_mem hmem
      have := (hl.2 pre post hsplit).1
      rw [hnc] at this; cases this
  · rintro ⟨hok, hnl⟩
    refine ⟨?_, ?_⟩
    · intro p hp hpe
      have := hok p hp
      rw [hpe] at this; cases this
    · cases hcz : s.cancelled with
      | false => rfl
      | true =>
        rcases hi.cause hcz with h1 | ⟨i, hmem, _⟩
        · exact absurd h1 hnl
        · have := hok (i, FileResult.err) hmem
          cases this

/-- **… and for the observed runs**: if a parallel run of the real binary that exited with status 0
replays in the driver model (`traceCheck`, see C17.trace_replay_iff), then every one of its files was
reported `ok`. -/
theorem observed_exit_zero_all_ok {c : DCfg} {labels : List DLabel} {observed : List CEv}
    {tags : List FileResult} (h : traceCheck c labels observed tags true = .ok) :
    ∀ i, i < tags.length → tags[i]? = some FileResult.ok := by
  obtain ⟨s, hs⟩ := traceCheck_ok h
  intro i hi
  have hall := ((parallel_exit_zero_iff hs.run).mp hs.exit).1
  have hr := hs.results i (by rw [← hs.ntags]; exact hi)
  have ht : tags[i]? = some tags[i] := List.getElem?_eq_getElem hi
  rw [ht] at hr
  have := hall (i, tags[i]) (resultOf_mem hr)
  simp only at this
  rw [ht, this]

/-- without fail-fast, refused connections and signals every file gets its own verdict (`ok` or
`err`) in parallel mode -/
theorem parallel_no_cause_all_judged {c : DCfg} {ls : List DLabel} {s : DSt}
    (h : drun c (dinit c) ls = some s) (hff : c.failFast = false) (hr : s.refused = false)
    (hsig : CEv.cancel ∉ s.log) (p : Nat × FileResult) (hp : p ∈ s.results) :
    p.2 = FileResult.ok ∨ p.2 = FileResult.err := by
  cases hp2 : p.2 with
  | ok => exact Or.inl rfl
  | err => exact Or.inr rfl
  | skipped =>
    rcases parallel_skip_needs_cause h p hp (Or.inl hp2) with h1 | ⟨_, _, h2 | h2⟩
    · exact absurd h1 hsig
    · rw [hff] at h2; cases h2
    · rw [hr] at h2; cases h2
  | cancelled =>
    rcases parallel_skip_needs_cause h p hp (Or.inr hp2) with h1 | ⟨_, _, h2 | h2⟩
    · exact absurd h1 hsig
    · rw [hff] at h2; cases h2
    · rw [hr] at h2; cases h2

/-! ### concrete runs -/

-- serial, no fail-fast: every file judged on its own
example : (runSerial false [(.pass, false), (.fail false, false), (.pass, false)]).results =
    [.ok, .err, .ok] := by decide
example : exitOk (runSerial false [(.pass, false), (.fail false, false), (.pass, false)]) = false := by
  decide
-- fail-fast: the rest is skipped
example : (runSerial true [(.pass, false), (.fail false, false), (.pass, false)]).results =
    [.ok, .err, .skipped] := by decide
-- a refused connection cancels even without fail-fast
example : (runSerial false [(.fail true, false), (.pass, false)]).results = [.err, .skipped] := by
  decide
-- a signal while the second file runs
example : (runSerial false [(.pass, false), (.pass, true), (.pass, false)]).results =
    [.ok, .cancelled, .skipped] := by decide
example : exitOk (runSerial false [(.pass, false), (.pass, true), (.pass, false)]) = false := by decide
example : exitOk (runSerial true [(.pass, false), (.pass, false)]) = true := by decide
-- the report checker on a two-file run with one failure
example : checkReport 1 false 2
    [⟨kw "a.slt", .pass, some .ok, some (kw "a_slt"), some .success⟩,
     ⟨kw "d/b.slt", .fail false, some .err, some (kw "d_b_slt"), some .failure⟩] = none := by decide
example : checkReport 0 false 2
    [⟨kw "a.slt", .pass, some .ok, some (kw "a_slt"), some .success⟩,
     ⟨kw "d/b.slt", .fail false, some .err, some (kw "d_b_slt"), some .failure⟩] = some .exitZero := by
  decide

end Slt.C16
