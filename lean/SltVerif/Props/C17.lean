/-
C17 — parallel runs: one database per file, cleanup.

"In parallel mode every test file runs against its own database, created before the file starts and
named uniquely within the run; all of that file's SQL, on all of its named connections, goes to that
database and to no other, and `$__DATABASE__` expands to its name. No more files are in flight at
once than the requested number of jobs, and after the run every database that was created is
dropped exactly once, after the connections to it have been closed - except, when keeping databases
on failure is requested, those of failed files."

Theorems about the names (`testCaseName`, `dbName`, `fileOfDb`), the monitor that judges the
observed engine-side event log of real runs (`monStep`, `monRun`, `monFinish`, `accepts`) and the
parallel driver as a labelled transition system (`dstep`, `drun`; main.rs 382-523, 669-736).
Helper definitions and lemmas are in `Lemmas/Cli*.lean`.
-/
import SltVerif.Lemmas.CliNames
import SltVerif.Lemmas.CliMonSpec
import SltVerif.Lemmas.CliAccept
import SltVerif.Lemmas.CliMonComplete
import SltVerif.Lemmas.CliExample
import SltVerif.Lemmas.CliTrace
namespace Slt.C17
open Slt

/-! ### names -/

/-- **Database names are unique within the run** when the test-case names are: the random suffixes
have equal lengths, so equal database names force equal prefixes. -/
theorem names_unique (p q s t : Str) (hne : testCaseName p ≠ testCaseName q)
    (hs : s.length = 8) (ht : t.length = 8) : dbName p s ≠ dbName q t := by
  intro h
  exact hne (dbName_inj p q s t (hs.trans ht.symm) h).1

/-- for one file, different suffixes give different names -/
theorem names_unique_suffix (p s t : Str) (hne : s ≠ t) (hs : s.length = 8) (ht : t.length = 8) :
    dbName p s ≠ dbName p t := by
  intro h
  exact hne (dbName_inj p p s t (hs.trans ht.symm) h).2

/-- **The monitor resolves a database name to the file it was created for.** -/
theorem fileOfDb_dbName (cfg : MonCfg)
    (hd : cfg.files.Pairwise (fun a b => testCaseName a.path ≠ testCaseName b.path))
    (f : CFile) (hf : f ∈ cfg.files) (suffix : Str) (hs : suffix.length = 8) :
    fileOfDb cfg (dbName f.path suffix) = some f := by
  rw [fileOfDb_eq]
  exact find_dbMatches cfg.files hd f hf suffix hs

/-- … and to nothing else: whatever `fileOfDb` returns is a selected file whose test-case name is
the prefix of the database name -/
theorem fileOfDb_some (cfg : MonCfg) (db : Str) (f : CFile) (h : fileOfDb cfg db = some f) :
    f ∈ cfg.files ∧ db.length = (testCaseName f.path).length + 9 ∧
      (testCaseName f.path ++ ['_']) <+: db := by
  rw [fileOfDb_eq] at h
  have := find_dbMatches_some cfg.files db f h
  refine ⟨this.1, ?_⟩
  have h2 := this.2
  unfold dbMatches at h2
  rw [Bool.and_eq_true] at h2
  exact ⟨by simpa using h2.1, List.isPrefixOf_iff_prefix.mp h2.2⟩

/-! ### the monitor is sound

`accepts cfg log = none` (no violation found in the observed log) implies the declarative
specification `MonSpec cfg log` (`Lemmas/CliMonSpec.lean`), stated by positions
`log = pre ++ e :: post`.  `OpenFor pre s db`: session `s` was started for database `db` in `pre`
and no `eof s` follows it there. -/

/-- **Monitor soundness.** -/
theorem monitor_sound {cfg : MonCfg} (hj : cfg.jobs > 0) {log : List CEv}
    (h : accepts cfg log = none) : MonSpec cfg log :=
  monSpec_of_accepts hj h

variable {cfg : MonCfg} {log : List CEv}

/-- **Create before use**: a session for a per-file database is preceded by the creation of that
database and not by its drop. -/
theorem create_before_use (hj : cfg.jobs > 0) (h : accepts cfg log = none)
    (pre post : List CEv) (s : Nat) (db : Str) (hlog : log = pre ++ CEv.connect s db :: post)
    (hdb : db ≠ cfg.mgmtDb) : CEv.create db ∈ pre ∧ CEv.drop db ∉ pre :=
  (monitor_sound hj h).createBeforeUse pre s db post hlog hdb

/-- **Unique creation**: no database is created twice. -/
theorem unique_creation (hj : cfg.jobs > 0) (h : accepts cfg log = none) (db : Str) :
    log.count (CEv.create db) ≤ 1 :=
  (monitor_sound hj h).create_count db

/-- **Exclusive use**: every SQL text arrives on an open session; if the text carries an owner
marker ` -- F<path>` (it was written in test file `<path>`), then that session's database is a
per-file one — never the management database — and `<path>` is the file it was created for; and on
a per-file database a `dbname …` line (the expansion of `$__DATABASE__`) names exactly that
database. -/
theorem exclusive_use (hj : cfg.jobs > 0) (h : accepts cfg log = none)
    (pre post : List CEv) (s : Nat) (text : Str) (hlog : log = pre ++ CEv.sql s text :: post) :
    ∃ db, OpenFor pre s db ∧
      (∀ o, sqlOwner text = some o →
        db ≠ cfg.mgmtDb ∧ ∃ f, fileOfDb cfg db = some f ∧ f.path = o) ∧
      (db ≠ cfg.mgmtDb → ((kw "dbname ").isPrefixOf text = true →
        (kw "dbname " ++ db ++ kw " -- F").isPrefixOf text = true)) :=
  (monitor_sound hj h).exclusiveUse pre s text post hlog

/-- **Bounded concurrency**: after every prefix of the log, at most `jobs` distinct per-file
databases have an open session. -/
theorem bounded_concurrency (hj : cfg.jobs > 0) (h : accepts cfg log = none)
    (pre post : List CEv) (hlog : log = pre ++ post) (dbs : List Str) (hnd : dbs.Nodup)
    (hdbs : ∀ db ∈ dbs, db ≠ cfg.mgmtDb ∧ ∃ s, OpenFor pre s db) : dbs.length ≤ cfg.jobs :=
  (monitor_sound hj h).bounded pre post hlog dbs hnd hdbs

/-- **Close before drop**: when a database is dropped, every session that was started for it has
seen its end-of-file. -/
theorem close_before_drop (hj : cfg.jobs > 0) (h : accepts cfg log = none)
    (pre post : List CEv) (db : Str) (hlog : log = pre ++ CEv.drop db :: post)
    (p1 p2 : List CEv) (s : Nat) (hpre : pre = p1 ++ CEv.connect s db :: p2) : CEv.eof s ∈ p2 := by
  apply Classical.byContradiction
  intro hn
  exact (monitor_sound hj h).closeBeforeDrop pre db post hlog s ⟨p1, p2, hpre, hn⟩

/-- **Dropped exactly once** — unless kept (keep-on-failure and the file failed: then not dropped at
all) or the server is assumed down after a refused connection. -/
theorem dropped_exactly_once (hj : cfg.jobs > 0) (h : accepts cfg log = none)
    (hr : cfg.refused = false) (db : Str) (hc : CEv.create db ∈ log) :
    (¬ keptDb cfg db → log.count (CEv.drop db) = 1) ∧
    (keptDb cfg db → log.count (CEv.drop db) = 0) := by
  refine ⟨(monitor_sound hj h).drop_count hr db hc, ?_⟩
  intro hk
  exact List.count_eq_zero.mpr (((monitor_sound hj h).allDropped hr db hc).1 hk)

/-- never more than once, and only what was created — also after a refused connection -/
theorem dropped_at_most_once (hj : cfg.jobs > 0) (h : accepts cfg log = none)
    (pre post : List CEv) (db : Str) (hlog : log = pre ++ CEv.drop db :: post) :
    CEv.create db ∈ pre ∧ CEv.drop db ∉ pre :=
  (monitor_sound hj h).dropOnce pre db post hlog

/-- **Every session is closed**: each `connect` is followed by the `eof` of that session. -/
theorem every_session_closed (hj : cfg.jobs > 0) (h : accepts cfg log = none)
    (pre post : List CEv) (s : Nat) (db : Str) (hlog : log = pre ++ CEv.connect s db :: post) :
    CEv.eof s ∈ post :=
  (monitor_sound hj h).allClosed pre s db post hlog

/-- **Monitor completeness**: a log that satisfies the specification, and in which no session
identifier (engine process id) is used for two `connect`s, is accepted. -/
theorem monitor_complete (hj : cfg.jobs > 0) (hd : SessionsDistinct log) (h : MonSpec cfg log) :
    accepts cfg log = none :=
  accepts_of_spec hj log hd h

/-- hence, for logs with distinct session identifiers, acceptance is equivalent to the declarative
specification -/
theorem monitor_iff (hj : cfg.jobs > 0) (hd : SessionsDistinct log) :
    accepts cfg log = none ↔ MonSpec cfg log :=
  ⟨monitor_sound hj, monitor_complete hj hd⟩

/-! ### the driver, for every schedule

`drun c (dinit c) ls = some s`: the label list `ls` — which file starts or finishes next, which
session it opens, what it sends, when Ctrl-C arrives — is a possible behaviour of the driver and
leads to state `s`.  `DWf c mgmt` (`Lemmas/CliSimBase.lean`): the test-case names of the files are
pairwise distinct, every database name is `dbName path suffix` with an 8-character suffix, and the
management database differs from all of them. -/

variable {c : DCfg} {mgmt : Str} {ls : List DLabel} {s : DSt}

/-- **Every prefix of every schedule is accepted by the monitor's step function** (whatever the
final outcome flags of the monitor configuration are). -/
theorem driver_run_accepted (wf : DWf c mgmt) (h : drun c (dinit c) ls = some s) (s' : DSt) :
    ∃ m, monRun (monCfgOf c mgmt s') {} s.log = .ok m := by
  obtain ⟨m, hm, _⟩ := drun_monRun wf h s'
  exact ⟨m, hm⟩

/-- **Every finished run, for every schedule, is accepted by the monitor.** -/
theorem driver_accepted (wf : DWf c mgmt) (h : drun c (dinit c) ls = some s)
    (hp : s.phase = .finished) : accepts (monCfgOf c mgmt s) s.log = none :=
  drun_accepts wf h hp

/-- hence the log of every finished run satisfies the declarative specification -/
theorem driver_spec (wf : DWf c mgmt) (hj : c.jobs > 0) (h : drun c (dinit c) ls = some s)
    (hp : s.phase = .finished) : MonSpec (monCfgOf c mgmt s) s.log :=
  monSpec_of_accepts (cfg := monCfgOf c mgmt s) hj (drun_accepts wf h hp)

/-- **No more files in flight than jobs**, in every reachable state. -/
theorem inflight_le_jobs (h : drun c (dinit c) ls = some s) : s.inflight.length ≤ c.jobs :=
  drun_inflight_le h

/-- **Databases are created before the run**: once the creating phase is over, the `create` events
of the log are exactly the databases of the files, each once, in order. -/
theorem created_before_run (wf : DWf c mgmt) (h : drun c (dinit c) ls = some s)
    (hp : s.phase ≠ .creating) : createdOf s.log = c.files.map (·.db) :=
  drun_creates wf h hp

/-- **All sessions are closed** whenever the driver is not in its running phase — in particular
before the first `drop` and at the end: every `connect` in the log is followed by its `eof`. -/
theorem sessions_closed_at_finish (wf : DWf c mgmt) (h : drun c (dinit c) ls = some s)
    (hp : s.phase ≠ .running) (pre post : List CEv) (k : Nat) (db : Str)
    (hlog : s.log = pre ++ CEv.connect k db :: post) : CEv.eof k ∈ post := by
  apply Classical.byContradiction
  intro hn
  have : (k, db) ∈ openAt s.log := (mem_openAt s.log k db).mpr ⟨pre, post, hlog, hn⟩
  rw [drun_open_nil wf h hp] at this
  simp at this

/-- **The `drop` events of a finished run are exactly `dropList`**: every database except those of
failed files under keep-on-failure, each once, in file order; nothing after a refused connection. -/
theorem drops_at_finish (wf : DWf c mgmt) (h : drun c (dinit c) ls = some s)
    (hp : s.phase = .finished) :
    droppedOf s.log = if s.refused then [] else dropList c s.results :=
  drun_drops wf h hp

/-- **Dropped exactly once unless kept**: at the end of a run without a refused connection, the
database of file `i` has been dropped exactly once — except that it has not been dropped at all
when keeping databases on failure is requested and the file was reported as a failure. -/
theorem dropped_unless_kept (wf : DWf c mgmt) (h : drun c (dinit c) ls = some s)
    (hp : s.phase = .finished) (hr : s.refused = false) (i : Nat) (f : DFile)
    (hf : c.fileAt i = some f) :
    ((c.keep = true ∧ (i, FileResult.err) ∈ s.results) → s.log.count (CEv.drop f.db) = 0) ∧
    (¬(c.keep = true ∧ (i, FileResult.err) ∈ s.results) → s.log.count (CEv.drop f.db) = 1) := by
  have hd := drun_drops wf h hp
  rw [hr] at hd
  simp only [Bool.false_eq_true, ↓reduceIte] at hd
  have hmem := mem_dropList wf s.results hf
  have hany : (c.keep && s.results.any (fun r => r.1 = i && r.2 = FileResult.err)) = true ↔
      (c.keep = true ∧ (i, FileResult.err) ∈ s.results) := by
    rw [Bool.and_eq_true, List.any_eq_true]
    constructor
    · rintro ⟨h1, ⟨j, r⟩, h2, h3⟩
      simp only [Bool.and_eq_true, decide_eq_true_eq] at h3
      obtain ⟨rfl, rfl⟩ := h3
      exact ⟨h1, h2⟩
    · rintro ⟨h1, h2⟩
      exact ⟨h1, (i, FileResult.err), h2, by simp⟩
  rw [count_drop, hd]
  constructor
  · intro hk
    apply List.count_eq_zero.mpr
    intro hx
    have := hmem.mp hx
    rw [hany.mpr hk] at this
    cases this
  · intro hk
    have hx : f.db ∈ dropList c s.results := by
      apply hmem.mpr
      cases hb : (c.keep && s.results.any (fun r => r.1 = i && r.2 = FileResult.err)) with
      | false => rfl
      | true => exact absurd (hany.mp hb) hk
    have h1 : (dropList c s.results).count f.db ≤ 1 :=
      List.nodup_iff_count.mp (dropList_nodup wf s.results) f.db
    have h2 : 0 < (dropList c s.results).count f.db := List.count_pos_iff.mpr hx
    omega

/-! ### concrete runs -/

/-- the hypotheses are satisfiable: the example configuration is well-formed -/
example : DWf exCfg (kw "main") := by
  refine ⟨by decide, ?_, by decide⟩
  intro f hf
  simp only [exCfg, List.mem_cons, List.not_mem_nil, or_false] at hf
  rcases hf with rfl | rfl | rfl
  · exact ⟨kw "00000000", by decide, by decide⟩
  · exact ⟨kw "00000001", by decide, by decide⟩
  · exact ⟨kw "00000002", by decide, by decide⟩

-- keep-on-failure: `a` fails, its database is kept, the two others are dropped
example : (drun exCfgKeep (dinit exCfgKeep) exRunKeep).map (fun s => droppedOf s.log) =
    some [kw "b_slt_00000001", kw "c_slt_00000002"] := by decide
example : (drun exCfgKeep (dinit exCfgKeep) exRunKeep).map
    (fun s => accepts (monCfgOf exCfgKeep (kw "main") s) s.log) = some none := by decide
-- a third file cannot start while two are in flight with `-j 2`
example : (drun exCfg (dinit exCfg)
    [.create, .create, .create, .beginRun, .start, .start, .start]).isNone = true := by decide
-- SQL of file `a` on a session of file `b` is not a transition of the driver …
example : (drun exCfg (dinit exCfg)
    [.create, .create, .create, .beginRun, .start, .start, .openSession 0, .openSession 1,
     .sql 1 1 (kw "select 1 -- Fa.slt")]).isNone = true := by decide
-- … and a log in which it happens is rejected by the monitor
example : accepts (monCfgOf exCfg (kw "main") (dinit exCfg))
    [.create (kw "a_slt_00000000"), .create (kw "b_slt_00000001"),
     .connect 0 (kw "a_slt_00000000"), .connect 1 (kw "b_slt_00000001"),
     .sql 1 (kw "select 1 -- Fa.slt")] =
    some (.foreignSql (kw "b_slt_00000001") (kw "select 1 -- Fa.slt")) := by decide
-- a file's SQL on a management-database session (the CLI silently ran the serial path) is rejected
example : accepts (monCfgOf exCfg (kw "main") (dinit exCfg))
    [.connect 0 (kw "main"), .sql 0 (kw "select 1 -- Fa.slt"), .eof 0] =
    some (.foreignSql (kw "main") (kw "select 1 -- Fa.slt")) := by decide
-- while the management session's own statements are fine
example : accepts (monCfgOf { exCfg with files := [] } (kw "main") (dinit exCfg))
    [.connect 0 (kw "main"), .sql 0 (kw "CREATE DATABASE x;"), .eof 0] = none := by decide

/-! ### observed runs of the real CLI are runs of the driver model (trace inclusion)

The harness hands every parallel run of the real binary to `traceCheck` (CliTrace.lean) together with a
witness label sequence found by an untrusted search: the checker replays the witness through
`drun` and compares the model's log and results with the engine-side log and the printed status
tags (without the cancellation anchor, which is not an engine event).  These theorems say what a
positive answer means, so that everything proved about runs of `dstep` holds of the observed run. -/

/-- **The checker is exact**: it answers `ok` iff the witness is a finished run of the driver model
whose log is the observed log and whose per-file results are the observed status tags. -/
theorem trace_replay_iff {c : DCfg} {labels : List DLabel} {observed : List CEv}
    {tags : List FileResult} {exitZero : Bool} :
    traceCheck c labels observed tags exitZero = .ok ↔
      ∃ s, drun c (dinit c) labels = some s ∧ s.phase = .finished ∧
        stripCancel s.log = stripCancel observed ∧ tags.length = c.files.length ∧
        (∀ i, i < c.files.length → resultOf s.results i = tags[i]?) ∧
        dexitOk s = exitZero := by
  constructor
  · intro h
    obtain ⟨s, hs⟩ := traceCheck_ok h
    exact ⟨s, hs.run, hs.finished, hs.log, hs.ntags, hs.results, hs.exit⟩
  · rintro ⟨s, h1, h2, h3, h4, h5, h6⟩
    exact traceCheck_complete ⟨h1, h2, h3, h4, h5, h6⟩

/-- **An observed run that replays satisfies the specification of C17**: the model run with the same
engine-side events is accepted by the monitor, hence (for a parallel run) satisfies `MonSpec`. -/
theorem trace_replay_accepted {c : DCfg} {mgmt : Str} {labels : List DLabel} {observed : List CEv}
    {tags : List FileResult} {exitZero : Bool} (wf : DWf c mgmt)
    (h : traceCheck c labels observed tags exitZero = .ok) :
    ∃ s : DSt, stripCancel s.log = stripCancel observed ∧ s.inflight.length ≤ c.jobs ∧
      accepts (monCfgOf c mgmt s) s.log = none ∧
      (c.jobs > 0 → MonSpec (monCfgOf c mgmt s) s.log) := by
  obtain ⟨s, hs⟩ := traceCheck_ok h
  exact ⟨s, hs.log, drun_inflight_le hs.run, drun_accepts wf hs.run hs.finished,
    fun hj => monSpec_of_accepts (cfg := monCfgOf c mgmt s) hj (drun_accepts wf hs.run hs.finished)⟩

/-- … and the hypotheses on the configuration are themselves checked on every observed run: the
replay operation of the driver answers `accept` only if `traceCheck … = ok` and `dwfB c mgmt = true`,
which is all the conclusion needs. -/
theorem trace_replay_checked {c : DCfg} {mgmt : Str} {labels : List DLabel} {observed : List CEv}
    {tags : List FileResult} {exitZero : Bool} (hw : dwfB c mgmt = true)
    (h : traceCheck c labels observed tags exitZero = .ok) :
    ∃ s : DSt, stripCancel s.log = stripCancel observed ∧ s.inflight.length ≤ c.jobs ∧
      accepts (monCfgOf c mgmt s) s.log = none ∧
      (c.jobs > 0 → MonSpec (monCfgOf c mgmt s) s.log) :=
  trace_replay_accepted (dwf_of_dwfB hw) h

example : dwfB exCfg (kw "main") = true := by decide

-- the checker on the example runs: the model's own log replays, a log with one event missing or a
-- result changed does not
example : traceCheck exCfg exRunClose
    exCloseLog [.ok, .ok, .ok] true = .ok := by decide
example : traceCheck exCfg exRunClose
    (exCloseLog.drop 1) [.ok, .ok, .ok] true = .logDiffers 0 := by
  decide
example : traceCheck exCfg exRunClose
    exCloseLog [.ok, .err, .ok] true = .resultDiffers 1 := by
  decide
example : traceCheck exCfg (exRunClose.take 5)
    exCloseLog [.ok, .ok, .ok] true = .notFinished := by
  decide
example : traceCheck exCfg exRunClose exCloseLog [.ok, .ok, .ok] false = .exitDiffers := by decide
example : traceCheck exCfg (.start :: exRunClose) [] [.ok, .ok, .ok] true = .stuck 0 := by decide

end Slt.C17
