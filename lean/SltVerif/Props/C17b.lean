/-
C17, library counterpart (`Runner::run_parallel_async`, runner.rs): "every test file runs against its
own database … named uniquely within the run".

The library names the database of the `idx`-th file of the glob `libDbName path idx`
(`<test case name>_<idx>`; before the repair the name was the bare test case name, which is not
injective: see `bare_names_collide`).  The event log of real `run_parallel` runs is judged by the
same verified monitor as the CLI's (`C17.monitor_sound`).
-/
import SltVerif.Lemmas.CliLib
namespace Slt.C17
open Slt

/-- **Unique names (library).** Files at different positions of the glob get different databases,
whatever their paths. -/
theorem lib_names_unique (p q : Str) (i j : Nat) (h : i ≠ j) : libDbName p i ≠ libDbName q j := by
  intro e
  unfold libDbName at e
  have := split_last_unique '_' _ _ _ _ (underscore_not_in_natToStr i)
    (underscore_not_in_natToStr j) e
  exact h (natToStr_injective this.2)

/-- the name determines the position and the test-case name -/
theorem lib_name_determines (p q : Str) (i j : Nat) (e : libDbName p i = libDbName q j) :
    i = j ∧ testCaseName p = testCaseName q := by
  unfold libDbName at e
  have := split_last_unique '_' _ _ _ _ (underscore_not_in_natToStr i)
    (underscore_not_in_natToStr j) e
  exact ⟨natToStr_injective this.2, this.1⟩

/-- why the index is needed: the bare test-case name (the library's naming before the repair) maps
different files to one database -/
theorem bare_names_collide :
    kw "t/a-b.slt" ≠ kw "t/a_b.slt" ∧ testCaseName (kw "t/a-b.slt") = testCaseName (kw "t/a_b.slt") := by
  decide

example : libDbName (kw "t/a-b.slt") 0 = kw "t_a_b_slt_0" ∧ libDbName (kw "t/a_b.slt") 1 = kw "t_a_b_slt_1" := by
  decide

end Slt.C17
