/-
C18 — Partitions are disjoint, exhaustive and stable across processes.

Theorems about `Slt.selected` / `Slt.selectFiles` / `Slt.partitionConfig` (model of
`HashPartitioner` and of the option handling, main.rs 161-184, 282-310) for an ARBITRARY hash
function `h : path → Nat`; the concrete hash (`Slt.pathHash` = SipHash-1-3 with zero keys over the
path bytes followed by 0xFF = `DefaultHasher::new()` + `impl Hash for str`) is compared with the
real one by the correspondence check, in-process and across CLI processes.
-/
import SltVerif.Cli
namespace Slt.C18
open Slt

variable (h : Str → Nat)

/-- **Every file belongs to exactly one partition.** -/
theorem part_cover (N : Nat) (hN : 0 < N) (f : Str) :
    ∃ id, id < N ∧ selected h N id f = true ∧ ∀ id', selected h N id' f = true → id' = id := by
  refine ⟨h f % N, Nat.mod_lt _ hN, by simp [selected], ?_⟩
  intro id' hid
  simp [selected] at hid
  exact hid.symm

/-- **Disjoint**: two different ids never select the same file. -/
theorem part_disjoint (N id₁ id₂ : Nat) (f : Str) (hne : id₁ ≠ id₂) :
    ¬ (selected h N id₁ f = true ∧ selected h N id₂ f = true) := by
  simp only [selected, beq_iff_eq]
  rintro ⟨h1, h2⟩
  exact hne (h1.symm.trans h2)

/-- **Stable**: membership depends on nothing but the path's hash, the count and the id — no
process state, no position in the list, no other file. -/
theorem part_pure (N id : Nat) (f g : Str) (hfg : h f = h g) :
    selected h N id f = selected h N id g := by
  simp [selected, hfg]

/-- the selection of partition `id` among the matches of one glob -/
def selection (N id : Nat) (files : List Str) : List Str := files.filter (selected h N id)

/-- **Exhaustive**: every matched file is in the selection of its own partition, which is one of
`0..N-1`; **no invention**: a selection only contains matched files, in their original order. -/
theorem selections_cover (N : Nat) (hN : 0 < N) (files : List Str) (f : Str) (hf : f ∈ files) :
    ∃ id, id < N ∧ f ∈ selection h N id files := by
  refine ⟨h f % N, Nat.mod_lt _ hN, ?_⟩
  simp [selection, selected, hf]

theorem selection_sublist (N id : Nat) (files : List Str) :
    (selection h N id files).Sublist files := List.filter_sublist

/-- the partitions are pairwise disjoint as lists -/
theorem selections_disjoint (N id₁ id₂ : Nat) (files : List Str) (hne : id₁ ≠ id₂) (f : Str) :
    ¬ (f ∈ selection h N id₁ files ∧ f ∈ selection h N id₂ files) := by
  simp only [selection, List.mem_filter]
  rintro ⟨⟨_, h1⟩, ⟨_, h2⟩⟩
  exact part_disjoint h N id₁ id₂ f hne ⟨h1, h2⟩

/-- counting: the sizes of the `N` selections add up to the number of matched files (together
with disjointness: the union of the selections is the match, as multisets) -/
theorem selections_count (N : Nat) (hN : 0 < N) (files : List Str) :
    ((List.range N).map (fun id => (selection h N id files).length)).sum = files.length := by
  have hzero : ∀ (n : Nat) (g : Nat → Nat), (∀ i, i < n → g i = 0) →
      ((List.range n).map g).sum = 0 := by
    intro n
    induction n with
    | zero => intro g _; simp
    | succ n ihn =>
      intro g hg
      simp [List.range_succ, ihn g (fun i hi => hg i (by omega)), hg n (by omega)]
  induction files with
  | nil => simpa [selection] using hzero N (fun _ => 0) (fun _ _ => rfl)
  | cons f fs ih =>
    have key : ∀ id, (selection h N id (f :: fs)).length =
        (selection h N id fs).length + (if h f % N = id then 1 else 0) := by
      intro id
      simp only [selection, List.filter_cons, selected, beq_iff_eq]
      split <;> simp
    simp only [key]
    have hsum : ∀ (g k : Nat → Nat) (n : Nat),
        ((List.range n).map (fun i => g i + k i)).sum =
          ((List.range n).map g).sum + ((List.range n).map k).sum := by
      intro g k n
      induction n with
      | zero => simp
      | succ n ihn => simp [List.range_succ, ihn]; omega
    rw [hsum, ih]
    have hone : ∀ (n m : Nat), m < n →
        ((List.range n).map (fun id => if m = id then 1 else 0)).sum = 1 := by
      intro n
      induction n with
      | zero => intro m hm; omega
      | succ n ihn =>
        intro m hm
        simp only [List.range_succ, List.map_append, List.sum_append, List.map_cons, List.map_nil,
          List.sum_cons, List.sum_nil]
        by_cases hmn : m = n
        · subst hmn
          have hz : ((List.range m).map (fun id => if m = id then 1 else 0)).sum = 0 :=
            hzero m _ (fun i hi => by simp; omega)
          simp [hz]
        · have := ihn m (by omega)
          simp [this, hmn]
    rw [hone N (h f % N) (Nat.mod_lt _ hN)]
    simp

/-- **Invalid configurations are rejected**: `N = 0`, an id not below `N`, or a count without an id
make the CLI stop with an error (nothing runs). -/
theorem part_validation (count id : Option Nat)
    (hbad : count = some 0 ∨ (∃ c i, count = some c ∧ id = some i ∧ i ≥ c) ∨
      (∃ c, count = some c ∧ id = none)) :
    partitionConfig count id = .error () := by
  rcases hbad with h0 | ⟨c, i, hc, hi, hge⟩ | ⟨c, hc, hi⟩
  · subst h0; cases id <;> simp [partitionConfig]
  · subst hc hi
    simp only [partitionConfig]
    by_cases hz : c = 0
    · simp [hz]
    · simp [hz, hge]
  · subst hc hi; simp [partitionConfig]

/-- … and a valid configuration builds exactly that partitioner. -/
theorem part_valid (c i : Nat) (hc : 0 < c) (hi : i < c) :
    partitionConfig (some c) (some i) = .ok (some (c, i)) := by
  have : ¬ c = 0 := by omega
  have h2 : ¬ i ≥ c := by omega
  simp [partitionConfig, this, h2]

/-- the documented rule: a glob that matched at most one file is not filtered -/
theorem single_match_unfiltered (cfg : Option (Nat × Nat)) (files : List Str)
    (hlen : files.length ≤ 1) : selectFiles h cfg files = files := by
  cases cfg with
  | none => rfl
  | some p =>
    obtain ⟨c, i⟩ := p
    have : ¬ files.length > 1 := by omega
    simp [selectFiles, this]

theorem multi_match_filtered (c i : Nat) (files : List Str) (hlen : files.length > 1) :
    selectFiles h (some (c, i)) files = selection h c i files := by
  simp [selectFiles, hlen, selection]

/-! ### where the configuration comes from (flags, `SLT_PARTITION_*`, the CI system's variables) -/

/-- **The CI system's variables are consulted only when neither `SLT_PARTITION_*` variable is set** … -/
theorem ci_ignored_when_slt_set (s : PartSources) (hs : s.sltId.isSome = true ∨ s.sltCount.isSome = true) :
    importCi s = (s.sltCount, s.sltId) := by
  unfold importCi
  rcases hs with hs | hs <;> simp [hs]

/-- … **and only as a pair**: with one of the two missing nothing is imported. -/
theorem ci_needs_both (s : PartSources) (h1 : s.sltId = none) (h2 : s.sltCount = none)
    (hb : s.bkId = none ∨ s.bkCount = none) : importCi s = (none, none) := by
  unfold importCi
  simp only [h1, h2, Option.isSome_none, Bool.or_self, Bool.false_eq_true, if_false]
  rcases hb with hb | hb
  · rw [hb]
  · rw [hb]; cases s.bkId <;> rfl

theorem ci_pair_imported (s : PartSources) (h1 : s.sltId = none) (h2 : s.sltCount = none) (i c : Str)
    (hi : s.bkId = some i) (hc : s.bkCount = some c) : importCi s = (some c, some i) := by
  unfold importCi
  simp [h1, h2, hi, hc]

/-- **A count given through `SLT_PARTITION_COUNT` alone stays a count without an id** — it is not
completed by the CI system's job number — and is rejected. -/
theorem slt_count_alone_rejected (s : PartSources) (c : Str) (n : Nat)
    (hfc : s.flagCount = none) (hfi : s.flagId = none) (hsi : s.sltId = none)
    (hsc : s.sltCount = some c) (hn : parseU64 c = some n) :
    partitionFromSources s = .error () := by
  have hci : importCi s = (some c, none) := by
    unfold importCi
    simp [hsc, hsi]
  unfold partitionFromSources effectivePart
  simp only [hci, hfc, hfi, Option.orElse_none, hn]
  rfl

/-- **Flags win over the environment**: with both flags given the environment is irrelevant. -/
theorem flags_win (s : PartSources) (c i : Str) (hc : s.flagCount = some c) (hi : s.flagId = some i) :
    effectivePart s = (some c, some i) := by
  unfold effectivePart
  simp [hc, hi]

/-- **A value that is not a number is rejected** (count or id, from any source). -/
theorem non_numeric_rejected (s : PartSources) (t : Str)
    (h : (effectivePart s).1 = some t ∨ (effectivePart s).2 = some t) (hn : parseU64 t = none) :
    partitionFromSources s = .error () := by
  unfold partitionFromSources
  rcases h with h | h
  · simp only [h, hn]
  · simp only [h, hn]
    split
    · rename_i h1 h2; cases h2
    · rfl

-- the CI pair is used when nothing else is given; one SLT variable switches it off
#guard (match partitionFromSources { bkCount := some (kw "4"), bkId := some (kw "1") } with
  | .ok (some (4, 1)) => true | _ => false)
#guard (match partitionFromSources { sltCount := some (kw "2"), bkCount := some (kw "2"), bkId := some (kw "0") } with
  | .error _ => true | _ => false)
#guard (match partitionFromSources { flagCount := some (kw "3"), bkCount := some (kw "2"), bkId := some (kw "1") } with
  | .ok (some (3, 1)) => true | _ => false)
#guard (match partitionFromSources { sltId := some (kw "1"), bkCount := some (kw "2"), bkId := some (kw "0") } with
  | .ok none => true | _ => false)

-- Non-vacuity (executable SipHash: tests)
#guard pathHash (kw "tests/slt/basic.slt") = 9565749753920301976
#guard (selection pathHash 3 0 [kw "a.slt", kw "b.slt", kw "c.slt", kw "d.slt"]).length +
       (selection pathHash 3 1 [kw "a.slt", kw "b.slt", kw "c.slt", kw "d.slt"]).length +
       (selection pathHash 3 2 [kw "a.slt", kw "b.slt", kw "c.slt", kw "d.slt"]).length = 4
example : selected (fun _ => 7) 3 1 (kw "x") = true := by decide

end Slt.C18
