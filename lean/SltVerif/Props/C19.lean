/-
C19 — fail-fast and Ctrl-C.

"With fail-fast, once a file has failed no further file is started: unstarted files are reported
skipped, in-flight ones cancelled, and the exit status is non-zero. On Ctrl-C, whenever it arrives
during a run, the CLI stops sending SQL for test files, reports running files as cancelled and
pending ones as skipped, closes every database connection it opened, drops the temporary databases
it created in parallel mode, still writes the JUnit report if one was requested, and exits non-zero
within bounded time."

Theorems about the serial driver's fold (`runSerial`) and the parallel driver's transition system
(`dstep`, `drun`) of `SltVerif/Cli.lean`.  Helper definitions and lemmas are in `Lemmas/Cli*.lean`.
-/
import SltVerif.Lemmas.CliSerial
import SltVerif.Lemmas.CliCancel
import SltVerif.Lemmas.CliExample
import SltVerif.Lemmas.CliAccept
import SltVerif.Lemmas.CliParallel
import SltVerif.Lemmas.CliProgress
import SltVerif.Lemmas.CliTrace
import SltVerif.Lemmas.CliBegun
namespace Slt.C19
open Slt

/-! ### serial mode -/

/-- **A Ctrl-C during any file makes the exit status non-zero.** -/
theorem serial_cancel_exit (ff : Bool) (files : List (Ground × Bool))
    (h : ∃ g ∈ files, g.2 = true) : exitOk (runSerial ff files) = false := by
  have hc := runSerialFrom_signal ff files {} h
  rw [← runSerial_eq] at hc
  simp [exitOk, hc]

/-- **Fail-fast, serial**: the files before the first failure are reported ok, the failing one as
failure, every later one skipped; the exit status is non-zero. -/
theorem serial_fail_fast (ff : Bool) (files pre post : List (Ground × Bool)) (g : Ground × Bool)
    (r : Bool) (hff : ff = true) (hfiles : files = pre ++ g :: post)
    (hpre : ∀ x ∈ pre, x.1 = Ground.pass ∧ x.2 = false)
    (hg : g.1 = Ground.fail r) (hsig : g.2 = false) :
    (runSerial ff files).results =
      pre.map (fun _ => FileResult.ok) ++ [FileResult.err] ++ post.map (fun _ => FileResult.skipped) ∧
    exitOk (runSerial ff files) = false := by
  subst hfiles
  have hpre' : ∀ x ∈ pre, isCause ff x = false := by
    intro x hx
    obtain ⟨h1, h2⟩ := hpre x hx
    simp [isCause, h1, h2]
  have hcause : isCause ff g = true := by simp [isCause, hg, hsig, hff]
  have := runSerialFrom_shape ff {} pre post g rfl hpre' hcause
  rw [← runSerial_eq] at this
  have hj : judgeFile g = FileResult.err := by simp [judgeFile, hg, hsig]
  have hm : pre.map judgeFile = pre.map (fun _ => FileResult.ok) := by
    apply List.map_congr_left
    intro x hx
    obtain ⟨h1, h2⟩ := hpre x hx
    simp [judgeFile, h1, h2]
  refine ⟨?_, ?_⟩
  · rw [this.2, hj, hm]; simp
  · simp [exitOk, this.1]

/-- **Ctrl-C, serial**: the files before the one that is running when the signal arrives are judged
(here: all pass), the running one is reported cancelled, every later one skipped; exit non-zero. -/
theorem serial_signal (ff : Bool) (files pre post : List (Ground × Bool)) (g : Ground × Bool)
    (hfiles : files = pre ++ g :: post)
    (hpre : ∀ x ∈ pre, x.1 = Ground.pass ∧ x.2 = false) (hsig : g.2 = true) :
    (runSerial ff files).results =
      pre.map (fun _ => FileResult.ok) ++ [FileResult.cancelled] ++
        post.map (fun _ => FileResult.skipped) ∧
    exitOk (runSerial ff files) = false := by
  subst hfiles
  have hpre' : ∀ x ∈ pre, isCause ff x = false := by
    intro x hx
    obtain ⟨h1, h2⟩ := hpre x hx
    simp [isCause, h1, h2]
  have hcause : isCause ff g = true := by simp [isCause, hsig]
  have := runSerialFrom_shape ff {} pre post g rfl hpre' hcause
  rw [← runSerial_eq] at this
  have hj : judgeFile g = FileResult.cancelled := by simp [judgeFile, hsig]
  have hm : pre.map judgeFile = pre.map (fun _ => FileResult.ok) := by
    apply List.map_congr_left
    intro x hx
    obtain ⟨h1, h2⟩ := hpre x hx
    simp [judgeFile, h1, h2]
  refine ⟨?_, ?_⟩
  · rw [this.2, hj, hm]; simp
  · simp [exitOk, this.1]

/-- the general form: whatever the earlier files do (as long as they do not cancel the run), the
file running at the signal is `cancelled` and the later ones are `skipped` -/
theorem serial_signal_general (ff : Bool) (pre post : List (Ground × Bool)) (g : Ground × Bool)
    (hpre : ∀ x ∈ pre, isCause ff x = false) (hsig : g.2 = true) :
    (runSerial ff (pre ++ g :: post)).results =
      pre.map judgeFile ++ [FileResult.cancelled] ++ post.map (fun _ => FileResult.skipped) := by
  have hcause : isCause ff g = true := by simp [isCause, hsig]
  have := runSerialFrom_shape ff {} pre post g rfl hpre hcause
  rw [← runSerial_eq] at this
  have hj : judgeFile g = FileResult.cancelled := by simp [judgeFile, hsig]
  rw [this.2, hj]; simp

/-- **Ctrl-C between two files, serial**: a signal that takes effect after the first `k` files are
through leaves their results as they are, every later file is skipped, and the exit status is
non-zero — also when `k` is the number of files (the signal arrives after the last file). -/
theorem serial_signal_between (ff : Bool) (files : List Ground) (k : Nat) :
    (runSerialSigBetween ff files k).results =
      (runSerial ff ((files.take k).map (fun g => (g, false)))).results ++
        (files.drop k).map (fun _ => FileResult.skipped) ∧
    exitOk (runSerialSigBetween ff files k) = false := by
  unfold runSerialSigBetween
  have hfold : ∀ (l : List Ground) (st : SerialState),
      l.foldl (fun st g => serialStep ff st (g, false)) st =
        runSerialFrom ff st (l.map (fun g => (g, false))) := by
    intro l
    induction l with
    | nil => intro st; rfl
    | cons g rest ih => intro st; simp only [List.foldl_cons, List.map_cons, runSerialFrom_cons]; exact ih _
  have hskip : ∀ (l : List Ground) (st : SerialState), st.cancelled = true →
      (runSerialFrom ff st (l.map (fun g => (g, false)))).results =
        st.results ++ l.map (fun _ => FileResult.skipped) ∧
      (runSerialFrom ff st (l.map (fun g => (g, false)))).cancelled = true := by
    intro l
    induction l with
    | nil => intro st hc; simp [hc]
    | cons g rest ih =>
      intro st hc
      simp only [List.map_cons, runSerialFrom_cons]
      have hstep : serialStep ff st (g, false) = { st with results := st.results ++ [.skipped] } := by
        simp [serialStep, hc]
      rw [hstep]
      obtain ⟨h1, h2⟩ := ih { st with results := st.results ++ [.skipped] } hc
      exact ⟨by rw [h1]; simp, h2⟩
  rw [hfold, hfold, runSerial_eq]
  obtain ⟨h1, h2⟩ := hskip (files.drop k)
    { runSerialFrom ff {} ((files.take k).map (fun g => (g, false))) with cancelled := true } rfl
  refine ⟨h1, ?_⟩
  unfold exitOk
  rw [h2]
  simp

/-- the report is always complete: one result per file, whenever the cancellation happens -/
theorem serial_report_complete (ff : Bool) (files : List (Ground × Bool)) :
    (runSerial ff files).results.length = files.length := by
  rw [runSerial_eq, runSerialFrom_results_length]
  simp

/-! ### parallel mode: the driver's transition system, for every schedule -/

/-- **The cancellation flag is never reset.** -/
theorem cancelled_never_reset {c : DCfg} {s s' : DSt} {l : DLabel} (h : dstep c s l = some s')
    (hc : s.cancelled = true) : s'.cancelled = true :=
  dstep_cancelled_mono h hc

theorem cancelled_never_reset_run {c : DCfg} {s s' : DSt} {ls : List DLabel}
    (h : drun c s ls = some s') (hc : s.cancelled = true) : s'.cancelled = true :=
  drun_cancelled_mono ls s s' hc h

/-- **Once cancelled, no step starts an engine session or sends SQL**: whatever label is taken, the
events it appends to the log are only `eof` (closing a session) and `drop` (cleaning up). -/
theorem no_connect_when_cancelled {c : DCfg} {s s' : DSt} {l : DLabel} (h : dstep c s l = some s')
    (hc : s.cancelled = true) (hp : s.phase ≠ .creating) :
    ∃ evs, s'.log = s.log ++ evs ∧
      ∀ e ∈ evs, (∀ k db, e ≠ CEv.connect k db) ∧ (∀ k t, e ≠ CEv.sql k t) ∧
        ((∃ k, e = CEv.eof k) ∨ (∃ db, e = CEv.drop db)) := by
  obtain ⟨evs, he, _, hq, _⟩ := dstep_log h
  refine ⟨evs, he, fun e hmem => ?_⟩
  have := hq hc hp e hmem
  refine ⟨CEv.quiet_not_connect this, CEv.quiet_not_sql this, ?_⟩
  cases e <;> simp [CEv.quiet] at this ⊢

/-- **No start after cancel** (for every schedule): in the log of any run from the initial state,
nothing after the `cancel` event is a `connect` or an `sql` — only `eof`s and `drop`s follow. -/
theorem no_start_after_cancel {c : DCfg} {ls : List DLabel} {s : DSt}
    (h : drun c (dinit c) ls = some s) (pre post : List CEv) (hlog : s.log = pre ++ CEv.cancel :: post) :
    s.cancelled = true ∧
    ∀ e ∈ post, (∀ k db, e ≠ CEv.connect k db) ∧ (∀ k t, e ≠ CEv.sql k t) ∧ e ≠ CEv.cancel := by
  obtain ⟨hc, hq⟩ := (drun_cancelLogInv ls s h).2 pre post hlog
  exact ⟨hc, fun e he => ⟨CEv.quiet_not_connect (hq e he), CEv.quiet_not_sql (hq e he),
    CEv.quiet_not_cancel (hq e he)⟩⟩

/-- the same for a failure under fail-fast (which leaves no event in the engine-side log): whatever
happens after a state with the flag set appends only `eof`s and `drop`s -/
theorem no_start_after_cancelled_state {c : DCfg} {ls : List DLabel} {s s' : DSt}
    (h : drun c s ls = some s') (hc : s.cancelled = true) (hp : s.phase ≠ .creating) :
    ∃ evs, s'.log = s.log ++ evs ∧
      ∀ e ∈ evs, (∀ k db, e ≠ CEv.connect k db) ∧ (∀ k t, e ≠ CEv.sql k t) := by
  obtain ⟨evs, he, hq⟩ := drun_log_cancelled ls s s' hc hp h
  exact ⟨evs, he, fun e hmem => ⟨CEv.quiet_not_connect (hq e hmem), CEv.quiet_not_sql (hq e hmem)⟩⟩

/-- **A file started after the cancellation is reported skipped and opens no session**; it waits
until nothing is in flight. -/
theorem start_after_cancel_skipped {c : DCfg} {s s' : DSt} (h : dstep c s .start = some s')
    (hc : s.cancelled = true) :
    ∃ i rest, s.pending = i :: rest ∧ s'.pending = rest ∧
      s'.results = s.results ++ [(i, FileResult.skipped)] ∧
      s.inflight = [] ∧ s'.inflight = [] ∧ s'.log = s.log ∧ s'.nextSess = s.nextSess := by
  obtain ⟨i, rest, _, hpend, h3⟩ := dstep_start_inv h
  rcases h3 with ⟨_, hi, rfl⟩ | ⟨hc', _, _⟩
  · exact ⟨i, rest, hpend, rfl, rfl, hi, hi, rfl, rfl⟩
  · rw [hc] at hc'; cases hc'

/-- **Fail-fast: a processed failure sets the cancellation flag** (so does a refused connection,
with or without fail-fast). -/
theorem fail_fast_cancels {c : DCfg} {s s' : DSt} {i : Nat} {refused : Bool}
    (h : dstep c s (.finish i .err refused) = some s') (hff : c.failFast = true) :
    s'.cancelled = true := by
  obtain ⟨ss, _, _, _, _, _, rfl⟩ := dstep_finish_inv h
  simp [hff]

theorem refused_cancels {c : DCfg} {s s' : DSt} {i : Nat} {res : FileResult}
    (h : dstep c s (.finish i res true) = some s') : s'.cancelled = true := by
  obtain ⟨ss, _, _, _, _, hr, rfl⟩ := dstep_finish_inv h
  simp [hr rfl]

/-- **… and every file started afterwards is skipped**: in any continuation of a cancelled state,
the files taken from the pending queue are exactly a prefix `started` of it, each of them is
reported `skipped`, every other new result is the end of a file that was already in flight — a file
in flight that has opened a session ends cancelled or with its real result; one that had not yet
looked at the flag may be skipped (a `skipped` result of a file in flight implies that the file is
not in `begun`) —, nothing new is in flight and no session is opened (`begun` and `nextSess` do not
change): a file in flight afterwards was in flight before and its open sessions are a sublist of
those it had then (sessions are only closed, one by one by `closeSession` or all that are left by
`finish`). -/
theorem after_cancel_skipped {c : DCfg} {s s' : DSt} {ls : List DLabel}
    (h : drun c s ls = some s') (hc : s.cancelled = true) : CancelledRun s s' :=
  drun_cancelledRun ls s s' hc h

/-- the same after a failure under fail-fast: the files started afterwards are skipped; a file in
flight that has opened a session ends cancelled or with its real result; one that had not yet looked
at the flag may be skipped -/
theorem fail_fast_skips {c : DCfg} {s s1 s' : DSt} {i : Nat} {refused : Bool} {ls : List DLabel}
    (h1 : dstep c s (.finish i .err refused) = some s1) (hff : c.failFast = true)
    (h2 : drun c s1 ls = some s') : CancelledRun s1 s' :=
  after_cancel_skipped h2 (fail_fast_cancels h1 hff)

/-- Ctrl-C: the `signal` label sets the flag and leaves the `cancel` anchor in the log -/
theorem signal_cancels {c : DCfg} {s s' : DSt} (h : dstep c s .signal = some s') :
    s'.cancelled = true ∧ s'.log = s.log ++ [CEv.cancel] := by
  obtain ⟨_, _, rfl⟩ := dstep_signal_inv h
  exact ⟨rfl, rfl⟩

/-! ### cleanup on every path — for every schedule, wherever the signal or the failure occurs

`DWf c mgmt`: distinct test-case names, database names of the `dbName` shape, management database
different from all (`Lemmas/CliSimBase.lean`). The label lists `ls` range over all behaviours of
the driver, including a `signal` at any point of the running phase and any failure. -/

/-- **Every session that was opened is closed**: in a finished run — cancelled or not — every
`connect` in the log is followed by the `eof` of that session. -/
theorem all_closed {c : DCfg} {mgmt : Str} {ls : List DLabel} {s : DSt} (wf : DWf c mgmt)
    (h : drun c (dinit c) ls = some s) (hp : s.phase = .finished) (pre post : List CEv) (k : Nat)
    (db : Str) (hlog : s.log = pre ++ CEv.connect k db :: post) : CEv.eof k ∈ post := by
  apply Classical.byContradiction
  intro hn
  have : (k, db) ∈ openAt s.log := (mem_openAt s.log k db).mpr ⟨pre, post, hlog, hn⟩
  rw [drun_open_nil wf h (by simp [hp])] at this
  simp at this

/-- … and they are closed before the first database is dropped -/
theorem all_closed_before_drop {c : DCfg} {mgmt : Str} {ls : List DLabel} {s : DSt}
    (wf : DWf c mgmt) (h : drun c (dinit c) ls = some s) (hp : s.phase = .dropping)
    (pre post : List CEv) (k : Nat) (db : Str) (hlog : s.log = pre ++ CEv.connect k db :: post) :
    CEv.eof k ∈ post := by
  apply Classical.byContradiction
  intro hn
  have : (k, db) ∈ openAt s.log := (mem_openAt s.log k db).mpr ⟨pre, post, hlog, hn⟩
  rw [drun_open_nil wf h (by simp [hp])] at this
  simp at this

/-- **Every created database is dropped** — cancelled or not: all databases were created, and the
`drop` events of a finished run are exactly `dropList`: every database, each once, except those of
failed files under keep-on-failure; none if a connection was refused (the server is assumed down). -/
theorem all_dropped {c : DCfg} {mgmt : Str} {ls : List DLabel} {s : DSt} (wf : DWf c mgmt)
    (h : drun c (dinit c) ls = some s) (hp : s.phase = .finished) :
    createdOf s.log = c.files.map (·.db) ∧
    droppedOf s.log = (if s.refused then [] else dropList c s.results) ∧
    (c.keep = false → s.refused = false → droppedOf s.log = createdOf s.log) := by
  have h1 := drun_creates wf h (by simp [hp])
  have h2 := drun_drops wf h hp
  refine ⟨h1, h2, ?_⟩
  intro hk hr
  rw [h1, h2, hr]
  simp only [Bool.false_eq_true, ↓reduceIte]
  unfold dropList
  rw [hk]
  simp only [Bool.false_and, Bool.not_false]
  rw [List.filter_eq_self.mpr (fun _ _ => rfl)]
  have : c.files.map (·.db) = (c.files.zipIdx.map Prod.fst).map (·.db) := by
    rw [List.zipIdx_map_fst]
  rw [this, List.map_map]
  rfl

/-- the monitor's verdict on every finished run, cancelled or not -/
theorem cancelled_run_accepted {c : DCfg} {mgmt : Str} {ls : List DLabel} {s : DSt}
    (wf : DWf c mgmt) (h : drun c (dinit c) ls = some s) (hp : s.phase = .finished) :
    accepts (monCfgOf c mgmt s) s.log = none :=
  drun_accepts wf h hp

/-- **The report is complete on every path**: when the run phase is over — after a Ctrl-C or a
fail-fast cancellation just as well — there is exactly one result (JUnit case) per selected file. -/
theorem parallel_report_complete {c : DCfg} {ls : List DLabel} {s : DSt}
    (h : drun c (dinit c) ls = some s) (hp : s.phase = .dropping ∨ s.phase = .finished) :
    (s.results.map (·.1)).Perm (List.range c.files.length) :=
  results_perm_of_finished h hp

/-- a file that was still pending when the flag was set never gets any result but `skipped`
(combining `after_cancel_skipped` with the partition of the indices) -/
theorem pending_at_cancel_skipped {c : DCfg} {ls1 ls2 : List DLabel} {s s' : DSt}
    (h1 : drun c (dinit c) ls1 = some s) (hc : s.cancelled = true)
    (h2 : drun c s ls2 = some s') (i : Nat) (hi : i ∈ s.pending) (r : FileResult)
    (hr : (i, r) ∈ s'.results) : r = FileResult.skipped := by
  have hcr := drun_cancelledRun ls2 s s' hc h2
  obtain ⟨started, _, new, hres, _, hnew⟩ := hcr.pending
  have hidx := (drun_idxInv ls1 s h1).nodup
  rw [hres] at hr
  rcases List.mem_append.mp hr with hr | hr
  · exfalso
    have h3 : i ∈ s.results.map (·.1) := List.mem_map.mpr ⟨_, hr, rfl⟩
    exact (List.nodup_append.mp hidx).2.2 i (List.mem_append_left _ h3) i hi rfl
  · rcases hnew _ hr with ⟨_, h4⟩ | ⟨h4, _⟩
    · exact h4
    · exfalso
      exact (List.nodup_append.mp hidx).2.2 i (List.mem_append_right _ h4) i hi rfl

/-- **A file that has opened a session is never reported skipped** (for every schedule): `begun`
collects the files that passed the `is_cancelled()` test and opened a session; a file in flight can
end `skipped` only if it is not among them. -/
theorem begun_not_skipped {c : DCfg} {ls : List DLabel} {s : DSt}
    (h : drun c (dinit c) ls = some s) : ∀ i ∈ s.begun, (i, FileResult.skipped) ∉ s.results :=
  Slt.begun_not_skipped h

/-- the observable form: **a file for whose database a session was opened is never reported
skipped** — if the log of a run contains a `connect` for the database of file `i`, the results do
not contain `(i, skipped)`. -/
theorem connect_not_skipped {c : DCfg} {mgmt : Str} {ls : List DLabel} {s : DSt} (wf : DWf c mgmt)
    (h : drun c (dinit c) ls = some s) {i k : Nat} {f : DFile} (hf : c.fileAt i = some f)
    (hk : CEv.connect k f.db ∈ s.log) : (i, FileResult.skipped) ∉ s.results :=
  Slt.connect_not_skipped wf h hf hk

/-- a `skipped` result of a file that was in flight needs the flag, no session of that file, and no
open session of any file in flight: the step logs nothing -/
theorem finish_skipped_quiet {c : DCfg} {s s' : DSt} {i : Nat} {refused : Bool}
    (h : dstep c s (.finish i .skipped refused) = some s') :
    s.cancelled = true ∧ i ∉ s.begun ∧ (∀ p ∈ s.inflight, p.2 = []) ∧ s'.log = s.log := by
  obtain ⟨ss, _, hs, hsk, _, _, rfl⟩ := dstep_finish_inv h
  obtain ⟨h1, h2, h3⟩ := hsk rfl
  refine ⟨h1, h2, h3, ?_⟩
  have : ss = [] := h3 _ (sessionsOf_mem hs)
  simp [this]

/-- in any cancelled run there is a cause: the Ctrl-C anchor in the log, or a reported failure
under fail-fast / with a refused connection -/
theorem cancelled_has_cause {c : DCfg} {ls : List DLabel} {s : DSt}
    (h : drun c (dinit c) ls = some s) (hc : s.cancelled = true) :
    CEv.cancel ∈ s.log ∨
      ∃ i, (i, FileResult.err) ∈ s.results ∧ (c.failFast = true ∨ s.refused = true) :=
  (drun_resInv ls s h).cause hc

/-! ### bounded termination (in the model: number of driver steps, not wall-clock time) -/

/-- **After the cancellation every schedule is short**: from a state of the running phase with the
flag set, whatever the driver does next, it takes at most
`#open sessions + #in-flight + #pending + #files + 2` further steps (each open session is closed at
most once, each file in flight ends once, each pending file is skipped once, each database is
dropped at most once, plus the two phase changes). -/
theorem cancelled_run_bounded {c : DCfg} {ls : List DLabel} {s s' : DSt}
    (h : drun c s ls = some s') (hc : s.cancelled = true) (hp : s.phase = .running) :
    ls.length ≤ (s.inflight.map (fun p => p.2.length)).sum + s.inflight.length + s.pending.length +
      c.files.length + 2 := by
  have h1 := Slt.cancelled_run_bounded (c := c) ls s s' hc (by simp [hp]) h
  have h2 := cancelMeasure_running_le c s hp
  simp only [openSessions] at h2
  omega

/-- **… and it is never stuck**: from such a state the driver can always reach `finished` (ending
the files in flight as cancelled — `finish` closes whatever sessions a file has left at once —,
skipping the pending ones, dropping the databases), within `#in-flight + #pending + #files + 2`
steps, hence within the bound above. -/
theorem cancelled_can_finish {c : DCfg} (s : DSt) (hp : s.phase = .running)
    (hc : s.cancelled = true) :
    ∃ ls s', drun c s ls = some s' ∧ s'.phase = .finished ∧
      ls.length ≤ s.inflight.length + s.pending.length + c.files.length + 2 :=
  Slt.cancelled_can_finish s hp hc

/-! ### concrete runs -/

-- a serial run with a signal during the second of four files
example : (runSerial false [(.pass, false), (.fail false, true), (.pass, false), (.fail false, false)]).results
    = [.ok, .cancelled, .skipped, .skipped] := by decide
example : exitOk (runSerial false [(.pass, false), (.fail false, true), (.pass, false)]) = false := by
  decide
-- a signal after a failure without fail-fast
example : (runSerial false [(.fail false, false), (.pass, true), (.pass, false)]).results
    = [.err, .cancelled, .skipped] := by decide

-- parallel, 3 files, 2 jobs, fail-fast: `a` fails, the in-flight `b` is cancelled, `c` is skipped;
-- all sessions are closed and all three databases dropped: the monitor accepts the log
example : (drun exCfg (dinit exCfg) exRunFailFast).map (·.results) =
    some [(0, .err), (1, .cancelled), (2, .skipped)] := by decide
example : (drun exCfg (dinit exCfg) exRunFailFast).map
    (fun s => accepts (monCfgOf exCfg (kw "main") s) s.log) = some none := by decide
-- Ctrl-C while two files are in flight
example : (drun exCfg (dinit exCfg) exRunSignal).map (·.results) =
    some [(1, .cancelled), (0, .cancelled), (2, .skipped)] := by decide
example : (drun exCfg (dinit exCfg) exRunSignal).map
    (fun s => accepts (monCfgOf exCfg (kw "main") s) s.log) = some none := by decide
-- Ctrl-C while two files are in flight, their sessions closed one by one (`closeSession`), interleaved
example : (drun exCfg (dinit exCfg) exRunSignalClose).map (·.results) =
    some [(1, .cancelled), (0, .cancelled), (2, .skipped)] := by decide
example : (drun exCfg (dinit exCfg) exRunSignalClose).map
    (fun s => accepts (monCfgOf exCfg (kw "main") s) s.log) = some none := by decide
-- a start of a new session after the cancellation is not a transition
example : (drun exCfg (dinit exCfg)
    [.create, .create, .create, .beginRun, .start, .signal, .openSession 0]).isNone = true := by decide
-- an observed run (`-j 6`, five files, fail-fast, `d` a parse error): `a`, `c`, `e` have opened a session
-- and are cancelled; `b` occupies a slot but looks at the flag only after it is set: skipped
example : (drun exCfgFive (dinit exCfgFive) exRunLateSkip).map (fun s => (s.phase, s.results)) =
    some (.finished, [(3, .err), (0, .cancelled), (2, .cancelled), (4, .cancelled), (1, .skipped)]) := by
  decide
example : (drun exCfgFive (dinit exCfgFive) exRunLateSkip).map
    (fun s => accepts (monCfgOf exCfgFive (kw "main") s) s.log) = some none := by decide
-- a file that has opened a session cannot end skipped (here every session is already closed)
example : (drun exCfgFive (dinit exCfgFive)
    (exRunFivePrefix ++ [.closeSession 0 0, .closeSession 2 1, .closeSession 4 2,
      .finish 0 .skipped false])).isNone = true := by decide

/-! ### the same for observed runs (trace inclusion, `traceCheck`) -/

/-- **In every observed run that replays in the driver model, each engine session that was opened
was closed**: every `connect` of the observed log is followed by the `eof` of that session —
whenever and however the run was cancelled. -/
theorem observed_all_closed {c : DCfg} {mgmt : Str} {labels : List DLabel} {observed : List CEv}
    {tags : List FileResult} {exitZero : Bool} (wf : DWf c mgmt)
    (h : traceCheck c labels observed tags exitZero = .ok)
    (pre post : List CEv) (k : Nat) (db : Str)
    (hlog : stripCancel observed = pre ++ CEv.connect k db :: post) : CEv.eof k ∈ post := by
  obtain ⟨s, hs⟩ := traceCheck_ok h
  have hl : stripCancel s.log = pre ++ CEv.connect k db :: post := by rw [hs.log, hlog]
  unfold stripCancel at hl
  obtain ⟨l1, l2, hsplit, _, h2⟩ := List.filter_eq_append_iff.mp hl
  obtain ⟨m1, m2, hm, _, _, hpost⟩ := List.filter_eq_cons_iff.mp h2
  have hmem : CEv.eof k ∈ m2 :=
    all_closed wf hs.run hs.finished (l1 ++ m1) m2 k db (by rw [hsplit, hm, List.append_assoc])
  rw [← hpost]
  exact List.mem_filter.mpr ⟨hmem, by simp [CEv.isCancel]⟩

/-- … and the per-file results of an observed run that replays are a complete report: one result per
file. -/
theorem observed_report_complete {c : DCfg} {labels : List DLabel} {observed : List CEv}
    {tags : List FileResult} {exitZero : Bool} (h : traceCheck c labels observed tags exitZero = .ok) :
    tags.length = c.files.length ∧
    ∃ s : DSt, (s.results.map (·.1)).Perm (List.range c.files.length) ∧
      ∀ i, i < c.files.length → resultOf s.results i = tags[i]? := by
  obtain ⟨s, hs⟩ := traceCheck_ok h
  exact ⟨hs.ntags, s, results_perm_of_finished hs.run (Or.inr hs.finished), hs.results⟩

end Slt.C19
