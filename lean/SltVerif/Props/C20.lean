/-
Property C20 — the external-engine driver pairs requests and replies under any chunking.

Model: `SltVerif/Extern.lean` (request encoding, JSON scanner with serde_json's three outcomes, untagged
`Output` enum, `JsonDecoder::decode`, `FramedRead::poll_next` with the default `decode_eof`).
Spec: `SltVerif/ExternSpec.lean` (`encReply`, `AllWs`, `ProperPrefix`, `replyStream`, `FrState.Dead`) and
`SltVerif/ExternLooseSpec.lean` (`LooseReply`: the same two reply shapes with arbitrary white space between
the tokens and arbitrary valid JSON string escapes — section 8 below generalises 3–6 to them).
Helper lemmas: `SltVerif/Lemmas/Extern{Prefix,String,Scan,Decode,Poll,Enc}.lean`, evaluated instances
(multi-byte characters and escapes cut at every position) in `SltVerif/Lemmas/ExternExamples.lean`,
`SltVerif/Lemmas/ExternLoose{String,Scan,Decode,Poll}.lean`.  Theorems only here.
-/
import SltVerif.Lemmas.ExternPoll
import SltVerif.Lemmas.ExternEnc
import SltVerif.Lemmas.ExternLoosePoll
import SltVerif.Lemmas.ExternExamples
namespace Slt.C20
open Slt

/-! ### 1. the shape of the canonical encoding (what `encReply` of `ExternSpec` is) -/

/-- `{"result":[[s,s,…],[…],…]}` with `,` as the only separator and every string escaped by `jsonString` -/
theorem encReply_rows (rs : List (List Bytes)) :
    encReply (.rows rs) = bytesOfString "{\"result\":" ++
      ([91] ++ List.intercalate [44]
        (rs.map fun row => [91] ++ List.intercalate [44] (row.map jsonString) ++ [93]) ++ [93]) ++
      bytesOfString "}" :=
  encReply_rows_eq rs

/-- `{"err":s}` -/
theorem encReply_err (m : Bytes) :
    encReply (.err m) = bytesOfString "{\"err\":" ++ jsonString m ++ bytesOfString "}" :=
  encReply_err_eq m

/-! ### 2. strings and the request -/

/-- After the opening quote, the escaped text of ANY byte string `s` (`jsonEscapeByte` escapes `"`, `\`
    and every byte below 0x20; all other bytes — also bytes ≥ 0x80, valid UTF-8 or not — are verbatim)
    followed by the closing quote scans to exactly `s` and leaves what follows the quote. -/
theorem string_roundtrip (s rest : Bytes) (fuel : Nat) (h : s.length < fuel) :
    scanStringBody fuel [] (s.flatMap jsonEscapeByte ++ 34 :: rest) = .ok s rest := by
  simpa using scanStringBody_enc s fuel [] rest h

/-- the same for a whole string value -/
theorem string_value_roundtrip (s rest : Bytes) (fuel : Nat) (h : 0 < fuel) :
    scanValue fuel (jsonString s ++ rest) = .ok (.str s) rest :=
  scanValue_string s rest fuel h

/-- a string cut anywhere (inside an escape, inside a multi-byte character, before the closing quote)
    is incomplete — for every amount of fuel -/
theorem string_prefix_incomplete (s p : Bytes) (fuel : Nat) (hp : ProperPrefix p (jsonString s)) :
    scanValue fuel p = .incomplete :=
  scanValue_string_pre s p fuel hp

/-- The request the engine receives is valid JSON carrying the SQL text unchanged, for EVERY byte string
    `sql`: scanning `encodeRequest sql` yields the object `{"sql": sql}` with nothing left. -/
theorem request_roundtrip (sql : Bytes) (fuel : Nat) (h : (encodeRequest sql).length ≤ fuel) :
    scanValue fuel (encodeRequest sql) = .ok (.obj [(bytesOfString "sql", .str sql)]) [] := by
  simpa [requestVal] using scanValue_encodeRequest sql fuel [] h

/-- … and when more bytes follow (the driver appends a newline), they are left untouched -/
theorem request_roundtrip_rest (sql rest : Bytes) (fuel : Nat) (h : (encodeRequest sql).length ≤ fuel) :
    scanValue fuel (encodeRequest sql ++ rest) = .ok (.obj [(bytesOfString "sql", .str sql)]) rest :=
  scanValue_encodeRequest sql fuel rest h

/-! ### 3. a complete reply is decoded to exactly that reply -/

theorem decode_reply (pad₁ : Bytes) (hpad : AllWs pad₁) (r : Reply) (rest : Bytes) :
    decode (pad₁ ++ encReply r ++ rest) = .frame r rest :=
  decode_frame pad₁ hpad r rest

/-! ### 7. `err` replies carry the engine's text, rows are verbatim -/

theorem err_reply (m : Bytes) : decode (encReply (.err m)) = .frame (.err m) [] := by
  simpa using decode_frame [] AllWs.nil (.err m) []

theorem rows_verbatim (rs : List (List Bytes)) : decode (encReply (.rows rs)) = .frame (.rows rs) [] := by
  simpa using decode_frame [] AllWs.nil (.rows rs) []

/-- with padding on both sides: the trailing white space stays in the buffer -/
theorem padded_reply (pad₁ pad₂ : Bytes) (h₁ : AllWs pad₁) (r : Reply) :
    decode (padded pad₁ r pad₂) = .frame r pad₂ :=
  decode_frame pad₁ h₁ r pad₂

/-! ### 4. no proper prefix of a padded reply is mistaken for a frame or for an error -/

theorem decode_prefix (pad₁ : Bytes) (hpad : AllWs pad₁) (r : Reply) (p : Bytes)
    (hp : ProperPrefix p (pad₁ ++ encReply r)) : decode p = .needMore :=
  decode_pre pad₁ hpad r p hp

/-- the same, with the cut given as a position -/
theorem decode_take (pad₁ : Bytes) (hpad : AllWs pad₁) (r : Reply) (n : Nat)
    (hn : n < (pad₁ ++ encReply r).length) : decode ((pad₁ ++ encReply r).take n) = .needMore := by
  apply decode_pre pad₁ hpad r
  refine ⟨List.take_prefix _ _, fun h => ?_⟩
  have := congrArg List.length h
  rw [List.length_take] at this
  omega

/-! ### 5. the reply does not depend on how its bytes are split into chunks -/

/-- One call.  The engine writes `pad₁ ++ encReply r ++ pad₂`; the bytes arrive in ANY chunking `cs`
    (empty chunks, cuts inside escapes or multi-byte characters, everything in one chunk, …).  From any live
    framing state holding only white space, `poll_next` returns exactly `r`, and afterwards the state is
    live again and buffer + unread chunks are exactly the trailing padding. -/
theorem chunk_independent (pad₁ pad₂ : Bytes) (h₁ : AllWs pad₁) (h₂ : AllWs pad₂) (r : Reply)
    (cs : List Bytes) (closes : Bool) (hcs : cs.flatten = pad₁ ++ encReply r ++ pad₂)
    (st : FrState) (hbuf : AllWs st.buf) (heof : st.eof = false) (herr : st.errored = false)
    (fuel : Nat) (hf : 2 * cs.length + 6 ≤ fuel) :
    ∃ st' cs', pollNext fuel st ⟨cs, closes⟩ = (.reply r, st', ⟨cs', closes⟩) ∧
      AllWs st'.buf ∧ st'.eof = false ∧ st'.errored = false ∧ st'.buf ++ cs'.flatten = pad₂ := by
  obtain ⟨st', cs', h, hws, hlive, heq⟩ :=
    poll_padded pad₁ pad₂ h₁ h₂ r cs closes hcs st hbuf ⟨heof, herr⟩ fuel hf
  exact ⟨st', cs', h, hws, hlive.1, hlive.2, heq⟩

/-- Many calls.  The engine writes the padded encodings of `items` (then anything: `tail`); for EVERY
    chunking of these bytes the first `n ≤ items.length` calls return the first `n` replies, in order. -/
theorem calls_in_order (items : List (Bytes × Reply)) (hws : ∀ i ∈ items, AllWs i.1) (tail : Bytes)
    (chunks : List Bytes) (closes : Bool) (hcs : chunks.flatten = replyStream items ++ tail)
    (n : Nat) (hn : n ≤ items.length) :
    runCalls n {} ⟨chunks, closes⟩ = (items.take n).map (fun i => CallResult.reply i.2) := by
  have hsplit : replyStream items = replyStream (items.take n) ++ replyStream (items.drop n) := by
    rw [← replyStream_append, List.take_append_drop]
  obtain ⟨st', cs', _, _, hrun⟩ := runCalls_stream closes (items.take n) {} chunks
    (replyStream (items.drop n) ++ tail) 0 (fun i hi => hws i (List.mem_of_mem_take hi))
    FrState.ready_init (by
      show [] ++ chunks.flatten = _
      rw [hcs, hsplit, List.nil_append, List.append_assoc])
  have hlen : (items.take n).length = n := by simp [hn]
  rw [hlen] at hrun
  simpa [runCalls] using hrun

/-- the k-th call returns exactly the k-th reply -/
theorem kth_call (items : List (Bytes × Reply)) (hws : ∀ i ∈ items, AllWs i.1) (tail : Bytes)
    (chunks : List Bytes) (closes : Bool) (hcs : chunks.flatten = replyStream items ++ tail)
    (n : Nat) (hn : n ≤ items.length) (k : Nat) (hk : k < n) :
    (runCalls n {} ⟨chunks, closes⟩)[k]? = some (.reply (items[k]'(by omega)).2) := by
  rw [calls_in_order items hws tail chunks closes hcs n hn]
  simp [hk, List.getElem?_eq_getElem (show k < items.length by omega)]

/-- Lock-step variant: the bytes of the k-th reply (padded, in any chunking: `Exchange.WF`) reach the pipe only
    after the k-th call has started; chunks a call leaves unread stay in the pipe.  Same answers. -/
theorem lockstep_in_order (ex : List Exchange) (hwf : ∀ e ∈ ex, e.WF) :
    runLockstep {} [] (ex.map (·.chunks)) = ex.map (fun e => CallResult.reply e.reply) :=
  runLockstep_replies ex {} [] hwf ⟨rfl, rfl⟩ (by simp [AllWs])

/-! ### 6. truncated output -/

/-- The engine writes white space and a proper prefix `q` of a reply (possibly nothing at all) and then
    exits / closes its output: the pending call FAILS — it neither hangs nor returns a reply — and the
    framing state is dead. -/
theorem truncated_eof (pad₁ : Bytes) (h₁ : AllWs pad₁) (r : Reply) (q : Bytes)
    (hq : ProperPrefix q (encReply r)) (cs : List Bytes) (hcs : cs.flatten = pad₁ ++ q)
    (st : FrState) (hbuf : AllWs st.buf) (heof : st.eof = false) (herr : st.errored = false)
    (fuel : Nat) (hf : 2 * cs.length + 6 ≤ fuel) :
    ∃ st', pollNext fuel st ⟨cs, true⟩ = (.failed, st', ⟨[], true⟩) ∧ st'.Dead := by
  have hT := frameAt_padded (st.buf ++ pad₁) (hbuf.append h₁) r
  refine poll_truncated hT cs st fuel ⟨heof, herr⟩ ?_ (by omega)
  rw [hcs, ← List.append_assoc]
  exact ProperPrefix.append_left hq

/-- … and this call and every later call fail -/
theorem truncated_eof_calls (pad₁ : Bytes) (h₁ : AllWs pad₁) (r : Reply) (q : Bytes)
    (hq : ProperPrefix q (encReply r)) (cs : List Bytes) (hcs : cs.flatten = pad₁ ++ q)
    (st : FrState) (hbuf : AllWs st.buf) (heof : st.eof = false) (herr : st.errored = false) (n : Nat) :
    runCalls (n + 1) st ⟨cs, true⟩ = List.replicate (n + 1) .failed := by
  have hT := frameAt_padded (st.buf ++ pad₁) (hbuf.append h₁) r
  refine runCalls_truncated hT cs st ⟨heof, herr⟩ ?_ n
  rw [hcs, ← List.append_assoc]
  exact ProperPrefix.append_left hq

/-- once dead, always failing -/
theorem dead_calls_fail (st : FrState) (h : st.Dead) (n : Nat) :
    runCalls n st ⟨[], true⟩ = List.replicate n .failed :=
  runCalls_dead n st h

/-- The same bytes but the stream stays open: the call waits (`pending`), all bytes are buffered. -/
theorem silent_pending (pad₁ : Bytes) (h₁ : AllWs pad₁) (r : Reply) (q : Bytes)
    (hq : ProperPrefix q (encReply r)) (cs : List Bytes) (hcs : cs.flatten = pad₁ ++ q)
    (st : FrState) (hbuf : AllWs st.buf) (heof : st.eof = false) (herr : st.errored = false)
    (fuel : Nat) (hf : 2 * cs.length + 6 ≤ fuel) :
    pollNext fuel st ⟨cs, false⟩ =
      (.pending, ⟨st.buf ++ cs.flatten, false, false, false⟩, ⟨[], false⟩) := by
  have hT := frameAt_padded (st.buf ++ pad₁) (hbuf.append h₁) r
  refine poll_silent hT cs st fuel ⟨heof, herr⟩ ?_ (by omega)
  rw [hcs, ← List.append_assoc]
  exact ProperPrefix.append_left hq

/-- Whole sessions: `items.length` complete replies, then a truncated one (or nothing), then end-of-file,
    in ANY chunking: the first calls return the replies in order, every further call fails. -/
theorem replies_then_truncated (items : List (Bytes × Reply)) (hws : ∀ i ∈ items, AllWs i.1)
    (pad : Bytes) (hpad : AllWs pad) (r : Reply) (q : Bytes) (hq : ProperPrefix q (encReply r))
    (chunks : List Bytes) (hcs : chunks.flatten = replyStream items ++ (pad ++ q)) (n : Nat) :
    runCalls (items.length + (n + 1)) {} ⟨chunks, true⟩ =
      items.map (fun i => CallResult.reply i.2) ++ List.replicate (n + 1) .failed := by
  obtain ⟨st', cs', hst', heq', hrun⟩ := runCalls_stream true items {} chunks (pad ++ q) (n + 1) hws
    FrState.ready_init (by show [] ++ chunks.flatten = _; rw [hcs, List.nil_append])
  rw [hrun, runCalls_truncated (frameAt_padded pad hpad r) cs' st' hst'.1
    (by rw [heq']; exact ProperPrefix.append_left hq) n]

/-- … and if the stream stays open instead, the further calls wait. -/
theorem replies_then_silent (items : List (Bytes × Reply)) (hws : ∀ i ∈ items, AllWs i.1)
    (pad : Bytes) (hpad : AllWs pad) (r : Reply) (q : Bytes) (hq : ProperPrefix q (encReply r))
    (chunks : List Bytes) (hcs : chunks.flatten = replyStream items ++ (pad ++ q)) (n : Nat) :
    runCalls (items.length + (n + 1)) {} ⟨chunks, false⟩ =
      items.map (fun i => CallResult.reply i.2) ++ List.replicate (n + 1) .pending := by
  obtain ⟨st', cs', hst', heq', hrun⟩ := runCalls_stream false items {} chunks (pad ++ q) (n + 1) hws
    FrState.ready_init (by show [] ++ chunks.flatten = _; rw [hcs, List.nil_append])
  rw [hrun, runCalls_waiting (frameAt_padded pad hpad r) cs' st' hst'.1
    (by rw [heq']; exact ProperPrefix.append_left hq) n]

/-! ### 8. the same for replies as ANY engine may write them

`LooseReply` (`ExternLooseSpec.lean`): `{ "result" : [ [ "a" , "b" ] , [ ] ] }` / `{ "err" : "…" }` with arbitrary
white space in every gap and every string (also the key) written with arbitrary valid JSON escapes: verbatim
bytes ≥ 0x20 except `"` and `\`, the two-character escapes including `\/`, `\uXXXX` with upper- or lower-case
digits, surrogate pairs.  `L.enc` = the bytes, `L.reply` = the reply denoted, `L.WF` = well-formedness. -/

/-- the canonical encoding is one of them (so 3–6 are instances of what follows) -/
theorem canonical_is_loose (r : Reply) : ∃ L : LooseReply, L.WF ∧ L.enc = encReply r ∧ L.reply = r :=
  ⟨canonReply r, canonReply_wf r, canonReply_enc r, canonReply_reply r⟩

/-- every valid string literal scans to what it denotes -/
theorem string_roundtrip_loose (s : List StrItem) (hs : WFLStr s) (rest : Bytes) (fuel : Nat) (h : 0 < fuel) :
    scanValue fuel (encLStr s ++ rest) = .ok (.str (decLStr s)) rest :=
  scanValue_lstr s hs rest fuel h

theorem decode_reply_loose (pad₁ : Bytes) (hpad : AllWs pad₁) (L : LooseReply) (hL : L.WF) (rest : Bytes) :
    decode (pad₁ ++ L.enc ++ rest) = .frame L.reply rest :=
  decode_frame_loose pad₁ hpad L hL rest

theorem decode_prefix_loose (pad₁ : Bytes) (hpad : AllWs pad₁) (L : LooseReply) (hL : L.WF) (p : Bytes)
    (hp : ProperPrefix p (pad₁ ++ L.enc)) : decode p = .needMore :=
  decode_pre_loose pad₁ hpad L hL p hp

theorem chunk_independent_loose (pad₁ pad₂ : Bytes) (h₁ : AllWs pad₁) (h₂ : AllWs pad₂)
    (L : LooseReply) (hL : L.WF)
    (cs : List Bytes) (closes : Bool) (hcs : cs.flatten = pad₁ ++ L.enc ++ pad₂)
    (st : FrState) (hbuf : AllWs st.buf) (heof : st.eof = false) (herr : st.errored = false)
    (fuel : Nat) (hf : 2 * cs.length + 6 ≤ fuel) :
    ∃ st' cs', pollNext fuel st ⟨cs, closes⟩ = (.reply L.reply, st', ⟨cs', closes⟩) ∧
      AllWs st'.buf ∧ st'.eof = false ∧ st'.errored = false ∧ st'.buf ++ cs'.flatten = pad₂ := by
  obtain ⟨st', cs', h, hws, hlive, heq⟩ :=
    poll_padded_loose pad₁ pad₂ h₁ h₂ L hL cs closes hcs st hbuf ⟨heof, herr⟩ fuel hf
  exact ⟨st', cs', h, hws, hlive.1, hlive.2, heq⟩

theorem calls_in_order_loose (items : List (Bytes × LooseReply)) (hws : ∀ i ∈ items, AllWs i.1 ∧ i.2.WF)
    (tail : Bytes) (chunks : List Bytes) (closes : Bool) (hcs : chunks.flatten = looseStream items ++ tail)
    (n : Nat) (hn : n ≤ items.length) :
    runCalls n {} ⟨chunks, closes⟩ = (items.take n).map (fun i => CallResult.reply i.2.reply) := by
  have hsplit : looseStream items = looseStream (items.take n) ++ looseStream (items.drop n) := by
    rw [← looseStream_append, List.take_append_drop]
  obtain ⟨st', cs', _, _, hrun⟩ := runCalls_looseStream closes (items.take n) {} chunks
    (looseStream (items.drop n) ++ tail) 0 (fun i hi => hws i (List.mem_of_mem_take hi))
    FrState.ready_init (by
      show [] ++ chunks.flatten = _
      rw [hcs, hsplit, List.nil_append, List.append_assoc])
  have hlen : (items.take n).length = n := by simp [hn]
  rw [hlen] at hrun
  simpa [runCalls] using hrun

/-- complete replies, then a truncated one (or nothing) and end-of-file: replies in order, then failures -/
theorem replies_then_truncated_loose (items : List (Bytes × LooseReply))
    (hws : ∀ i ∈ items, AllWs i.1 ∧ i.2.WF)
    (pad : Bytes) (hpad : AllWs pad) (L : LooseReply) (hL : L.WF) (q : Bytes) (hq : ProperPrefix q L.enc)
    (chunks : List Bytes) (hcs : chunks.flatten = looseStream items ++ (pad ++ q)) (n : Nat) :
    runCalls (items.length + (n + 1)) {} ⟨chunks, true⟩ =
      items.map (fun i => CallResult.reply i.2.reply) ++ List.replicate (n + 1) .failed := by
  obtain ⟨st', cs', hst', heq', hrun⟩ := runCalls_looseStream true items {} chunks (pad ++ q) (n + 1) hws
    FrState.ready_init (by show [] ++ chunks.flatten = _; rw [hcs, List.nil_append])
  rw [hrun, runCalls_truncated (frameAt_loose pad hpad L hL) cs' st' hst'.1
    (by rw [heq']; exact ProperPrefix.append_left hq) n]

/-- … and with the stream left open: replies in order, then waiting -/
theorem replies_then_silent_loose (items : List (Bytes × LooseReply))
    (hws : ∀ i ∈ items, AllWs i.1 ∧ i.2.WF)
    (pad : Bytes) (hpad : AllWs pad) (L : LooseReply) (hL : L.WF) (q : Bytes) (hq : ProperPrefix q L.enc)
    (chunks : List Bytes) (hcs : chunks.flatten = looseStream items ++ (pad ++ q)) (n : Nat) :
    runCalls (items.length + (n + 1)) {} ⟨chunks, false⟩ =
      items.map (fun i => CallResult.reply i.2.reply) ++ List.replicate (n + 1) .pending := by
  obtain ⟨st', cs', hst', heq', hrun⟩ := runCalls_looseStream false items {} chunks (pad ++ q) (n + 1) hws
    FrState.ready_init (by show [] ++ chunks.flatten = _; rw [hcs, List.nil_append])
  rw [hrun, runCalls_waiting (frameAt_loose pad hpad L hL) cs' st' hst'.1
    (by rw [heq']; exact ProperPrefix.append_left hq) n]

end Slt.C20
