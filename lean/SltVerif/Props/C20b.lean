/-
Property C20b — the command template of the external engine (`sqllogictest-bin/src/engines.rs:95-109`).

"`-e 'command {db} {host} {port} {user} {pass}'`: the placeholders are replaced by the database name, host,
port, user and password; everything else of the command reaches `bash -c` verbatim."

The code does five sequential `str::replace` calls; the promise is ONE simultaneous substitution.  They
agree whenever the only `{` bytes of the template are those of the placeholders and the inserted values
have no `{` (`expand_parallel`); a value containing a later placeholder IS replaced again
(`expand_rescans_witness`), so the guard on the values cannot be dropped.

Model: `SltVerif/EngineCmd.lean` (`expandCmd` = the five `replaceAll` calls of `Subst.lean`; abstract side
`Seg`, `showSegs`, `evalSegs`).  Lemmas: `SltVerif/Lemmas/EngineCmd.lean`.  Theorems only here.
-/
import SltVerif.Lemmas.EngineCmd
namespace Slt.C20b
open Slt

/-- the patterns of the model are the string literals of the code, in the order of the code -/
theorem placeholders_text (v : EngineVals) :
    placeholders v =
      [(bytesOfString "{db}", v.db), (bytesOfString "{host}", v.host), (bytesOfString "{port}", v.port),
       (bytesOfString "{user}", v.user), (bytesOfString "{pass}", v.pass)] := by
  rw [placeholders, patDb_eq, patHost_eq, patPort_eq, patUser_eq, patPass_eq]

/-- **Sequential = simultaneous.**  For every template written as segments whose literals contain no `{`
byte, and every choice of values without `{` byte, the five sequential `replace` calls give exactly the
simultaneous substitution: each placeholder by its value, all other text verbatim (literals may contain
`}`, `$`, quotes, placeholder names without the opening brace, …). -/
theorem expand_parallel (v : EngineVals) (segs : List Seg)
    (hl : ∀ b, Seg.lit b ∈ segs → bLBrace ∉ b)
    (hv : bLBrace ∉ v.db ∧ bLBrace ∉ v.host ∧ bLBrace ∉ v.port ∧ bLBrace ∉ v.user ∧ bLBrace ∉ v.pass) :
    expandCmd v (showSegs segs) = evalSegs v segs :=
  expandCmd_showSegs v segs hl hv

/-- a template without `{` is the command, whatever the values are -/
theorem expand_no_brace (v : EngineVals) (tmpl : Bytes) (h : bLBrace ∉ tmpl) : expandCmd v tmpl = tmpl :=
  expandCmd_noBrace v tmpl h

/-- the instance used by the parallel runner (only the database name varies between the jobs) -/
theorem expand_db_only (v : EngineVals) (pre post : Bytes) (hpre : bLBrace ∉ pre) (hpost : bLBrace ∉ post)
    (hv : bLBrace ∉ v.db ∧ bLBrace ∉ v.host ∧ bLBrace ∉ v.port ∧ bLBrace ∉ v.user ∧ bLBrace ∉ v.pass) :
    expandCmd v (pre ++ bytesOfString "{db}" ++ post) = pre ++ v.db ++ post := by
  rw [← patDb_eq]
  exact expandCmd_dbOnly v pre post hpre hpost hv

/-- **The values are scanned again**: a database name containing `{host}` is hit by the later
`replace("{host}", …)` — db = `x{host}`, host = `h`: `{db}` becomes `xh`, not `x{host}`.  So the guard on
the values in `expand_parallel` is needed (and the simultaneous reading of the documentation fails here). -/
theorem expand_rescans_witness :
    let v : EngineVals := { db := asciiBytes "x{host}", host := asciiBytes "h", port := asciiBytes "5432",
                            user := asciiBytes "u", pass := asciiBytes "p" }
    expandCmd v (asciiBytes "{db}") = asciiBytes "xh" ∧
    evalSegs v [.db] = asciiBytes "x{host}" := by decide

/-- … whereas an EARLIER placeholder inside a value stays: the order of the calls is visible -/
example :
    let v : EngineVals := { db := asciiBytes "d", host := asciiBytes "x{db}", port := asciiBytes "5432",
                            user := asciiBytes "u", pass := asciiBytes "p" }
    expandCmd v (asciiBytes "{host}") = asciiBytes "x{db}" := by decide

/-- the documented shape, every placeholder, `{db}` twice -/
example :
    let v : EngineVals := { db := asciiBytes "test_db", host := asciiBytes "127.0.0.1", port := asciiBytes "5432",
                            user := asciiBytes "postgres", pass := asciiBytes "s3cr}t" }
    expandCmd v (asciiBytes "exec engine {db} --host {host}:{port} -u {user} -p {pass} {db}") =
      asciiBytes "exec engine test_db --host 127.0.0.1:5432 -u postgres -p s3cr}t test_db" := by decide

/-- the same template as segments: `showSegs` is its text, `evalSegs` the command -/
example :
    let segs : List Seg := [.lit (asciiBytes "exec engine "), .db, .lit (asciiBytes " --host "), .host,
      .lit (asciiBytes ":"), .port, .lit (asciiBytes " -u "), .user, .lit (asciiBytes " -p "), .pass,
      .lit (asciiBytes " "), .db]
    let v : EngineVals := { db := asciiBytes "test_db", host := asciiBytes "127.0.0.1", port := asciiBytes "5432",
                            user := asciiBytes "postgres", pass := asciiBytes "s3cr}t" }
    showSegs segs = asciiBytes "exec engine {db} --host {host}:{port} -u {user} -p {pass} {db}" ∧
    evalSegs v segs = asciiBytes "exec engine test_db --host 127.0.0.1:5432 -u postgres -p s3cr}t test_db" ∧
    v.NoBrace := by decide

/-- adjacent placeholders, names without the opening brace, unknown `{x}`-free text, a lone `}` -/
example :
    let v : EngineVals := { db := asciiBytes "d", host := asciiBytes "h", port := asciiBytes "1",
                            user := asciiBytes "u", pass := asciiBytes "" }
    expandCmd v (asciiBytes "{db}{host}{port}db}host} } {user}{pass}{pass}$X") = asciiBytes "dh1db}host} } u$X" := by
  decide

/-- a `{` that belongs to no placeholder is outside `expand_parallel`, but harmless here: copied -/
example :
    let v : EngineVals := { db := asciiBytes "d", host := asciiBytes "h", port := asciiBytes "1",
                            user := asciiBytes "u", pass := asciiBytes "p" }
    expandCmd v (asciiBytes "awk '{print}' {d{db}b} {DB}") = asciiBytes "awk '{print}' {ddb} {DB}" := by decide

end Slt.C20b

