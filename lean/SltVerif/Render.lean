/-
Specification side of property C03: abstract scripts, their concrete layouts, the renderer and
the records a script is expected to parse to.

Nothing in this file follows the control flow of the parser model (`Parser.lean`): an `Item`
is one syntactic unit of a test file together with its layout, `renderItem` writes it as lines,
`Item.recs` says which records it stands for, and `refStep` threads the three pieces of context
the grammar has (pending comment lines, pending conditions, pending connection) plus the line
counter through a list of items.  `WF` lists the side conditions of the grammar.

Numbers, durations and column-type strings are carried as the token text that is written; the
expected value is what `parseU64` / `parseDuration` / `cfg.fromChar` give for that text, and `WF`
demands that these succeed.
-/
import SltVerif.Parser
import SltVerif.Lemmas.Text
namespace Slt

/-! ## Layout of a header line -/

/-- Layout of one header line: blanks before the first word and after each word (the entry after
the last word is the trailing blanks). -/
structure Lay where
  lead : Str := []
  seps : List Str
  deriving DecidableEq, Repr

/-- pair every word with the blanks written after it -/
def zipSeps : List Str → List Str → List (Str × Str)
  | t :: ts, s :: ss => (t, s) :: zipSeps ts ss
  | t :: ts, [] => (t, []) :: zipSeps ts []
  | [], _ => []

/-- a header line: `lead w₀ sep₀ w₁ sep₁ … wₙ sepₙ` -/
def hdrLine (toks : List Str) (lay : Lay) : Str := lay.lead ++ joinSep (zipSeps toks lay.seps)

/-- the layout fits the words: blanks only, one entry per word, non-empty between words -/
def LayOk (toks : List Str) (lay : Lay) : Prop :=
  AllSep isWs lay.lead ∧ lay.seps.length = toks.length ∧
  (∀ s ∈ lay.seps, AllSep isWs s) ∧ (∀ s ∈ lay.seps.dropLast, s ≠ [])

instance (toks : List Str) (lay : Lay) : Decidable (LayOk toks lay) := by
  unfold LayOk; infer_instance

/-! ## Abstract items -/

/-- retry clause as written: `retry <attempts> backoff <duration>` -/
structure RetryTok where
  attempts : Str
  backoff : Str
  deriving DecidableEq, Repr

/-- the three ways of expecting an error -/
inductive ErrForm
  | any                         -- `error`
  | inline (toks : List Str)    -- `error tok₁ … tokₙ`: a regex, the words joined by one blank
  | multi (text : List Str)     -- `error`, and after the SQL block `----` and these lines
  deriving DecidableEq, Repr

inductive StmtForm
  | ok
  | count (digits : Str)
  | error (e : ErrForm)
  deriving DecidableEq, Repr

inductive QueryForm
  /-- `query` with nothing after it; `results = some rs`: a `----` line and `rs` follow the SQL -/
  | bare (results : Option (List Str))
  /-- `query <types> [<sort-mode>] [<label>]` -/
  | typed (types : Str) (sort : Option SortMode) (label : Option Str)
      (results : Option (List Str))
  | error (e : ErrForm)
  deriving DecidableEq, Repr

/-- One syntactic unit of a test file, with its layout. -/
inductive Item
  | blank                                    -- an empty line
  | wsLine (ws : Str)                        -- a line of blanks only
  | comment (texts : List Str)               -- lines `#text`
  | halt (lay : Lay)
  | subtest (name : Str) (lay : Lay)
  | sleep (dur : Str) (lay : Lay)
  | incl (file : Str) (lay : Lay)
  | hashThreshold (digits : Str) (lay : Lay)
  | cond (skip : Bool) (label : Str) (lay : Lay)       -- `skipif l` / `onlyif l`
  | connection (name : Str) (lay : Lay)
  | control (c : Control) (lay : Lay)
  | statement (form : StmtForm) (retry : Option RetryTok) (lay : Lay)
      (sql1 : Str) (sqlMore : List Str)
  | query (form : QueryForm) (retry : Option RetryTok) (lay : Lay)
      (sql1 : Str) (sqlMore : List Str)
  | system (retry : Option RetryTok) (lay : Lay) (cmd1 : Str) (cmdMore : List Str)
      (stdout : Option (List Str))           -- `system ok`; `some t`: `----` and the lines `t`
  deriving DecidableEq, Repr

/-! ## Words of the header lines -/

def RetryTok.toks (r : RetryTok) : List Str := [kw "retry", r.attempts, kw "backoff", r.backoff]

def retryToks : Option RetryTok → List Str
  | none => []
  | some r => r.toks

def ErrForm.toks : ErrForm → List Str
  | .inline ts => ts
  | _ => []

def StmtForm.toks : StmtForm → List Str
  | .ok => [kw "ok"]
  | .count d => [kw "count", d]
  | .error e => kw "error" :: e.toks

def QueryForm.toks : QueryForm → List Str
  | .bare _ => []
  | .typed ty so lb _ => ty :: (so.map SortMode.toStr).toList ++ lb.toList
  | .error e => kw "error" :: e.toks

def Control.toks : Control → List Str
  | .sortMode m => [kw "sortmode", m.toStr]
  | .resultMode m => [kw "resultmode", m.toStr]
  | .substitution on => [kw "substitution", if on then kw "on" else kw "off"]

/-- the words of the header line of an item (none for blank / comment lines) -/
def Item.toks : Item → List Str
  | .halt _ => [kw "halt"]
  | .subtest n _ => [kw "subtest", n]
  | .sleep d _ => [kw "sleep", d]
  | .incl f _ => [kw "include", f]
  | .hashThreshold d _ => [kw "hash-threshold", d]
  | .cond skip l _ => [if skip then kw "skipif" else kw "onlyif", l]
  | .connection n _ => [kw "connection", n]
  | .control c _ => kw "control" :: c.toks
  | .statement f rt _ _ _ => kw "statement" :: f.toks ++ retryToks rt
  | .query f rt _ _ _ => kw "query" :: f.toks ++ retryToks rt
  | .system rt _ _ _ _ => kw "system" :: kw "ok" :: retryToks rt
  | _ => []

def Item.lay? : Item → Option Lay
  | .halt l | .subtest _ l | .sleep _ l | .incl _ l | .hashThreshold _ l | .cond _ _ l
  | .connection _ l | .control _ l | .statement _ _ l _ _ | .query _ _ l _ _
  | .system _ l _ _ _ => some l
  | _ => none

/-! ## What follows the SQL / command block of a record -/

inductive Tail
  | plain                       -- nothing: the block ends the record
  | results (rs : List Str)     -- `----` and result lines
  | multi (text : List Str)     -- `----` and a multi-line text (error message / stdout)
  deriving DecidableEq, Repr

def ErrForm.tail : ErrForm → Tail
  | .multi t => .multi t
  | _ => .plain

def resultsTail : Option (List Str) → Tail
  | none => .plain
  | some rs => .results rs

def StmtForm.tail : StmtForm → Tail
  | .error e => e.tail
  | _ => .plain

def QueryForm.tail : QueryForm → Tail
  | .bare rs => resultsTail rs
  | .typed _ _ _ rs => resultsTail rs
  | .error e => e.tail

def stdoutTail : Option (List Str) → Tail
  | none => .plain
  | some t => .multi t

/-- the lines written for a tail, without the terminating blank line(s) -/
def Tail.body : Tail → List Str
  | .plain => []
  | .results rs => kw "----" :: rs
  | .multi t => kw "----" :: t

/-- the terminator: one blank line; two after a multi-line text -/
def Tail.term : Tail → List Str
  | .multi _ => [[], []]
  | _ => [[]]

def Item.tail? : Item → Option Tail
  | .statement f .. => some f.tail
  | .query f .. => some f.tail
  | .system _ _ _ _ so => some (stdoutTail so)
  | _ => none

/-! ## Rendering -/

/-- the lines of an item without the blank line(s) terminating a record -/
def renderOpen (i : Item) : List Str :=
  match i with
  | .blank => [[]]
  | .wsLine ws => [ws]
  | .comment ts => ts.map ('#' :: ·)
  | .halt lay | .subtest _ lay | .sleep _ lay | .incl _ lay | .hashThreshold _ lay
  | .cond _ _ lay | .connection _ lay | .control _ lay => [hdrLine i.toks lay]
  | .statement f _ lay s1 more => hdrLine i.toks lay :: s1 :: more ++ f.tail.body
  | .query f _ lay s1 more => hdrLine i.toks lay :: s1 :: more ++ f.tail.body
  | .system _ lay c1 more so => hdrLine i.toks lay :: c1 :: more ++ (stdoutTail so).body

/-- the blank line(s) terminating a statement / query / system record -/
def Item.term (i : Item) : List Str :=
  match i.tail? with
  | some t => t.term
  | none => []

def renderItem (i : Item) : List Str := renderOpen i ++ i.term

/-- the lines of a script -/
def render (is : List Item) : List Str := is.flatMap renderItem

/-- line terminator -/
def eol (crlf : Bool) : Str := if crlf then ['\r', '\n'] else ['\n']

/-- The text of a list of lines, each with its own choice of LF / CRLF; `final`: the last line
is terminated too. -/
def renderText : List (Str × Bool) → Bool → Str
  | [], _ => []
  | [(l, c)], final => l ++ (if final then eol c else [])
  | (l, c) :: rest, final => l ++ eol c ++ renderText rest final

/-- a line that survives `str::lines` unchanged -/
def LineOk (l : Str) : Prop := '\n' ∉ l ∧ l.getLast? ≠ some '\r'

instance (l : Str) : Decidable (LineOk l) := by unfold LineOk; infer_instance

/-! ## Expected records -/

def numOf (s : Str) : Nat := (parseU64 s).getD 0

def durOf (s : Str) : Dur :=
  match parseDuration s with
  | .ok d => d
  | _ => ⟨0, 0⟩

def retryOf : Option RetryTok → Option Retry
  | none => none
  | some r => some ⟨numOf r.attempts, durOf r.backoff⟩

/-- a multi-line text as returned: the lines as written joined by LF, trimmed -/
def multiTextOf (t : List Str) : Str := trim (joinNl t)

def ErrForm.exp : ErrForm → ExpErr
  | .any => .empty
  | .inline ts => .inline (joinSp ts)
  | .multi t => .multi (multiTextOf t)

def StmtForm.exp : StmtForm → SExp
  | .ok => .ok
  | .count d => .count (numOf d)
  | .error e => .error e.exp

def typesOf (cfg : PCfg) (ty : Str) : List ColT := ty.filterMap cfg.fromChar

def QueryForm.exp (cfg : PCfg) : QueryForm → QExp
  | .bare rs => .results [] none none none (rs.getD [])
  | .typed ty so lb rs => .results (typesOf cfg ty) so none lb (rs.getD [])
  | .error e => .error e.exp

def mkCond (skip : Bool) (l : Str) : Cond := if skip then .skipIf l else .onlyIf l

/-- The records an item stands for when its first line has number `n` and `conds` / `conn` are
the conditions and the connection pending at that point. -/
def Item.recs (cfg : PCfg) (i : Item) (n : Nat) (conds : List Cond) (conn : Conn) : List Rec :=
  match i with
  | .blank => [.newline]
  | .wsLine _ => []
  | .comment _ => []        -- comment lines are collected, see `refStep`
  | .halt _ => [.halt n]
  | .subtest nm _ => [.subtest n nm]
  | .sleep d _ => [.sleep n (durOf d)]
  | .incl f _ => [.incl n f]
  | .hashThreshold d _ => [.hashThreshold n (numOf d)]
  | .cond skip l _ => [.condition (mkCond skip l)]
  | .connection nm _ => [.connection (mkConn nm)]
  | .control c _ => [.control c]
  | .statement f rt _ s1 more =>
    [.statement n conds conn (joinNl (s1 :: more)) f.exp (retryOf rt)]
  | .query f rt _ s1 more =>
    [.query n conds conn (joinNl (s1 :: more)) (f.exp cfg) (retryOf rt)]
  | .system rt _ c1 more so =>
    [.system n conds (joinNl (c1 :: more)) (so.map multiTextOf) (retryOf rt)]

/-- statement | query | system: the records conditions attach to -/
def Item.isRecord : Item → Bool
  | .statement .. | .query .. | .system .. => true
  | _ => false

/-- statement | query: the records a `connection` line attaches to -/
def Item.usesConn : Item → Bool
  | .statement .. | .query .. => true
  | _ => false

def Item.cond? : Item → Option Cond
  | .cond skip l _ => some (mkCond skip l)
  | _ => none

def Item.conn? : Item → Option Conn
  | .connection nm _ => some (mkConn nm)
  | _ => none

/-- pending conditions after an item -/
def Item.condsAfter (i : Item) (conds : List Cond) : List Cond :=
  if i.isRecord then [] else conds ++ i.cond?.toList

/-- pending connection after an item -/
def Item.connAfter (i : Item) (conn : Conn) : Conn :=
  if i.usesConn then .dflt else i.conn?.getD conn

/-- reference state: records so far, pending comment lines / conditions / connection, and the
number of lines consumed -/
structure Ref where
  out : List Rec := []
  comments : List Str := []
  conds : List Cond := []
  conn : Conn := .dflt
  num : Nat := 0

/-- the records so far, a pending run of comment lines closed -/
def Ref.flushed (r : Ref) : List Rec :=
  if r.comments = [] then r.out else r.out ++ [.comment r.comments]

/-- A run of comment lines becomes one `comment` record when any other line follows; every other
item contributes `Item.recs` at the current line with the pending conditions / connection. -/
def refStep (cfg : PCfg) (r : Ref) (i : Item) : Ref :=
  match i with
  | .comment ts => { r with comments := r.comments ++ ts, num := r.num + ts.length }
  | _ =>
    { out := r.flushed ++ i.recs cfg (r.num + 1) r.conds r.conn
      comments := []
      conds := i.condsAfter r.conds
      conn := i.connAfter r.conn
      num := r.num + (renderItem i).length }

def refRun (cfg : PCfg) (is : List Item) : Ref := is.foldl (refStep cfg) {}

/-- the records a script is expected to parse to -/
def expected (cfg : PCfg) (is : List Item) : List Rec := (refRun cfg is).flushed

/-! ## Context of a record, read off the item list directly -/

def Item.isComment : Item → Bool
  | .comment _ => true
  | _ => false

/-- items whose record carries a line number -/
def Item.isLocated : Item → Bool
  | .halt _ | .subtest .. | .sleep .. | .incl .. | .hashThreshold .. | .statement .. | .query ..
  | .system .. => true
  | _ => false

/-- the condition lines since the last statement | query | system item of `pre`, in order -/
def condsSince (pre : List Item) : List Cond :=
  (pre.reverse.takeWhile (fun i => !i.isRecord)).reverse.filterMap Item.cond?

/-- the connection named by the last `connection` line since the last statement | query item of
`pre`; the default connection if there is none -/
def connSince (pre : List Item) : Conn :=
  ((pre.reverse.takeWhile (fun i => !i.usesConn)).findSome? Item.conn?).getD .dflt

def Rec.conds? : Rec → Option (List Cond)
  | .statement _ c .. | .query _ c .. | .system _ c .. => some c
  | _ => none

def Rec.conn? : Rec → Option Conn
  | .statement _ _ cn .. | .query _ _ cn .. => some cn
  | _ => none

/-- the multi-line text of a record: expected error message / expected stdout -/
def Rec.multiText? : Rec → Option Str
  | .statement _ _ _ _ (.error (.multi t)) _ => some t
  | .query _ _ _ _ (.error (.multi t)) _ => some t
  | .system _ _ _ (some t) _ => some t
  | _ => none

/-! ## Well-formedness: the side conditions of the grammar -/

/-- lines of a multi-line text: no two consecutive empty lines and the last line is not empty
(`prev`: the line before was empty) -/
def multiOk : Bool → List Str → Bool
  | prev, [] => !prev
  | prev, l :: ls => if l.isEmpty then !prev && multiOk true ls else multiOk false ls

def Tail.WF : Tail → Prop
  | .plain => True
  | .results rs => ∀ l ∈ rs, l ≠ []
  | .multi t => multiOk false t = true

instance (t : Tail) : Decidable t.WF := by
  cases t <;> (simp only [Tail.WF]; infer_instance)

/-- lines of an SQL / command block after the first one -/
def BlockOk (more : List Str) : Prop := ∀ l ∈ more, l ≠ [] ∧ l ≠ kw "----"

instance (more : List Str) : Decidable (BlockOk more) := by unfold BlockOk; infer_instance

/-- attempts parse to a positive number, the back-off parses as a duration -/
def RetryOk : Option RetryTok → Prop
  | none => True
  | some r => 0 < numOf r.attempts ∧ parseDuration r.backoff = .ok (durOf r.backoff)

instance (rt : Option RetryTok) : Decidable (RetryOk rt) := by
  cases rt <;> (simp only [RetryOk]; infer_instance)

/-- four words `retry _ backoff _`: what is read as a retry clause after `error` -/
def retryShaped : List Str → Bool
  | [a, _, c, _] => a = kw "retry" && c = kw "backoff"
  | _ => false

/-- an inline error message: at least one word, not of the shape of a retry clause, a valid
regex, and no retry clause after it (there is no way to write one) -/
def ErrForm.WF (cfg : PCfg) : ErrForm → Option RetryTok → Prop
  | .inline ts, rt =>
    ts ≠ [] ∧ retryShaped ts = false ∧ cfg.regexValid (joinSp ts) = true ∧ rt = none
  | _, _ => True

instance (cfg : PCfg) (e : ErrForm) (rt : Option RetryTok) : Decidable (e.WF cfg rt) := by
  cases e <;> (simp only [ErrForm.WF]; infer_instance)

def StmtForm.WF (cfg : PCfg) : StmtForm → Option RetryTok → Prop
  | .ok, _ => True
  | .count d, _ => (parseU64 d).isSome = true
  | .error e, rt => e.WF cfg rt

instance (cfg : PCfg) (f : StmtForm) (rt : Option RetryTok) : Decidable (f.WF cfg rt) := by
  cases f <;> (simp only [StmtForm.WF]; infer_instance)

def QueryForm.WF (cfg : PCfg) : QueryForm → Option RetryTok → Prop
  | .bare _, rt => rt = none
  | .typed ty so lb _, _ =>
    ty ≠ kw "error" ∧ (∀ c ∈ ty, (cfg.fromChar c).isSome = true) ∧
    (match lb with
     | none => True
     | some l => l ≠ kw "retry" ∧ (so = none → SortMode.ofStr l = none))
  | .error e, rt => e.WF cfg rt

instance (cfg : PCfg) (f : QueryForm) (rt : Option RetryTok) : Decidable (f.WF cfg rt) := by
  cases f with
  | bare rs => simp only [QueryForm.WF]; infer_instance
  | typed ty so lb rs => cases lb <;> (simp only [QueryForm.WF]; infer_instance)
  | error e => simp only [QueryForm.WF]; infer_instance

/-- side conditions specific to each kind of item -/
def Item.Side (cfg : PCfg) : Item → Prop
  | .wsLine ws => ws ≠ [] ∧ AllSep isWs ws
  | .sleep d _ => parseDuration d = .ok (durOf d)
  | .hashThreshold d _ => (parseU64 d).isSome = true
  | .statement f rt _ _ more => f.WF cfg rt ∧ RetryOk rt ∧ BlockOk more ∧ f.tail.WF
  | .query f rt _ _ more => f.WF cfg rt ∧ RetryOk rt ∧ BlockOk more ∧ f.tail.WF
  | .system rt _ _ more so => RetryOk rt ∧ BlockOk more ∧ (stdoutTail so).WF
  | _ => True

instance (cfg : PCfg) (i : Item) : Decidable (i.Side cfg) := by
  cases i <;> (simp only [Item.Side]; infer_instance)

/-- every word written on the header line is a word (non-empty, no blank inside) and the layout
fits -/
def Item.HdrOk (i : Item) : Prop :=
  match i.lay? with
  | none => True
  | some lay => (∀ t ∈ i.toks, IsTok isWs t) ∧ LayOk i.toks lay

instance (i : Item) : Decidable i.HdrOk := by
  unfold Item.HdrOk; cases i.lay? <;> (simp only []; infer_instance)

/-- well-formed item -/
def WF (cfg : PCfg) (i : Item) : Prop := i.HdrOk ∧ i.Side cfg

instance (cfg : PCfg) (i : Item) : Decidable (WF cfg i) := by unfold WF; infer_instance

end Slt
