/-
Model of `Runner::apply_record`, `run_async` (retry loop), `run_multi_async`,
`Connections::{get, shutdown_all}` (runner.rs 648-986, 1231-1242; connection.rs 52-76).

The database, the shell, substitution, regex matching and the hash function are parameters
(`Env`); effects are recorded in an ordered trace.
-/
import SltVerif.Judge
namespace Slt

inductive Answer
  | rows (types : List ColT) (rows : List Row)
  | complete (n : Nat)
  | error (msg : Str)
  deriving DecidableEq, Repr

inductive CmdAnswer
  | exit (code : Nat) (stdout : Str)     -- `status.success()` iff `code = 0`
  | spawnErr
  | signal (sig : Nat) (stdout : Str)    -- killed by a signal: no exit code, never a success
  deriving DecidableEq, Repr

inductive Ev
  | make (id : Nat) (ok : Bool)          -- `MakeConnection::make`, numbered by call
  | run (sess : Nat) (sql : Str)         -- `AsyncDB::run` on the session created by make #sess
  | cmd (text : Str)                     -- `AsyncDB::run_command(bash -c text)`
  | sleep (d : Dur)                      -- `AsyncDB::sleep`
  | shutdown (sess : Nat)
  deriving DecidableEq, Repr

/-- the world outside the runner -/
structure Env (σ : Type) where
  make : σ → Nat → σ × Option Str          -- `some msg` = connection failure
  run : σ → Nat → Str → σ × Answer
  engine : Nat → Str                       -- `engine_name()` of a session
  cmd : σ → Str → σ × CmdAnswer
  subst : Bool → Str → Except Str Str      -- `Substitution::substitute` (true = full, false = simple)
  regexMatch : Str → Str → Bool
  hash : Str → Str

/-- fixed configuration of a runner -/
structure RCfg where
  labels : List Str
  strictCols : Bool

/-- mutable runner state + world state -/
structure World (σ : Type) where
  db : σ
  trace : List Ev := []
  conns : List (Conn × Nat) := []
  makes : Nat := 0
  sortMode : Option SortMode := none
  resultMode : Option ResultMode := none
  threshold : Nat := 0
  substOn : Bool := false

def World.log (w : World σ) (e : Ev) : World σ := { w with trace := w.trace ++ [e] }

/-- `Condition::should_skip` on `labels ∪ {engine name if non-empty}` -/
def Cond.shouldSkip (labels : List Str) : Cond → Bool
  | .onlyIf l => !labels.contains l
  | .skipIf l => labels.contains l

def labelSet (labels : List Str) (engine : Str) : List Str :=
  if engine.isEmpty then labels else labels ++ [engine]

def shouldSkip (labels : List Str) (engine : Str) (conds : List Cond) : Bool :=
  conds.any (fun c => c.shouldSkip (labelSet labels engine))

def lookupConn (conns : List (Conn × Nat)) (c : Conn) : Option Nat :=
  match conns with
  | [] => none
  | (c', k) :: rest => if c' = c then some k else lookupConn rest c

/-- `Connections::get`: session for `c`, created on first use. `Except` carries the failure text. -/
def getConn (E : Env σ) (w : World σ) (c : Conn) : World σ × Except Str Nat :=
  match lookupConn w.conns c with
  | some k => (w, .ok k)
  | none =>
    let id := w.makes
    let r := E.make w.db id
    match r.2 with
    | some msg => ({ w with db := r.1, makes := id + 1, trace := w.trace ++ [.make id false] }, .error msg)
    | none =>
      ({ w with db := r.1, makes := id + 1, trace := w.trace ++ [.make id true],
                conns := w.conns ++ [(c, id)] }, .ok id)

/-- `may_substitute` -/
def maySubstitute (E : Env σ) (w : World σ) (full : Bool) (s : Str) : Except Str Str :=
  if w.substOn then E.subst full s else .ok s

def answerToOutputStmt : Answer → Output
  | .rows t r => .query t r none
  | .complete n => .statement n none
  | .error m => .statement 0 (some m)

def applyStatement (E : Env σ) (cfg : RCfg) (w : World σ) (conds : List Cond) (conn : Conn)
    (sql : Str) : World σ × Output :=
  let g := getConn E w conn
  match g.2 with
  | .error msg => (g.1, .statement 0 (some msg))
  | .ok k =>
    if shouldSkip cfg.labels (E.engine k) conds then (g.1, .nothing)
    else match maySubstitute E g.1 true sql with
      | .error msg => (g.1, .statement 0 (some msg))
      | .ok sql' =>
        let r := E.run g.1.db k sql'
        ({ g.1 with db := r.1, trace := g.1.trace ++ [.run k sql'] }, answerToOutputStmt r.2)

def querySort : QExp → Option SortMode
  | .results _ s _ _ _ => s
  | .error _ => none

def applyQuery (E : Env σ) (cfg : RCfg) (w : World σ) (conds : List Cond) (conn : Conn)
    (sql : Str) (exp : QExp) : World σ × Output :=
  let g := getConn E w conn
  match g.2 with
  | .error msg => (g.1, .query [] [] (some msg))
  | .ok k =>
    if shouldSkip cfg.labels (E.engine k) conds then (g.1, .nothing)
    else match maySubstitute E g.1 true sql with
      | .error msg => (g.1, .query [] [] (some msg))
      | .ok sql' =>
        let r := E.run g.1.db k sql'
        let w' : World σ := { g.1 with db := r.1, trace := g.1.trace ++ [.run k sql'] }
        match r.2 with
        | .complete n => (w', .statement n none)
        | .error m => (w', .query [] [] (some m))
        | .rows types rows =>
          (w', .query types
            (shape E.hash w'.threshold (effectiveSort (querySort exp) w'.sortMode) rows)
            none)

/-- `Display` of the runner's `SystemError` (exit status, stdout, stderr; the mock's stderr is empty) -/
def systemErrorText (code : Nat) (out : Str) : Str :=
  kw "process exited unsuccessfully: exit status: " ++ natToStr code ++ kw "\nstdout: " ++ out ++
    kw "\nstderr: "

/-- std's `signal_string` for the signals the harness uses -/
def signalName (sig : Nat) : Str :=
  if sig = 1 then kw " (SIGHUP)" else if sig = 2 then kw " (SIGINT)"
  else if sig = 9 then kw " (SIGKILL)" else if sig = 15 then kw " (SIGTERM)" else []

/-- the same for a process that was killed by a signal (`ExitStatus` prints `signal: 9 (SIGKILL)`) -/
def signalErrorText (sig : Nat) (out : Str) : Str :=
  kw "process exited unsuccessfully: signal: " ++ natToStr sig ++ signalName sig ++
    kw "\nstdout: " ++ out ++ kw "\nstderr: "

/-- `command.trim().ends_with('&')` -/
def isBackground (cmd : Str) : Bool := endsWithChar (trim cmd) '&'

def applySystem (E : Env σ) (cfg : RCfg) (w : World σ) (conds : List Cond) (command : Str)
    (expStdout : Option Str) : World σ × Output :=
  if shouldSkip cfg.labels [] conds then (w, .nothing)
  else match maySubstitute E w false command with
    | .error msg => (w, .system none (some msg))
    | .ok cmd =>
      if isBackground cmd then (w, .system none none)   -- spawned, not awaited (assumed to spawn)
      else
        let r := E.cmd w.db cmd
        let w' : World σ := { w with db := r.1, trace := w.trace ++ [.cmd cmd] }
        match r.2 with
        | .spawnErr => (w', .system none (some (kw "spawnerr")))
        | .exit code out =>
          if code = 0 then (w', .system (if expStdout.isSome then some out else none) none)
          else (w', .system none (some (systemErrorText code out)))
        | .signal sig out => (w', .system none (some (signalErrorText sig out)))

def applyControl (w : World σ) : Control → World σ
  | .sortMode m => { w with sortMode := some m }
  | .resultMode m => { w with resultMode := some m }
  | .substitution b => { w with substOn := b }

/-- `Runner::apply_record` -/
def applyRecord (E : Env σ) (cfg : RCfg) (w : World σ) : Rec → World σ × Output
  | .statement _ conds conn sql _ _ => applyStatement E cfg w conds conn sql
  | .query _ conds conn sql exp _ => applyQuery E cfg w conds conn sql exp
  | .system _ conds command stdout _ => applySystem E cfg w conds command stdout
  | .sleep _ d => (w.log (.sleep d), .nothing)
  | .control c => (applyControl w c, .nothing)
  | .hashThreshold _ n => ({ w with threshold := n }, .nothing)
  | _ => (w, .nothing)

def jcfg (E : Env σ) (cfg : RCfg) (w : World σ) : JCfg :=
  { resultMode := w.resultMode, strictCols := cfg.strictCols, regexMatch := E.regexMatch }

/-- `run_async_no_retry` -/
def runNoRetry (E : Env σ) (cfg : RCfg) (w : World σ) (r : Rec) : World σ × Verdict :=
  let a := applyRecord E cfg w r
  (a.1, judge (jcfg E cfg a.1) r a.2)

def Rec.retry? : Rec → Option Retry
  | .statement _ _ _ _ _ r | .query _ _ _ _ _ r | .system _ _ _ _ r => r
  | _ => none

/-- the retry loop of `run_async`: `n` attempts left, `last` = verdict of the previous attempt -/
def retryLoop (E : Env σ) (cfg : RCfg) (r : Rec) (backoff : Dur) :
    Nat → World σ → Verdict → World σ × Verdict
  | 0, w, last => (w, last)
  | n + 1, w, _ =>
    let a := runNoRetry E cfg w r
    if a.2 = .pass then a
    else retryLoop E cfg r backoff n (a.1.log (.sleep backoff)) a.2

/-- `Runner::run_async` -/
def runRecord (E : Env σ) (cfg : RCfg) (w : World σ) (r : Rec) : World σ × Verdict :=
  match r.retry? with
  | none => runNoRetry E cfg w r
  | some rt => retryLoop E cfg r rt.backoff rt.attempts w .unreachable

inductive RunResult
  | ok
  | failed (line : Nat) (k : FailKind) (detail : Str)
  | crashed                     -- an `unreachable!()` / `unwrap` panic
  deriving DecidableEq, Repr

def Rec.isHalt : Rec → Bool
  | .halt _ => true
  | _ => false

/-- `run_multi_async`: stop at `halt`, return at the first failure -/
def runMulti (E : Env σ) (cfg : RCfg) : World σ → List Rec → World σ × RunResult
  | w, [] => (w, .ok)
  | w, r :: rs =>
    if r.isHalt then (w, .ok)
    else
      let a := runRecord E cfg w r
      match a.2 with
      | .pass => runMulti E cfg a.1 rs
      | .fail k d => (a.1, .failed (r.line?.getD 0) k d)
      | .unreachable => (a.1, .crashed)

/-- `Connections::shutdown_all` (the order comes from a `HashMap`: compared as a multiset) -/
def shutdownAll (w : World σ) : World σ :=
  { w with trace := w.trace ++ w.conns.map (fun p => Ev.shutdown p.2) }

end Slt
