/-
Result shaping of `Runner::apply_record` (query arm, runner.rs 871-914): effective sort mode,
rowsort / valuesort, value count, MD5 replacement line; and the normalizer / validators
(runner.rs 473-523).
-/
import SltVerif.Syntax
namespace Slt

abbrev Row := List Str

/-- byte-wise (= code-point lexicographic) order on rows, the `Ord` of `Vec<String>` -/
def rowLe (a b : Row) : Bool := decide (a ≤ b)

/-- `rows.sort_unstable()`: the ascending sort (unique for a total antisymmetric order) -/
def sortRows (rows : List Row) : List Row := rows.mergeSort rowLe

/-- `query-level mode .or(file-level mode)` -/
def effectiveSort (q file : Option SortMode) : Option SortMode :=
  match q with
  | some m => some m
  | none => file

/-- `rows.iter().flat_map(|row| row.iter()).map(|s| vec![s])` -/
def flattenValues (rows : List Row) : List Row := rows.flatten.map (fun v => [v])

/-- rows after the effective sort mode, and whether value-sorting happened -/
def applySort (m : Option SortMode) (rows : List Row) : List Row × Bool :=
  match m with
  | none => (rows, false)
  | some .nosort => (rows, false)
  | some .rowsort => (sortRows rows, false)
  | some .valuesort => (sortRows (flattenValues rows), true)

/-- the text fed to MD5: every value followed by a newline, row-major -/
def hashInput (rows : List Row) : Str := rows.flatten.flatMap (· ++ ['\n'])

/-- `num_values`: the number of values actually returned (for value-sorted rows, which hold one
    value each, this is `rows.len()` as the code computes it) -/
def numValues (rows : List Row) : Nat := rows.flatten.length

/-- the replacement line `"{n} values hashing to {md5}"` -/
def hashLine (hash : Str → Str) (rows : List Row) : Str :=
  natToStr (numValues rows) ++ kw " values hashing to " ++ hash (hashInput rows)

/-- the whole post-processing of a successful query answer -/
def shape (hash : Str → Str) (threshold : Nat) (m : Option SortMode) (rows : List Row) :
    List Row :=
  let p := applySort m rows
  if threshold > 0 ∧ numValues p.1 > threshold then [[hashLine hash p.1]]
  else p.1

/-- `default_normalizer`: `s.trim().split_ascii_whitespace().join(" ")` -/
def normalize (s : Str) : Str := joinSp (asciiWords (trim s))

/-- `default_validator` -/
def defaultValidator (actual : List Row) (expected : List Str) : Bool :=
  decide (actual.map (fun r => joinSp (r.map normalize)) = expected.map normalize)

/-- `strict_column_validator` / `default_column_validator` -/
def columnsOk (strict : Bool) (actual expected : List ColT) : Bool :=
  if strict then decide (actual = expected) else true

/-- value-wise result mode: one value per compared line (runner.rs 1151-1159) -/
def applyResultMode (rm : Option ResultMode) (rows : List Row) : List Row :=
  match rm with
  | some .valuewise => flattenValues rows
  | _ => rows

end Slt
