/-
SipHash-1-3 with zero keys = `std::hash::DefaultHasher::new()`, and `impl Hash for str`
(the bytes followed by 0xFF) — the hash behind the CLI's `HashPartitioner` (main.rs 161-184).
Executable; the C18 theorems are stated for an arbitrary hash function.
-/
import SltVerif.Md5
namespace Slt

structure SipSt where
  v0 : UInt64
  v1 : UInt64
  v2 : UInt64
  v3 : UInt64

def rotl64 (x : UInt64) (b : UInt64) : UInt64 := (x <<< b) ||| (x >>> (64 - b))

def sipRound (s : SipSt) : SipSt :=
  let v0 := s.v0 + s.v1
  let v1 := rotl64 s.v1 13
  let v1 := v1 ^^^ v0
  let v0 := rotl64 v0 32
  let v2 := s.v2 + s.v3
  let v3 := rotl64 s.v3 16
  let v3 := v3 ^^^ v2
  let v0 := v0 + v3
  let v3 := rotl64 v3 21
  let v3 := v3 ^^^ v0
  let v2 := v2 + v1
  let v1 := rotl64 v1 17
  let v1 := v1 ^^^ v2
  let v2 := rotl64 v2 32
  ⟨v0, v1, v2, v3⟩

/-- little-endian word of up to 8 bytes -/
def leWord (bs : List UInt8) : UInt64 :=
  (bs.zipIdx.foldl (fun acc (p : UInt8 × Nat) => acc ||| (p.1.toUInt64 <<< (8 * p.2).toUInt64)) 0)

def sipCompress (s : SipSt) (m : UInt64) : SipSt :=
  let s1 := sipRound { s with v3 := s.v3 ^^^ m }
  { s1 with v0 := s1.v0 ^^^ m }

def sipBlocks : Nat → SipSt → List UInt8 → SipSt × List UInt8
  | 0, s, bs => (s, bs)
  | fuel + 1, s, bs =>
    if bs.length < 8 then (s, bs)
    else sipBlocks fuel (sipCompress s (leWord (bs.take 8))) (bs.drop 8)

/-- SipHash-1-3 of a byte string with keys (0, 0) -/
def sipHash13 (msg : List UInt8) : UInt64 :=
  let s0 : SipSt := ⟨0x736f6d6570736575, 0x646f72616e646f6d, 0x6c7967656e657261, 0x7465646279746573⟩
  let r := sipBlocks (msg.length / 8 + 1) s0 msg
  let b : UInt64 := ((msg.length % 256).toUInt64 <<< 56) ||| leWord r.2
  let s := sipCompress r.1 b
  let s := { s with v2 := s.v2 ^^^ 0xff }
  let s := sipRound (sipRound (sipRound s))
  s.v0 ^^^ s.v1 ^^^ s.v2 ^^^ s.v3

/-- `let mut h = DefaultHasher::new(); file_name.hash(&mut h); h.finish()` -/
def pathHash (p : Str) : Nat := (sipHash13 (utf8 p ++ [0xFF])).toNat

end Slt
