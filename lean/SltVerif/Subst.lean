/-
Model of `substitution.rs` (sqllogictest) and of the `subst` 0.3.7 crate it calls
(`Template::parse`, `Variable::parse{,_braced}`, `find_closing_brace`, `unescape_one`, `expand`),
on bytes.  Outcome `panic` = the index panic of `Variable::parse` on a text ending in `$`.
-/
import SltVerif.Text
namespace Slt

abbrev Bytes := List UInt8

def bDollar : UInt8 := 36      -- '$'
def bBackslash : UInt8 := 92   -- '\\'
def bLBrace : UInt8 := 123     -- '{'
def bRBrace : UInt8 := 125     -- '}'
def bColon : UInt8 := 58       -- ':'

/-- `c.is_ascii_alphanumeric() || c == b'_'` -/
def isNameByte (c : UInt8) : Bool :=
  (48 ≤ c && c ≤ 57) || (65 ≤ c && c ≤ 90) || (97 ≤ c && c ≤ 122) || c == 95

inductive SubstErr
  | invalidEscape
  | missingName
  | unexpectedChar
  | missingBrace
  | noSuchVar (name : Bytes)
  | panic
  deriving DecidableEq, Repr

inductive Part
  | lit (b : Bytes)
  | esc (b : UInt8)
  | var (name : Bytes) (dflt : Option (List Part))
  deriving Repr

/-- position of the first byte satisfying `p` -/
def findIdx (p : UInt8 → Bool) : Bytes → Option Nat
  | [] => none
  | c :: cs => if p c then some 0 else (findIdx p cs).map (· + 1)

/-- `find_closing_brace(haystack)`, literally (relative offset `next` compared with the total
    length, as the crate does); `fuel` ≥ length suffices -/
def findClosing (h : Bytes) : Nat → Nat → Int → Option Nat
  | 0, _, _ => none
  | fuel + 1, finger, nested =>
    if finger ≥ h.length then none else
    match findIdx (fun c => c == bBackslash || c == bLBrace || c == bRBrace) (h.drop finger) with
    | none => none
    | some next =>
      let c := (h.drop (finger + next)).headD 0
      if c == bBackslash then
        if next + 1 = h.length then none else findClosing h fuel (finger + next + 2) nested
      else if c == bLBrace then
        if next = h.length - 1 then none else findClosing h fuel (finger + next + 1) (nested + 1)
      else
        if nested - 1 = 0 then some (finger + next)
        else findClosing h fuel (finger + next + 1) (nested - 1)

/-- `unescape_one` given the byte after the backslash (`none` = backslash is the last byte) -/
def unescapeOne : Option UInt8 → Except SubstErr UInt8
  | none => .error .invalidEscape
  | some c =>
    if c == bBackslash || c == bDollar || c == bLBrace || c == bRBrace || c == bColon then .ok c
    else .error .invalidEscape

/-- `Template::parse` on the remaining text `s`; `fuel` bounds the work (length + 1 suffices) -/
def parseTemplate : Nat → Bytes → Except SubstErr (List Part)
  | 0, _ => .ok []
  | fuel + 1, s =>
    if s.isEmpty then .ok [] else
    let i := (findIdx (fun c => c == bDollar || c == bBackslash) s).getD s.length
    let lit := s.take i
    let rest := s.drop i
    let pre : List Part := if lit.isEmpty then [] else [.lit lit]
    match rest with
    | [] => .ok pre
    | c :: after =>
      if c == bBackslash then
        match unescapeOne after.head? with
        | .error e => .error e
        | .ok v =>
          match parseTemplate fuel (after.drop 1) with
          | .error e => .error e
          | .ok ps => .ok (pre ++ .esc v :: ps)
      else
        -- `$`: `Variable::parse`
        match after with
        | [] => .error .panic                          -- `source[finger + 1]` out of bounds
        | d :: after2 =>
          if d == bLBrace then
            -- braced
            if after2.isEmpty then .error .missingName else
            let name := after2.takeWhile isNameByte
            let tail := after2.dropWhile isNameByte
            if name.isEmpty then .error .missingName else
            match tail with
            | [] => .error .missingBrace
            | t :: tail2 =>
              if t == bRBrace then
                match parseTemplate fuel tail2 with
                | .error e => .error e
                | .ok ps => .ok (pre ++ .var name none :: ps)
              else if t != bColon then .error .unexpectedChar
              else
                -- haystack = text from the `$`
                match findClosing rest (rest.length + 1) 0 0 with
                | none => .error .missingBrace
                | some e =>
                  let dfltSrc := (rest.take e).drop (2 + name.length + 1)
                  match parseTemplate fuel dfltSrc with
                  | .error er => .error er
                  | .ok dps =>
                    match parseTemplate fuel (rest.drop (e + 1)) with
                    | .error er => .error er
                    | .ok ps => .ok (pre ++ .var name (some dps) :: ps)
          else
            let name := after.takeWhile isNameByte
            if name.isEmpty then .error .missingName else
            match parseTemplate fuel (after.dropWhile isNameByte) with
            | .error e => .error e
            | .ok ps => .ok (pre ++ .var name none :: ps)

mutual
/-- `Template::expand` -/
def expandParts (get : Bytes → Option Bytes) : List Part → Except SubstErr Bytes
  | [] => .ok []
  | p :: ps =>
    match expandPart get p with
    | .error e => .error e
    | .ok a =>
      match expandParts get ps with
      | .error e => .error e
      | .ok b => .ok (a ++ b)

def expandPart (get : Bytes → Option Bytes) : Part → Except SubstErr Bytes
  | .lit b => .ok b
  | .esc b => .ok [b]
  | .var name dflt =>
    match get name with
    | some v => .ok v
    | none =>
      match dflt with
      | some ps => expandParts get ps
      | none => .error (.noSuchVar name)
end

/-- `subst::substitute` -/
def substFull (get : Bytes → Option Bytes) (s : Bytes) : Except SubstErr Bytes :=
  match parseTemplate (s.length + 1) s with
  | .error e => .error e
  | .ok ps => expandParts get ps

/-- the variables of a runner -/
structure VarEnv where
  testDir : Bytes
  now : Bytes
  locals : List (Bytes × Bytes)     -- sorted by key (BTreeMap)
  env : List (Bytes × Bytes)

def lookupB (l : List (Bytes × Bytes)) (k : Bytes) : Option Bytes :=
  match l with
  | [] => none
  | (k', v) :: rest => if k' = k then some v else lookupB rest k

def bytesOfString (s : String) : Bytes := s.toUTF8.toList

/-- `impl VariableMap for Substitution`: special names, then runner locals, then environment -/
def VarEnv.get (v : VarEnv) (k : Bytes) : Option Bytes :=
  if k = bytesOfString "__TEST_DIR__" then some v.testDir
  else if k = bytesOfString "__NOW__" then some v.now
  else match lookupB v.locals k with
    | some x => some x
    | none => lookupB v.env k

/-- `str::replace(pat, rep)`: non-overlapping matches, left to right (`pat` non-empty) -/
def replaceAll (pat rep : Bytes) : Nat → Bytes → Bytes
  | 0, s => s
  | _, [] => []
  | fuel + 1, c :: cs =>
    if pat.isEmpty then c :: cs
    else if pat.isPrefixOf (c :: cs) then rep ++ replaceAll pat rep fuel ((c :: cs).drop pat.length)
    else c :: replaceAll pat rep fuel cs

/-- `simple_replace`: `$__TEST_DIR__`, `$__NOW__`, then every runner-local `$key`, sequentially -/
def simpleReplace (v : VarEnv) (s : Bytes) : Bytes :=
  let r1 := replaceAll (bDollar :: bytesOfString "__TEST_DIR__") v.testDir (s.length + 1) s
  let r2 := replaceAll (bDollar :: bytesOfString "__NOW__") v.now (r1.length + 1) r1
  v.locals.foldl (fun acc kv => replaceAll (bDollar :: kv.1) kv.2 (acc.length + 1) acc) r2

/-- `Substitution::substitute` -/
def substitute (v : VarEnv) (full : Bool) (s : Bytes) : Except SubstErr Bytes :=
  if full then substFull v.get s else .ok (simpleReplace v s)

end Slt
