/-
Specification side of property C13 (substitution): the documented template grammar as an abstract
syntax tree, its concrete syntax (`render`), its meaning (`eval`) and the well-formedness
condition (`WFt`) under which the concrete syntax is unambiguous for the `subst` 0.3.7 parser.
Nothing here mentions the parser's control flow (`parseTemplate`, `findClosing`).

Also: the bridge between the byte-level substitution model (`Subst.lean`) and the abstract
`Env.subst` parameter of the runner model, and the test-directory state machine (C13, last sentence).
-/
import SltVerif.Subst
import SltVerif.Runner
namespace Slt

/-! ### abstract templates -/

/-- A template: literal text, an escaped byte `\c`, or a variable `$NAME` / `${NAME}` /
`${NAME:default}` whose default is again a template. -/
inductive Piece
  | lit (b : Bytes)
  | esc (c : UInt8)
  | var (name : Bytes) (braced : Bool) (dflt : Option (List Piece))
  deriving Repr

mutual
/-- concrete syntax of a template -/
def render : List Piece → Bytes
  | [] => []
  | p :: ps => renderPiece p ++ render ps

/-- literal bytes verbatim, escapes as backslash + byte, `$NAME`, `${NAME}`, `${NAME:default}`
(a variable with a default is always written with braces, whatever its `braced` flag says) -/
def renderPiece : Piece → Bytes
  | .lit b => b
  | .esc c => [bBackslash, c]
  | .var n braced none => if braced then bDollar :: bLBrace :: (n ++ [bRBrace]) else bDollar :: n
  | .var n _ (some d) => bDollar :: bLBrace :: (n ++ bColon :: (render d ++ [bRBrace]))
end

mutual
/-- meaning of a template under a variable map: a value is inserted verbatim (it is neither
expanded again nor escaped), the default is evaluated only when the variable is undefined,
an undefined variable without default is the error `noSuchVar name` -/
def eval (get : Bytes → Option Bytes) : List Piece → Except SubstErr Bytes
  | [] => .ok []
  | p :: ps =>
    match evalPiece get p with
    | .error e => .error e
    | .ok a =>
      match eval get ps with
      | .error e => .error e
      | .ok b => .ok (a ++ b)

def evalPiece (get : Bytes → Option Bytes) : Piece → Except SubstErr Bytes
  | .lit b => .ok b
  | .esc c => .ok [c]
  | .var n _ d =>
    match get n with
    | some v => .ok v
    | none =>
      match d with
      | some ps => eval get ps
      | none => .error (.noSuchVar n)
end

/-! ### well-formedness -/

/-- the bytes that may follow a backslash -/
def isEscapable (c : UInt8) : Bool :=
  c == bBackslash || c == bDollar || c == bLBrace || c == bRBrace || c == bColon

/-- a byte allowed in a literal piece: never `$` or `\` (they start a variable / an escape);
inside a default also not `{` / `}` (the parser finds the end of a default by counting braces) -/
def litByteOk (inDefault : Bool) (c : UInt8) : Bool :=
  c != bDollar && c != bBackslash && (!inDefault || (c != bLBrace && c != bRBrace))

def Piece.isLit : Piece → Bool
  | .lit _ => true
  | _ => false

/-- the rendering of `ps` starts with a byte that would be read as part of a preceding `$NAME` -/
def startsWithNameByte : List Piece → Bool
  | .lit (c :: _) :: _ => isNameByte c
  | _ => false

/-- what may follow piece `p`: a literal is not followed by a literal (they would be one literal),
an unbraced `$NAME` is not followed by a name byte (it would be read as part of the name) -/
def followOk (p : Piece) (ps : List Piece) : Bool :=
  match p with
  | .lit _ => !(ps.head?.map Piece.isLit).getD false
  | .var _ false none => !startsWithNameByte ps
  | _ => true

mutual
def wfList (inDefault : Bool) : List Piece → Bool
  | [] => true
  | p :: ps => wfPiece inDefault p && followOk p ps && wfList inDefault ps

def wfPiece (inDefault : Bool) : Piece → Bool
  | .lit b => !b.isEmpty && b.all (litByteOk inDefault)
  | .esc c => isEscapable c
  | .var n _ d =>
    !n.isEmpty && n.all isNameByte &&
    (match d with
     | none => true
     | some ps => wfList true ps)
end

/-- Well-formed template (`inDefault` = the template is the default of some variable): the
conditions under which the concrete syntax `render t` is read back by the `subst` crate as `t`.
Each is needed; the counterexamples are in `Lemmas/SubstExamples.lean` (`cex_*`, kernel-checked).

* W1 a literal contains no `$` and no backslash (`cex_lit_dollar`, `cex_lit_backslash`);
* W2 a literal is not empty, W3 two literals are not adjacent — normal-form conditions, established
  by `normalizeTpl` without changing text or meaning (`cex_lit_empty`, `cex_lit_adjacent`);
* W4 a name is not empty (`cex_name_empty`: the text would end in `$`, on which the crate panics;
  with a non-empty name a `$` is never last), W5 and consists of ASCII alphanumerics / `_`
  (`cex_name_byte`);
* W6 an escaped byte is one of `\ $ { } :` (`cex_escape`);
* W7 an unbraced `$NAME` without default is not directly followed by a literal starting with a
  name byte (`cex_unbraced_follow`); escapes and variables may follow (they start with `\` / `$`);
* W8 inside a default — at any depth — a literal contains no `{` and no `}`; they are written
  `\{`, `\}` there (`cex_default_close`, `cex_default_open`).  Sufficient, not necessary: braces
  balanced within the default would also work (`remark_balanced_braces`).  At top level braces
  and colons are ordinary bytes.

No condition on the `braced` flag: a variable with a default is rendered with braces anyway. -/
def WFt (inDefault : Bool) (t : List Piece) : Prop := wfList inDefault t = true

instance (b : Bool) (t : List Piece) : Decidable (WFt b t) := by unfold WFt; infer_instance

/-! ### normal form: literal pieces non-empty and not adjacent (loses nothing) -/

/-- put a piece in front of a normalised list: an empty literal disappears, a literal merges with
a following literal -/
def consPiece : Piece → List Piece → List Piece
  | .lit b, .lit b' :: ps => .lit (b ++ b') :: ps
  | .lit b, ps => if b.isEmpty then ps else .lit b :: ps
  | p, ps => p :: ps

mutual
/-- merge adjacent literals and drop empty ones, also inside defaults; text and meaning are
unchanged (`render_normalizeTpl`, `eval_normalizeTpl`) -/
def normalizeTpl : List Piece → List Piece
  | [] => []
  | p :: ps => consPiece (normalizePiece p) (normalizeTpl ps)

def normalizePiece : Piece → Piece
  | .lit b => .lit b
  | .esc c => .esc c
  | .var n br none => .var n br none
  | .var n br (some d) => .var n br (some (normalizeTpl d))
end

/-! ### from abstract templates to the parser's `Part`s -/

mutual
def toParts : List Piece → List Part
  | [] => []
  | p :: ps => toPart p :: toParts ps

def toPart : Piece → Part
  | .lit b => .lit b
  | .esc c => .esc c
  | .var n _ none => .var n none
  | .var n _ (some d) => .var n (some (toParts d))
end

/-! ### bridge to the runner model

The runner model (`Runner.lean`) is parametric in `Env.subst : Bool → Str → Except Str Str`.
An environment *implements* the byte-level substitution model for the variables `v` when its
`subst` is `Slt.substitute v` up to an encoding of texts as bytes and a rendering of errors. -/

structure SubstBridge where
  enc : Str → Bytes           -- UTF-8 encoding
  dec : Bytes → Str           -- decoding of the result
  msg : SubstErr → Str        -- `Display` of `SubstError`

def SubstBridge.lift (br : SubstBridge) : Except SubstErr Bytes → Except Str Str
  | .ok b => .ok (br.dec b)
  | .error e => .error (br.msg e)

def ImplementsSubst {σ : Type} (E : Env σ) (br : SubstBridge) (v : VarEnv) : Prop :=
  ∀ full s, E.subst full s = br.lift (substitute v full (br.enc s))

/-! ### test directory (`RunnerLocals::test_dir`, a `OnceLock<TempDir>`)

The file system is a counter of allocations made so far plus the list of existing directories;
`fresh n` is the name the allocator (`tempfile`) returns for its `n`-th allocation. -/

structure FsState (Dir : Type) where
  allocs : Nat
  existing : List Dir

/-- runner locals: the test directory, absent until first use -/
structure Locals (Dir : Type) where
  testDir : Option Dir := none

/-- `RunnerLocals::test_dir()`: `get_or_init(tempdir)` -/
def Locals.useTestDir {Dir : Type} (fresh : Nat → Dir) (fs : FsState Dir) (r : Locals Dir) :
    FsState Dir × Locals Dir × Dir :=
  match r.testDir with
  | some d => (fs, r, d)
  | none =>
    let d := fresh fs.allocs
    ({ allocs := fs.allocs + 1, existing := d :: fs.existing }, { testDir := some d }, d)

/-- dropping the runner drops the `TempDir`, which removes the directory -/
def Locals.drop {Dir : Type} [DecidableEq Dir] (fs : FsState Dir) (r : Locals Dir) : FsState Dir :=
  match r.testDir with
  | some d => { fs with existing := fs.existing.filter (· ≠ d) }
  | none => fs

end Slt
