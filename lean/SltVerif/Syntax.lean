/-
Abstract syntax of sqllogictest-rs records (`parser.rs`: `Record`, `StatementExpect`,
`QueryExpect`, `ExpectedError`, `Condition`, `Connection`, `Control`, `RetryConfig`, …).
A record carries the 1-based line number of its first line; the file name and the chain of
include sites are added by `Include.lean`.
-/
import SltVerif.Text
import SltVerif.Duration
namespace Slt

inductive Cond
  | onlyIf (l : Str)
  | skipIf (l : Str)
  deriving DecidableEq, Repr

inductive Conn
  | dflt
  | named (n : Str)
  deriving DecidableEq, Repr

/-- `Connection::new` -/
def mkConn (n : Str) : Conn := if n = kw "default" then .dflt else .named n

inductive SortMode | nosort | rowsort | valuesort
  deriving DecidableEq, Repr

inductive ResultMode | valuewise | rowwise
  deriving DecidableEq, Repr

/-- `DefaultColumnType` -/
inductive ColT | text | int | float | any
  deriving DecidableEq, Repr

def ColT.toChar : ColT → Char
  | .text => 'T' | .int => 'I' | .float => 'R' | .any => '?'

/-- `DefaultColumnType::from_char` (never fails). -/
def ColT.fromCharDefault (c : Char) : Option ColT :=
  if c = 'T' then some .text else if c = 'I' then some .int
  else if c = 'R' then some .float else some .any

/-- A strict column type used by the harness (`T`, `I`, `R` only) to reach `InvalidType`. -/
def ColT.fromCharStrict (c : Char) : Option ColT :=
  if c = 'T' then some .text else if c = 'I' then some .int
  else if c = 'R' then some .float else none

structure Retry where
  attempts : Nat
  backoff : Dur
  deriving DecidableEq, Repr

inductive ExpErr
  | empty
  | inline (re : Str)
  | multi (t : Str)
  deriving DecidableEq, Repr

inductive SExp
  | ok
  | count (n : Nat)
  | error (e : ExpErr)
  deriving DecidableEq, Repr

inductive QExp
  | results (types : List ColT) (sort : Option SortMode) (rmode : Option ResultMode)
      (label : Option Str) (results : List Str)
  | error (e : ExpErr)
  deriving DecidableEq, Repr

inductive Control
  | sortMode (m : SortMode)
  | resultMode (m : ResultMode)
  | substitution (on : Bool)
  deriving DecidableEq, Repr

inductive Rec
  | incl (line : Nat) (filename : Str)
  | statement (line : Nat) (conds : List Cond) (conn : Conn) (sql : Str) (exp : SExp)
      (retry : Option Retry)
  | query (line : Nat) (conds : List Cond) (conn : Conn) (sql : Str) (exp : QExp)
      (retry : Option Retry)
  | system (line : Nat) (conds : List Cond) (command : Str) (stdout : Option Str)
      (retry : Option Retry)
  | sleep (line : Nat) (dur : Dur)
  | subtest (line : Nat) (name : Str)
  | halt (line : Nat)
  | control (c : Control)
  | hashThreshold (line : Nat) (n : Nat)
  | condition (c : Cond)
  | connection (c : Conn)
  | comment (ls : List Str)
  | newline
  | beginInclude (file : Str)
  | endInclude (file : Str)
  deriving DecidableEq, Repr

inductive PErrKind
  | unexpectedToken | unexpectedEOF | invalidSortMode | invalidLine | invalidType
  | invalidNumber | invalidErrorMessage | duplicatedErrorMessage | invalidRetryConfig
  | statementHasResults | invalidDuration | invalidControl | invalidIncludeFile
  | emptyIncludeFile | fileNotFound
  deriving DecidableEq, Repr

structure PErr where
  kind : PErrKind
  line : Nat
  deriving DecidableEq, Repr

def SortMode.ofStr (s : Str) : Option SortMode :=
  if s = kw "nosort" then some .nosort
  else if s = kw "rowsort" then some .rowsort
  else if s = kw "valuesort" then some .valuesort
  else none

def SortMode.toStr : SortMode → Str
  | .nosort => kw "nosort" | .rowsort => kw "rowsort" | .valuesort => kw "valuesort"

def ResultMode.ofStr (s : Str) : Option ResultMode :=
  if s = kw "rowwise" then some .rowwise
  else if s = kw "valuewise" then some .valuewise
  else none

def ResultMode.toStr : ResultMode → Str
  | .rowwise => kw "rowwise" | .valuewise => kw "valuewise"

def Rec.line? : Rec → Option Nat
  | .incl l _ | .statement l .. | .query l .. | .system l .. | .sleep l _ | .subtest l _
  | .halt l | .hashThreshold l _ => some l
  | _ => none

end Slt
