/-
Text primitives of the Rust standard library that sqllogictest-rs relies on, modelled on
`List Char` (a Rust `&str` is a sequence of Unicode scalar values = Lean `Char`s; byte-wise
order of UTF-8 = code-point lexicographic order).

  str::lines              -> `lines`
  str::split_whitespace   -> `words`
  str::split_ascii_whitespace -> `asciiWords`
  str::trim / trim_end    -> `trim` / `trimEnd`
  [..].join(sep)          -> `joinWith`
-/
namespace Slt

abbrev Str := List Char

/-- Rust `char::is_whitespace` (Unicode `White_Space`). -/
def isWs (c : Char) : Bool :=
  let n := c.toNat
  (9 ≤ n && n ≤ 13) || n == 32 || n == 0x85 || n == 0xA0 || n == 0x1680 ||
  (0x2000 ≤ n && n ≤ 0x200A) || n == 0x2028 || n == 0x2029 || n == 0x202F ||
  n == 0x205F || n == 0x3000

/-- Rust `u8::is_ascii_whitespace`: space, \t, \n, form feed, \r (no vertical tab). -/
def isAsciiWs (c : Char) : Bool :=
  let n := c.toNat
  n == 32 || n == 9 || n == 10 || n == 12 || n == 13

/-- Generic splitter used for `split_whitespace` / `split_ascii_whitespace`:
    maximal runs of characters not satisfying `p`. `cur` is the token being built. -/
def splitAux (p : Char → Bool) : Str → Str → List Str
  | cur, [] => if cur.isEmpty then [] else [cur]
  | cur, c :: cs =>
    if p c then
      (if cur.isEmpty then splitAux p [] cs else cur :: splitAux p [] cs)
    else splitAux p (cur ++ [c]) cs

/-- Rust `str::split_whitespace`. -/
def words (s : Str) : List Str := splitAux isWs [] s

/-- Rust `str::split_ascii_whitespace`. -/
def asciiWords (s : Str) : List Str := splitAux isAsciiWs [] s

def trimStart (s : Str) : Str := s.dropWhile isWs
def trimEnd (s : Str) : Str := (s.reverse.dropWhile isWs).reverse
/-- Rust `str::trim`. -/
def trim (s : Str) : Str := trimEnd (trimStart s)

/-- `[a, b, c].join(sep)` -/
def joinWith (sep : Str) : List Str → Str
  | [] => []
  | [t] => t
  | t :: ts => t ++ sep ++ joinWith sep ts

def joinSp (ts : List Str) : Str := joinWith [' '] ts
def joinNl (ts : List Str) : Str := joinWith ['\n'] ts

/-- Split at every `'\n'`; always at least one piece. -/
def splitNl : Str → List Str
  | [] => [[]]
  | c :: cs =>
    if c = '\n' then [] :: splitNl cs
    else match splitNl cs with
      | [] => [[c]]
      | l :: ls => (c :: l) :: ls

/-- Remove one trailing `'\r'` (what `str::lines` does to a `\n`-terminated line). -/
def stripCr (l : Str) : Str :=
  match l.reverse with
  | '\r' :: r => r.reverse
  | _ => l

/-- Rust `str::lines`: pieces terminated by `\n` lose one trailing `\r`; a final
    unterminated non-empty piece is kept as is; a final empty piece is dropped. -/
def lines (s : Str) : List Str :=
  let ps := splitNl s
  let last := ps.getLast?.getD []
  ps.dropLast.map stripCr ++ (if last.isEmpty then [] else [last])

/-- Rust `str::strip_prefix('#')`. -/
def stripHash : Str → Option Str
  | '#' :: text => some text
  | _ => none

/-- `s.ends_with(c)` -/
def endsWithChar (s : Str) (c : Char) : Bool := s.getLast? == some c

/-- `str::parse::<u64>()`: optional leading `+`, then one or more ASCII digits, value < 2^64. -/
def digitVal (c : Char) : Option Nat :=
  if '0' ≤ c ∧ c ≤ '9' then some (c.toNat - 48) else none

def parseDigits : Nat → Str → Option Nat
  | acc, [] => some acc
  | acc, c :: cs => match digitVal c with
    | some d => parseDigits (acc * 10 + d) cs
    | none => none

def parseU64 (s : Str) : Option Nat :=
  let body := match s with
    | '+' :: r => r
    | _ => s
  if body.isEmpty then none
  else match parseDigits 0 body with
    | some n => if n < 2 ^ 64 then some n else none
    | none => none

/-- decimal rendering (`u64::fmt`) -/
def natDigitsAux : Nat → Nat → Str → Str
  | 0, _, acc => acc
  | fuel + 1, n, acc =>
    let acc' := Char.ofNat (48 + n % 10) :: acc
    if n / 10 = 0 then acc' else natDigitsAux fuel (n / 10) acc'

def natToStr (n : Nat) : Str := natDigitsAux (n + 1) n []

def kw (s : String) : Str := s.toList

end Slt
