/-
Model of `impl Display for Record` (parser.rs 214-362, after the `fix:` commits: retry clause of
`system` on the header line, durations as one token, `connection default` printed, no text line for an empty multi-line text) and of the
file writer: one `writeln!` per record, then trailing newlines reduced to exactly one
(`override_with_outfile`).
-/
import SltVerif.Syntax
namespace Slt

def ExpErr.fmtInline : ExpErr → Str
  | .inline re => kw "error " ++ re
  | _ => kw "error"

/-- `fmt_multiline`: `----`, the trimmed text, and one more empty line -/
def fmtMultiText (t : Str) : Str :=
  kw "----\n" ++ (if (trim t).isEmpty then [] else trim t ++ ['\n']) ++ ['\n']

def ExpErr.fmtMultiline : ExpErr → Str
  | .multi t => fmtMultiText t
  | _ => []

def Retry.fmt : Option Retry → Str
  | none => []
  | some r => kw " retry " ++ natToStr r.attempts ++ kw " backoff " ++ formatDurationCompact r.backoff

def SExp.fmtHeader : SExp → Str
  | .ok => kw "ok"
  | .count n => kw "count " ++ natToStr n
  | .error e => e.fmtInline

def fmtOpt (pre : Str) : Option Str → Str
  | none => []
  | some s => pre ++ s

def QExp.fmtHeader : QExp → Str
  | .results types sort _ label _ =>
    types.map ColT.toChar ++ fmtOpt [' '] (sort.map SortMode.toStr) ++ fmtOpt [' '] label
  | .error e => e.fmtInline

def QExp.fmtBlock : QExp → Str
  | .results _ _ _ _ res => kw "----" ++ res.flatMap (fun l => '\n' :: l) ++ ['\n']
  | .error e => e.fmtMultiline

def SExp.fmtBlock : SExp → Str
  | .error e => e.fmtMultiline
  | _ => []

def Cond.fmt : Cond → Str
  | .onlyIf l => kw "onlyif " ++ l
  | .skipIf l => kw "skipif " ++ l

def Control.fmt : Control → Str
  | .sortMode m => kw "control sortmode " ++ m.toStr
  | .resultMode m => kw "control resultmode " ++ m.toStr
  | .substitution b => kw "control substitution " ++ (if b then kw "on" else kw "off")

/-- `Display for Record`; `none` = the `panic!` on injected records -/
def unparse : Rec → Option Str
  | .incl _ f => some (kw "include " ++ f)
  | .statement _ _ _ sql exp retry =>
    some (kw "statement " ++ exp.fmtHeader ++ Retry.fmt retry ++ ['\n'] ++ sql ++ ['\n'] ++ exp.fmtBlock)
  | .query _ _ _ sql exp retry =>
    some (kw "query " ++ exp.fmtHeader ++ Retry.fmt retry ++ ['\n'] ++ sql ++ ['\n'] ++ exp.fmtBlock)
  | .system _ _ cmd out retry =>
    some (kw "system ok" ++ Retry.fmt retry ++ ['\n'] ++ cmd ++ ['\n'] ++
      (match out with
       | none => []
       | some o => fmtMultiText o))
  | .sleep _ d => some (kw "sleep " ++ formatDurationCompact d)
  | .subtest _ n => some (kw "subtest " ++ n)
  | .halt _ => some (kw "halt")
  | .control c => some c.fmt
  | .hashThreshold _ n => some (kw "hash-threshold " ++ natToStr n)
  | .condition c => some c.fmt
  | .connection .dflt => some (kw "connection default")
  | .connection (.named n) => some (kw "connection " ++ n)
  | .comment ls => some (joinNl (ls.map (fun l => '#' :: trimEnd l)))
  | .newline => some []
  | .beginInclude _ => none
  | .endInclude _ => none

/-- every record followed by a newline (`writeln!(outfile, "{record}")`) -/
def writeRecords : List Rec → Option Str
  | [] => some []
  | r :: rs =>
    match unparse r, writeRecords rs with
    | some a, some b => some (a ++ '\n' :: b)
    | _, _ => none

/-- what `override_with_outfile` leaves: trailing newlines reduced to exactly one; an empty
output stays empty (specification of the 8-byte tail loop, proved equal to it in C08) -/
def normalizeTail (s : Str) : Str :=
  let body := (s.reverse.dropWhile (· = '\n')).reverse
  if s.isEmpty then [] else if s.getLast? = some '\n' then body ++ ['\n'] else s

/-- the bytes `--format` writes for a list of (non-injected) records -/
def fmtFile (rs : List Rec) : Option Str := (writeRecords rs).map normalizeTail

end Slt
