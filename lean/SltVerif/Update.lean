/-
Model of `update_record_with_output` (runner.rs 1577-1804), `ExpectedError::from_actual_error`
(parser.rs 438-454) and `update_test_file` with its stack of output files (runner.rs 1413-1557;
CLI copy main.rs 845-998), after the `fix:` commits.  The updater's file-system activity is
recorded as an ordered list of operations interleaved with the database events.
-/
import SltVerif.Runner
import SltVerif.Unparse
namespace Slt

/-- `regex_syntax::is_meta_character` -/
def isRegexMeta (c : Char) : Bool :=
  c = '\\' || c = '.' || c = '+' || c = '*' || c = '?' || c = '(' || c = ')' || c = '|' ||
  c = '[' || c = ']' || c = '{' || c = '}' || c = '^' || c = '$' || c = '#' || c = '&' ||
  c = '-' || c = '~'

/-- `regex::escape` -/
def regexEscape (s : Str) : Str := s.flatMap (fun c => if isRegexMeta c then ['\\', c] else [c])

/-- `ExpectedError::from_actual_error` -/
def fromActualError (reference : Option ExpErr) (actual : Str) : ExpErr :=
  let t := trim actual
  let isMulti := decide ((lines t).length ≥ 2)
  let survives := decide (joinSp (words t) = t)
  let multiline := match reference with
    | some (.multi _) => true
    | _ => isMulti || !survives
  if multiline then .multi t
  else if (regexEscape t).isEmpty then .empty else .inline (regexEscape t)

/-- reference passed to `from_actual_error`: forced multi-line when a retry clause is present -/
def errReference (retry : Option Retry) (old : Option ExpErr) : Option ExpErr :=
  if retry.isSome then some (.multi []) else old

structure UCfg where
  sep : Str                 -- column separator
  strictCols : Bool         -- column_type_validator
  regexMatch : Str → Str → Bool

/-- `update_record_with_output`; `none` = keep the original record -/
def updateRecord (c : UCfg) (r : Rec) (o : Output) : Option Rec :=
  match o with
  | .nothing => none
  | o =>
    match r, o with
    | .statement l cs cn sql exp rt, .query _ rows none =>
      some (.statement l cs cn sql
        (match exp with
         | .count _ => .count rows.length
         | .error _ => .ok
         | .ok => .ok) rt)
    | .query l cs cn sql _ rt, .statement count none => some (.statement l cs cn sql (.count count) rt)
    | .statement l cs cn sql exp rt, .statement count err =>
      (match err with
       | none =>
         some (.statement l cs cn sql
           (match exp with
            | .count _ => .count count
            | _ => .ok) rt)
       | some e =>
         match exp with
         | .error ee =>
           if ee.isMatch c.regexMatch e then none
           else some (.statement l cs cn sql (.error (fromActualError (errReference rt (some ee)) e)) rt)
         | _ => some (.statement l cs cn sql (.error (fromActualError (errReference rt none) e)) rt))
    | .query l cs cn sql exp rt, .query types rows err =>
      (match err with
       | some e =>
         (match exp with
          | .error ee =>
            if ee.isMatch c.regexMatch e then none
            else some (.query l cs cn sql (.error (fromActualError (errReference rt (some ee)) e)) rt)
          | .results .. => some (.query l cs cn sql (.error (fromActualError (errReference rt none) e)) rt))
       | none =>
         (match exp with
          | .results etypes so rm lb eres =>
            let results := if defaultValidator rows eres then eres else rows.map (joinWith c.sep)
            let types' := if columnsOk c.strictCols types etypes then etypes else types
            some (.query l cs cn sql (.results types' so rm lb results) rt)
          | .error _ =>
            some (.query l cs cn sql (.results types none none none (rows.map (joinWith c.sep))) rt)))
    | .system l cs cmd _ rt, .system actual err =>
      (match err with
       | some _ => none
       | none => some (.system l cs cmd actual rt))
    | _, _ => none

/-! ### the file-level driver -/

inductive FsOp
  | create (file : Str)                 -- temp file of `file` created (empty)
  | append (file : Str) (text : Str)    -- `writeln!` into the temp file of `file`
  | dropTail (file : Str) (k : Nat)     -- `set_len(len - k)` on the temp file of `file`
  | rename (file : Str)                 -- temp file of `file` renamed over `file`
  deriving DecidableEq, Repr

inductive UEv
  | db (e : Ev)
  | fs (op : FsOp)
  deriving DecidableEq, Repr

/-- one entry of the stack of output files -/
structure OutItem where
  file : Str
  written : Str         -- bytes written to the temp file so far
  halt : Bool

/-- the trimming loop of `override_with_outfile` on a buffer: operations and final content.
    `n` trailing newlines are inspected in windows of at most 8 bytes; structural on `fuel`. -/
def trailingNl (s : Str) : Nat := (s.reverse.takeWhile (· = '\n')).length

def trimOps (file : Str) : Nat → Str → List FsOp × Str
  | 0, s => ([], s)
  | fuel + 1, s =>
    let n := min s.length 8
    if n = 0 then ([], s)
    else
      let k := min (trailingNl s) n          -- newlines among the last n bytes
      if k = 0 then ([], s)                   -- `assert!(num_newlines > 0)` (unreachable: see C08)
      else
        let s' := if k > 1 then s.take (s.length - (k - 1)) else s
        let ops := if k > 1 then [FsOp.dropTail file (k - 1)] else []
        if k = 1 ∨ k < n then (ops, s')
        else
          let r := trimOps file fuel s'
          (ops ++ r.1, r.2)

/-- `override_with_outfile`: trim, then rename -/
def closeOps (it : OutItem) : List FsOp × Str :=
  let r := trimOps it.file (it.written.length + 1) it.written
  (r.1 ++ [.rename it.file], r.2)

structure UState (σ : Type) where
  world : World σ
  stack : List OutItem              -- innermost first
  evs : List UEv := []              -- everything that happened, in order
  final : List (Str × Str) := []    -- files renamed so far: path ↦ content written
  crashed : Bool := false           -- Display panicked / stack underflow

def newDbEvents (before after : World σ) : List UEv :=
  (after.trace.drop before.trace.length).map UEv.db

/-- text `writeln!(outfile, "{record}")` appends -/
def recordLine (r : Rec) : Option Str := (unparse r).map (· ++ ['\n'])

def writeTop (s : UState σ) (r : Rec) : UState σ :=
  match s.stack, recordLine r with
  | it :: rest, some text =>
    { s with stack := { it with written := it.written ++ text } :: rest,
             evs := s.evs ++ [.fs (.append it.file text)] }
  | _, _ => { s with crashed := true }

/-- one record of the flattened list (with begin/end markers) -/
def updateStep (E : Env σ) (cfg : RCfg) (uc : UCfg) (format : Bool) (s : UState σ) (r : Rec) :
    UState σ :=
  if s.crashed then s else
  match r with
  | .beginInclude f =>
    let halt := match s.stack with | it :: _ => it.halt | [] => false
    { s with stack := ⟨f, [], halt⟩ :: s.stack, evs := s.evs ++ [.fs (.create f)] }
  | .endInclude _ =>
    (match s.stack with
     | it :: parent :: rest =>
       let c := closeOps it
       { s with stack := { parent with halt := it.halt } :: rest,
                evs := s.evs ++ c.1.map UEv.fs, final := s.final ++ [(it.file, c.2)] }
     | _ => { s with crashed := true })
  | r =>
    match s.stack with
    | [] => { s with crashed := true }
    | it :: rest =>
      if it.halt then writeTop s r
      else if r.isHalt then writeTop { s with stack := { it with halt := true } :: rest } r
      else if format then writeTop s r
      else
        let a := applyRecord E cfg s.world r
        let r' := (updateRecord uc r a.2).getD r
        writeTop { s with world := a.1, evs := s.evs ++ newDbEvents s.world a.1 } r'

/-- `update_test_file` on the flattened records of `root` -/
def updateFile (E : Env σ) (cfg : RCfg) (uc : UCfg) (format : Bool) (w : World σ) (root : Str)
    (recs : List Rec) : UState σ :=
  let s0 : UState σ := { world := w, stack := [⟨root, [], false⟩], evs := [.fs (.create root)] }
  let s := recs.foldl (updateStep E cfg uc format) s0
  if s.crashed then s else
  match s.stack with
  | it :: _ =>
    let c := closeOps it
    { s with stack := [], evs := s.evs ++ c.1.map UEv.fs, final := s.final ++ [(it.file, c.2)] }
  | [] => { s with crashed := true }

/-! ### file-system semantics of the operations (temp files are a separate name space) -/

structure FsState where
  files : List (Str × Str)       -- original paths
  temps : List (Str × Str)       -- temp file of path

def setFile (l : List (Str × Str)) (p : Str) (c : Str) : List (Str × Str) :=
  match l with
  | [] => [(p, c)]
  | (q, d) :: rest => if q = p then (p, c) :: rest else (q, d) :: setFile rest p c

def getFile (l : List (Str × Str)) (p : Str) : Option Str :=
  match l with
  | [] => none
  | (q, d) :: rest => if q = p then some d else getFile rest p

def delFile (l : List (Str × Str)) (p : Str) : List (Str × Str) :=
  l.filter (fun x => x.1 ≠ p)

def FsOp.apply (st : FsState) : FsOp → FsState
  | .create f => { st with temps := setFile st.temps f [] }
  | .append f t => { st with temps := setFile st.temps f ((getFile st.temps f).getD [] ++ t) }
  | .dropTail f k =>
    let c := (getFile st.temps f).getD []
    { st with temps := setFile st.temps f (c.take (c.length - k)) }
  | .rename f =>
    match getFile st.temps f with
    | some c => { files := setFile st.files f c, temps := delFile st.temps f }
    | none => st

def applyFsOps (st : FsState) (ops : List FsOp) : FsState := ops.foldl FsOp.apply st

def fsOpsOf (evs : List UEv) : List FsOp :=
  evs.filterMap (fun e => match e with | .fs op => some op | .db _ => none)

end Slt
