#!/usr/bin/env python3
"""
Orchestrator of the sqllogictest-rs verification (see /verif/DESIGN.md, sections 5, 6, 10).

  tools/check.py <Cxx> [--tier quick|thorough]     run the check of one property
  tools/check.py <Cxx> --replay <path>             re-run the case stored in a replay file
  tools/check.py setup                             build everything (MANIFEST.setup_cmd)

Per property the check
  (P) builds the Lean property module, scans the sources for forbidden constructs and audits the
      axioms of every theorem of `SltVerif/Props/<Cxx>.lean`;
  (K) rebuilds the Rust harness against /repo's working tree, lets it generate cases and run the
      REAL code on them, runs the compiled Lean model on the same cases and compares the streams;
  (O) evaluates the property's own oracle on the implementation's outputs (where one is defined).
Exit 0 = held on everything explored; exit 1 + `VIOLATION property=<id> replay=<path>` otherwise;
exit 2 = the machinery itself failed (never a verdict about the code).
"""
import argparse
import fcntl
import hashlib
import json
import os
import re
import subprocess
import sys
import time
from concurrent.futures import ThreadPoolExecutor

ROOT = os.path.dirname(os.path.dirname(os.path.abspath(__file__)))
LEAN = os.path.join(ROOT, "lean")
# The source tree under test.  Registered commands use /repo; SLT_REPO lets a background run (vp run
# --with-repo) or a seed experiment point the whole machinery at another checkout without touching /repo.
REPO = os.path.abspath(os.environ.get("SLT_REPO", "/repo"))
HARNESS_SRC = os.path.join(ROOT, "harness")
# with another tree the harness is built in its own directory (Cargo.toml with the other paths), and case
# files, replays and evidence go to out/alt/ so that such an experiment never overwrites what a
# registered run against /repo wrote
# (SLT_ALT_TAG keeps several such experiments apart so that they can run side by side)
ALT = "alt" + os.environ.get("SLT_ALT_TAG", "")
OUT = os.path.join(ROOT, "out") if REPO == "/repo" else os.path.join(ROOT, "out", ALT)
HARNESS = HARNESS_SRC if REPO == "/repo" else os.path.join(ROOT, "out", "harness_" + ALT)
EVID = os.path.join(ROOT, "evidence") if REPO == "/repo" else os.path.join(OUT, "evidence")
os.makedirs(EVID, exist_ok=True)
MODEL_BIN = os.path.join(LEAN, ".lake", "build", "bin", "sltmodel")
HARNESS_BIN = os.path.join(HARNESS, "target", "release", "slt-harness")
ALLOWED_AXIOMS = {"propext", "Classical.choice", "Quot.sound"}
FORBIDDEN = re.compile(
    r"\bsorry\b|\badmit\b|^\s*axiom\s|native_decide|bv_decide|implemented_by|\bunsafe\s|maxHeartbeats\s+0|\bextern\b"
)

sys.path.insert(0, os.path.dirname(os.path.abspath(__file__)))
import props as PROPS  # noqa: E402
import oracles as ORACLES  # noqa: E402

ENV = dict(os.environ)
ENV["CARGO_NET_OFFLINE"] = "true"
ENV["RUST_BACKTRACE"] = "0"
ENV["SLT_REPO"] = REPO
ENV["SLT_HARNESS_DIR"] = HARNESS
ENV.setdefault("SLT_SCRATCH", os.path.join(OUT, "scratch"))


TRACE_LIB = os.environ.get("SLT_TRACE_LIB", "1") == "1"


class MachineryError(Exception):
    pass


def sh(cmd, cwd=None, timeout=3600, check=True, stdin=None):
    p = subprocess.run(cmd, cwd=cwd, env=ENV, stdout=subprocess.PIPE, stderr=subprocess.STDOUT,
                       text=True, timeout=timeout, stdin=stdin)
    if check and p.returncode != 0:
        raise MachineryError(f"command failed ({p.returncode}): {' '.join(cmd)}\n{p.stdout[-4000:]}")
    return p


class Lock:
    def __init__(self, name):
        os.makedirs(OUT, exist_ok=True)
        self.path = os.path.join(OUT, name)

    def __enter__(self):
        self.f = open(self.path, "w")
        fcntl.flock(self.f, fcntl.LOCK_EX)

    def __exit__(self, *a):
        fcntl.flock(self.f, fcntl.LOCK_UN)
        self.f.close()


# ----------------------------------------------------------------------------- (P) proofs

def strip_comments(src):
    # remove /- ... -/ (nested) and -- ... comments
    out, i, depth = [], 0, 0
    while i < len(src):
        if src.startswith("/-", i):
            depth += 1
            i += 2
        elif depth and src.startswith("-/", i):
            depth -= 1
            i += 2
        elif depth:
            i += 1
        elif src.startswith("--", i):
            while i < len(src) and src[i] != "\n":
                i += 1
        else:
            out.append(src[i])
            i += 1
    return "".join(out)


def lean_sources():
    res = []
    for d, _, fs in os.walk(os.path.join(LEAN, "SltVerif")):
        for f in fs:
            if f.endswith(".lean"):
                res.append(os.path.join(d, f))
    return sorted(res)


def import_closure(module):
    """files of SltVerif modules transitively imported by `module`"""
    seen, todo = {}, [module]
    while todo:
        m = todo.pop()
        if m in seen or not m.startswith("SltVerif"):
            continue
        path = os.path.join(LEAN, *m.split(".")) + ".lean"
        if not os.path.exists(path):
            continue
        seen[m] = path
        for imp in re.findall(r"^import\s+(\S+)", open(path).read(), re.M):
            todo.append(imp)
    return sorted(seen.values())


def scan_sources(module):
    bad = []
    for path in import_closure(module):
        src = strip_comments(open(path).read())
        for n, line in enumerate(src.split("\n"), 1):
            if FORBIDDEN.search(line):
                bad.append(f"{os.path.relpath(path, ROOT)}:{n}: {line.strip()[:120]}")
    return bad


def prop_modules(pid):
    """SltVerif.Props.<pid> and its continuation files SltVerif.Props.<pid>b, c, …"""
    d = os.path.join(LEAN, "SltVerif", "Props")
    return sorted("SltVerif.Props." + f[:-5] for f in os.listdir(d)
                  if re.fullmatch(re.escape(pid) + r"[a-z]?\.lean", f))


def theorems_of(pid):
    """Full names of every theorem stated in SltVerif/Props/<pid>[a-z]?.lean."""
    res = []
    for m in prop_modules(pid):
        path = os.path.join(LEAN, *m.split(".")) + ".lean"
        src = strip_comments(open(path).read())
        # a file may open several namespaces: track them line by line
        ns = []
        for line in src.split("\n"):
            mm = re.match(r"^namespace\s+(\S+)", line)
            if mm:
                ns.append(mm.group(1))
                continue
            mm = re.match(r"^end\s+(\S+)", line)
            if mm and ns and ns[-1] == mm.group(1):
                ns.pop()
                continue
            mm = re.match(r"^\s*(?:private\s+)?(?:protected\s+)?theorem\s+([^\s:({\[]+)", line)
            if mm:
                name = mm.group(1)
                res.append(name[len("_root_."):] if name.startswith("_root_.") else ".".join(ns + [name]))
    return res


def prove(pid, thorough):
    """Returns (obligations, discharged, failures[list of str])."""
    failures = []
    modules = prop_modules(pid)
    module = " ".join(modules)
    with Lock(".lake.lock"):
        p = sh(["lake", "build"] + modules + ["sltmodel"], cwd=LEAN, check=False)
    obligations = 0
    discharged = 0
    obligations += 1
    if p.returncode != 0:
        failures.append(f"lake build {module} failed:\n{p.stdout[-3000:]}")
        return obligations, discharged, failures, []
    discharged += 1
    obligations += 1
    bad = [b for m in modules for b in scan_sources(m)]
    if bad:
        failures.append("forbidden constructs in Lean sources:\n" + "\n".join(bad))
    else:
        discharged += 1
    thms = theorems_of(pid)
    os.makedirs(os.path.join(OUT, pid), exist_ok=True)
    audit = os.path.join(OUT, pid, f"Audit_{pid}.lean")
    with open(audit, "w") as f:
        for m in modules:
            f.write(f"import {m}\n")
        for t in thms:
            f.write(f"#print axioms {t}\n")
    p = sh(["lake", "env", "lean", audit], cwd=LEAN, check=False)
    text = p.stdout
    # one report per theorem, in order
    reports = re.findall(r"'(\S+)' (does not depend on any axioms|depends on axioms: \[([^\]]*)\])", text)
    seen = {}
    for name, _, axs in reports:
        seen[name] = set(a.strip() for a in axs.replace("\n", " ").split(",") if a.strip())
    for t in thms:
        obligations += 1
        if t not in seen:
            failures.append(f"theorem {t}: no axiom report (does it still check?)\n{text[-1500:]}")
        elif not seen[t] <= ALLOWED_AXIOMS:
            failures.append(f"theorem {t}: depends on non-allowed axioms {sorted(seen[t] - ALLOWED_AXIOMS)}")
        else:
            discharged += 1
    if thorough:
        obligations += 1
        p = sh(["lake", "env", "leanchecker"] + modules, cwd=LEAN, check=False, timeout=3600)
        if p.returncode != 0:
            failures.append(f"leanchecker {module} failed:\n{p.stdout[-2000:]}")
        else:
            discharged += 1
    return obligations, discharged, failures, thms


# ----------------------------------------------------------------------------- (K) correspondence

def prepare_alt_harness():
    """SLT_REPO != /repo: a copy of the harness manifest with the path dependencies redirected"""
    if HARNESS == HARNESS_SRC:
        return
    import shutil
    os.makedirs(os.path.join(HARNESS, ".cargo"), exist_ok=True)
    toml = open(os.path.join(HARNESS_SRC, "Cargo.toml")).read().replace('"/repo/', '"' + REPO + '/')
    if not os.path.exists(os.path.join(HARNESS, "Cargo.toml")) or open(os.path.join(HARNESS, "Cargo.toml")).read() != toml:
        open(os.path.join(HARNESS, "Cargo.toml"), "w").write(toml)
    shutil.copy(os.path.join(HARNESS_SRC, ".cargo", "config.toml"), os.path.join(HARNESS, ".cargo", "config.toml"))
    link = os.path.join(HARNESS, "src")
    if not os.path.islink(link):
        os.symlink(os.path.join(HARNESS_SRC, "src"), link)


def build_cli():
    """the real CLI binary, rebuilt from /repo's working tree"""
    prepare_alt_harness()
    with Lock(".cargo.lock"):
        p = sh(["cargo", "build", "--offline", "-p", "sqllogictest-bin", "--target-dir",
                os.path.join(HARNESS, "target", "cli")], cwd=REPO, check=False, timeout=3600)
        if p.returncode != 0:
            return p.stdout[-4000:]
    return None


def build_harness():
    prepare_alt_harness()
    with Lock(".cargo.lock"):
        lock_src = os.path.join(REPO, "Cargo.lock")
        lock_dst = os.path.join(HARNESS, "Cargo.lock")
        if not os.path.exists(lock_dst):
            import shutil
            shutil.copy(lock_src, lock_dst)
        p = sh(["cargo", "build", "--release", "--offline"], cwd=HARNESS, check=False, timeout=3600)
        if p.returncode != 0:
            return p.stdout[-4000:]
    return None


def run_model(cases_path, model_path, nshards=8):
    lines = open(cases_path).read().split("\n")
    if lines and lines[-1] == "":
        lines.pop()
    if len(lines) < 2000:
        nshards = 1
    size = (len(lines) + nshards - 1) // max(nshards, 1)
    shards = [lines[i * size:(i + 1) * size] for i in range(nshards)] if lines else []

    def one(shard):
        if not shard:
            return []
        p = subprocess.run([MODEL_BIN], input="\n".join(shard) + "\n", stdout=subprocess.PIPE,
                           stderr=subprocess.PIPE, text=True, timeout=3600)
        if p.returncode != 0:
            raise MachineryError(f"model driver failed: {p.stderr[-2000:]}")
        o = p.stdout.split("\n")
        if o and o[-1] == "":
            o.pop()
        return o

    with ThreadPoolExecutor(max_workers=max(nshards, 1)) as ex:
        outs = list(ex.map(one, shards))
    res = [l for o in outs for l in o]
    with open(model_path, "w") as f:
        f.write("\n".join(res) + ("\n" if res else ""))
    if len(res) != len(lines):
        raise MachineryError(f"model produced {len(res)} answers for {len(lines)} cases")
    return lines, res


def unhex(tok):
    try:
        return bytes.fromhex(tok[1:]).decode("utf-8", "replace")
    except Exception:
        return tok


def decode_line(line, limit=4000):
    """human-readable rendering of a protocol line (hex fields decoded)"""
    toks = line.split(" ")
    out = []
    for t in toks:
        if re.fullmatch(r"x([0-9a-f]{2})*", t):
            out.append(json.dumps(unhex(t), ensure_ascii=False))
        else:
            out.append(t)
    s = " ".join(out)
    return s if len(s) <= limit else s[:limit] + " …"


def correspond(pid, spec, tier, seed):
    """Runs every configured profile; returns dict with stats and disagreements."""
    stats = {"evaluations": 0, "profiles": [], "disagreements": [], "oracle_failures": [],
             "machinery": [], "distinct": set(), "samples": [], "kinds": {}, "guard_skipped": 0,
             "known": [], "hangs": []}
    runs = list(spec["runs"])
    corpus = os.path.join(ROOT, "corpus", f"{pid}.cases")
    if os.path.exists(corpus):
        # minimised past failures / witnesses of known findings: run first
        first = runs[0]
        runs.insert(0, {"profile": "corpus", "corpus": corpus, "oracle": first.get("oracle", ""),
                        "nontrivial": first.get("nontrivial", "script"), "canon": first.get("canon", "")})
    for run in runs:
        prof = run["profile"]
        n = run.get("n_thorough", 0) if tier == "thorough" else run.get("n_quick", 0)
        outdir = os.path.join(OUT, pid, prof)
        os.makedirs(outdir, exist_ok=True)
        t0 = time.time()
        if "corpus" in run:
            text = open(run["corpus"]).read()
            open(os.path.join(outdir, "cases.txt"), "w").write(text)
            p = subprocess.run([HARNESS_BIN, "replay"], input=text, stdout=subprocess.PIPE, text=True, env=ENV)
            if p.returncode != 0:
                raise MachineryError("harness replay of the corpus failed")
            open(os.path.join(outdir, "impl.txt"), "w").write(p.stdout)
            ncases = len([l for l in text.split("\n") if l])
            open(os.path.join(outdir, "tags.txt"), "w").write("corpus\n" * ncases)
            open(os.path.join(outdir, "expect.txt"), "w").write("-\n" * ncases)
        elif run.get("kind") == "cli":
            p = sh(["python3", os.path.join(ROOT, "tools", "cli_harness.py"), "gen", prof, str(seed), str(n), tier, outdir],
                   check=False, timeout=7200)
            if p.returncode != 0:
                raise MachineryError(f"cli harness gen {prof} failed: {p.stdout[-3000:]}")
        else:
            p = sh([HARNESS_BIN, "gen", prof, str(seed), str(n), tier, outdir], check=False, timeout=7200)
            hang = os.path.join(outdir, "hang.txt")
            if p.returncode == 3 and os.path.exists(hang):
                # the implementation did not come back from one case (the harness's watchdog ended the
                # run): that input is the finding; the rest of this profile is not evaluated
                stats["hangs"].append({"profile": prof, "case": open(hang).read().strip()})
                continue
            if p.returncode != 0:
                raise MachineryError(f"harness gen {prof} failed: {p.stdout[-3000:]}")
            if prof == "c17lib" and TRACE_LIB:
                # the library's parallel runner: its canonicalised event logs are also replayed in the
                # driver transition system (witness search in cli_harness.py, checked by the Lean model)
                p = sh(["python3", os.path.join(ROOT, "tools", "cli_harness.py"), "libtrace", outdir], check=False, timeout=3600)
                if p.returncode != 0:
                    raise MachineryError(f"libtrace on {prof} failed: {p.stdout[-3000:]}")
        cases, model = run_model(os.path.join(outdir, "cases.txt"), os.path.join(outdir, "model.txt"))
        impl = open(os.path.join(outdir, "impl.txt")).read().split("\n")
        if impl and impl[-1] == "":
            impl.pop()
        tags = open(os.path.join(outdir, "tags.txt")).read().split("\n")
        expect = []
        if os.path.exists(os.path.join(outdir, "expect.txt")):
            expect = open(os.path.join(outdir, "expect.txt")).read().split("\n")
        if len(impl) != len(cases):
            raise MachineryError(f"{prof}: {len(impl)} impl answers for {len(cases)} cases")
        canon = ORACLES.CANON.get(run.get("canon", ""), None)
        oracle = ORACLES.ORACLES.get(run.get("oracle", ""), None)
        nontrivial = ORACLES.NONTRIVIAL.get(run.get("nontrivial", "script"), ORACLES.NONTRIVIAL["script"])
        ctx = {}
        for i, (c, a, m) in enumerate(zip(cases, impl, model)):
            stats["evaluations"] += 1
            tag = tags[i] if i < len(tags) else ""
            if m.startswith("DECODE-ERROR") or m in ("TABLE-MISS", "bad-op") or m.startswith("unknown op"):
                stats["machinery"].append({"profile": prof, "index": i, "model": m, "case": decode_line(c, 600)})
                continue
            # outside the model's guard: no comparison with the model, but the oracles on the
            # implementation alone (expect.txt `!…`, Python oracles) still judge the case
            outside = m == "unsupported"
            if outside:
                stats["guard_skipped"] += 1
                m = a
            a2, m2 = (canon(a), canon(m)) if canon else (a, m)
            key = a.split(" ")[0:3]
            k = " ".join(key[:1] + ([key[2]] if key[0] == "failed" and len(key) > 2 else []))
            stats["kinds"][k] = stats["kinds"].get(k, 0) + 1
            if nontrivial(c, a, tag):
                stats["distinct"].add(hashlib.sha1(c.encode()).digest()[:10])
            if c.startswith("clitrace ") and a2 == m2 == "accept":
                stats["lts_replayed"] = stats.get("lts_replayed", 0) + 1
            if a2 != m2:
                stats["disagreements"].append({"profile": prof, "index": i, "case": c, "impl": a, "model": m, "tag": tag})
            if i < len(expect) and expect[i].startswith("!"):
                # `!Cxx|message`: an oracle of another property evaluated on the same run
                msg = expect[i][1:]
                mm = re.match(r"(C\d+)\|(.*)", msg)
                if not mm or mm.group(1) == pid:
                    stats["oracle_failures"].append({"profile": prof, "index": i, "case": c, "impl": a, "model": m, "tag": tag,
                                                     "oracle": mm.group(2) if mm else msg})
            elif i < len(expect) and expect[i] not in ("-", "") and expect[i] != a:
                stats["oracle_failures"].append({"profile": prof, "index": i, "case": c, "impl": a, "model": m, "tag": tag,
                                                 "oracle": "implementation output differs from what the generator intended: " + decode_line(expect[i], 3000)})
            if oracle:
                msg = oracle(c, a, tag, ctx)
                if msg:
                    stats["oracle_failures"].append({"profile": prof, "index": i, "case": c, "impl": a, "model": m, "tag": tag, "oracle": msg})
            if len(stats["samples"]) < 3 and i % max(1, len(cases) // 3) == 0:
                stats["samples"].append({"profile": prof, "tag": tag, "case": decode_line(c, 700), "impl": decode_line(a, 300), "model": decode_line(m, 300)})
        if oracle and hasattr(oracle, "finish"):
            for msg, item in oracle.finish(ctx):
                stats["oracle_failures"].append(dict(item, oracle=msg, profile=prof))
        stats["profiles"].append({"profile": prof, "cases": len(cases), "wall_s": round(time.time() - t0, 2),
                                  "exhaustive_part": run.get("exhaustive", False)})
    return stats


# ----------------------------------------------------------------------------- verdicts

def load_known():
    path = os.path.join(ROOT, "known_findings.json")
    if not os.path.exists(path):
        return {"known": [], "fixed": []}
    return json.load(open(path))


def matches_known(pid, item, known):
    for k in known["known"]:
        if k["property"] != pid:
            continue
        pred = ORACLES.KNOWN_PREDICATES.get(k["predicate"])
        if pred and pred(item, k):
            return k
    return None


def write_replay(pid, name, payload):
    d = os.path.join(OUT, pid, "replay")
    os.makedirs(d, exist_ok=True)
    path = os.path.join(d, name)
    json.dump(payload, open(path, "w"), indent=1, ensure_ascii=False)
    return path


def run_check(pid, tier, seed):
    t0 = time.time()
    spec = PROPS.PROPS[pid]
    os.makedirs(EVID, exist_ok=True)
    violations = []  # (replay_path, suffix)
    known_lines = []
    known = load_known()

    obligations, discharged, pfail, thms = prove(pid, tier == "thorough")
    for i, f in enumerate(pfail):
        path = write_replay(pid, f"proof_{i}.json", {
            "property": pid, "kind": "proof-obligation", "what": f,
            "note": "a theorem / audit of the verification tree no longer checks; no input of the "
                    "implementation is involved"})
        violations.append((path, "no-failing-input-found"))

    err = build_harness()
    if err:
        raise MachineryError("harness build failed (does /repo still compile?):\n" + err)
    if not os.path.exists(MODEL_BIN):
        raise MachineryError("model driver binary missing")
    if any(r.get("kind") == "cli" for r in spec["runs"]):
        err = build_cli()
        if err:
            raise MachineryError("CLI build failed (does /repo still compile?):\n" + err)

    stats = correspond(pid, spec, tier, seed)
    if stats["machinery"]:
        raise MachineryError("driver could not process cases: " + json.dumps(stats["machinery"][:3], ensure_ascii=False)[:2000])

    # oracle failures: the property fails on the implementation itself
    reported = set()

    def report(item, kind):
        # known findings are failures of the property on the implementation itself (oracle); the model
        # follows the code, defects included, so a disagreement between the two is never "known"
        k = matches_known(pid, item, known) if kind == "oracle" else None
        if k:
            line = f"KNOWN-FINDING: property={pid} {k['what']}"
            if line not in known_lines:
                known_lines.append(line)
            return
        sig = (item["profile"], kind)
        if sig in reported and len(reported) >= 1:
            return  # one replay per profile and kind: the smallest case
        reported.add(sig)
        same = [x for x in (stats["oracle_failures"] if kind == "oracle" else stats["disagreements"])
                if x["profile"] == item["profile"] and (kind != "oracle" or not matches_known(pid, x, known))
                and (kind == "oracle" or (x["profile"], x["index"]) not in oracle_cases)]
        best = min(same, key=lambda x: len(x["case"]))
        payload = {
            "property": pid, "kind": "property-failure-on-implementation" if kind == "oracle"
            else "implementation-differs-from-proved-model",
            "profile": best["profile"], "tag": best["tag"], "seed": seed, "tier": tier,
            "case_line": best["case"], "case_decoded": decode_line(best["case"], 20000),
            "implementation_output": decode_line(best["impl"], 20000),
            "model_output": decode_line(best["model"], 20000),
            "oracle": best.get("oracle"),
            "observable": spec.get("observable", ""),
            "others": len(same) - 1,
            "replay_cmd": f"python3 tools/check.py {pid} --replay <this file>",
        }
        path = write_replay(pid, f"{kind}_{best['profile']}_{best['index']}.json", payload)
        suffix = ""
        if kind == "diff" and spec.get("diff_is_failing_input", True) is False:
            suffix = "no-failing-input-found"
        violations.append((path, suffix))

    # a disagreement on a case whose oracle failure is reported anyway is the same event; one whose
    # oracle failure is a known finding is not (the known defect does not explain a disagreement)
    for k, h in enumerate(stats["hangs"]):
        path = write_replay(pid, f"hang_{h['profile']}_{k}.json", {
            "property": pid, "kind": "implementation-does-not-terminate", "profile": h["profile"], "seed": seed, "tier": tier,
            "case_line": h["case"], "case_decoded": decode_line(h["case"], 20000),
            "what": "the implementation did not return from this case within 90 s (the model answers at once); "
                    "the remaining cases of the profile were not evaluated",
            "replay_cmd": f"python3 tools/check.py {pid} --replay <this file>"})
        violations.append((path, ""))

    oracle_cases = set((x["profile"], x["index"]) for x in stats["oracle_failures"]
                       if not matches_known(pid, x, known))
    for item in stats["oracle_failures"]:
        report(item, "oracle")
    for item in stats["disagreements"]:
        if (item["profile"], item["index"]) in oracle_cases:
            continue
        report(item, "diff")

    wall = round(time.time() - t0, 2)
    evidence = {
        "property_id": pid, "tier": tier, "seed": seed, "level": "proof",
        "coverage": {
            "obligations": obligations, "discharged": discharged,
            "checker_cmd": f"cd lean && lake build {' '.join(prop_modules(pid))} && lake env lean <#print axioms of every theorem>"
                           + (" && lake env leanchecker " + " ".join(prop_modules(pid)) if tier == "thorough" else ""),
            "theorems": thms,
            "trusted_base": PROPS.TRUSTED_BASE + spec.get("trusted", []),
            "evaluations": stats["evaluations"],
            "distinct_nontrivial": len(stats["distinct"]),
            "rule": spec.get("rule", PROPS.DEFAULT_RULE),
            "traces_validated_against_impl": stats["evaluations"] - len(stats["disagreements"]) - stats["guard_skipped"],
            # observed runs (real CLI / library run_parallel) replayed as runs of the driver transition
            # system by the verified checker `traceCheck` (C16 / C17 / C19)
            "observed_runs_replayed_in_driver_lts": stats.get("lts_replayed", 0),
            "samples": stats["samples"] or [{"note": "no cases"}],
            "profiles": stats["profiles"],
            "outcome_distribution": stats["kinds"],
            "cases_outside_model_guard": stats["guard_skipped"],
            "disagreements": len(stats["disagreements"]),
            "oracle_failures": len(stats["oracle_failures"]),
            "known_findings_hit": known_lines,
            "exhaustive": bool(spec.get("exhaustive", False)),
            "explanation": spec.get("explanation", ""),
        },
        "assumptions": spec.get("assumptions", []) + PROPS.COMMON_ASSUMPTIONS,
        "wall_s": wall,
        "violations": len(violations),
    }
    json.dump(evidence, open(os.path.join(EVID, f"{pid}.json"), "w"), indent=1, ensure_ascii=False)
    for l in known_lines:
        print(l)
    for path, suffix in violations:
        print(f"VIOLATION property={pid} replay={path}" + (f" {suffix}" if suffix else ""))
    print(f"[{pid}] tier={tier} seed={seed} obligations={discharged}/{obligations} cases={stats['evaluations']} "
          f"distinct_nontrivial={len(stats['distinct'])} disagreements={len(stats['disagreements'])} "
          f"oracle_failures={len(stats['oracle_failures'])} wall={wall}s")
    return 1 if violations else 0


def replay(pid, path):
    payload = json.load(open(path))
    if "case_line" not in payload:
        print(json.dumps(payload, indent=1, ensure_ascii=False))
        return 1
    err = build_harness()
    if err:
        raise MachineryError(err)
    with Lock(".lake.lock"):
        sh(["lake", "build", "sltmodel"], cwd=LEAN)
    line = payload["case_line"] + "\n"
    op = line.split(" ")[0]
    if op in ("part", "partcfg", "serial", "climon", "clifmt"):
        err = build_cli()
        if err:
            raise MachineryError(err)
        a = subprocess.run(["python3", os.path.join(ROOT, "tools", "cli_harness.py"), "replay"], input=line,
                           stdout=subprocess.PIPE, text=True, env=ENV).stdout.strip()
    else:
        try:
            a = subprocess.run([HARNESS_BIN, "replay"], input=line, stdout=subprocess.PIPE, text=True, env=ENV,
                               timeout=150).stdout.strip()
        except subprocess.TimeoutExpired:
            a = "(the implementation did not return within 150 s)"
    m = subprocess.run([MODEL_BIN], input=line, stdout=subprocess.PIPE, text=True).stdout.strip()
    print("case:           ", payload.get("case_decoded", "")[:3000])
    print("implementation: ", decode_line(a, 3000))
    print("model:          ", decode_line(m, 3000))
    if a != m:
        print(f"VIOLATION property={pid} replay={path}")
        return 1
    print("implementation and model agree on this case now")
    return 0


def setup():
    mods = [m for pid in sorted(PROPS.PROPS)
            if os.path.exists(os.path.join(LEAN, "SltVerif", "Props", f"{pid}.lean")) for m in prop_modules(pid)]
    with Lock(".lake.lock"):
        sh(["lake", "build", "SltVerif", "sltmodel"] + mods, cwd=LEAN, timeout=7200)
    err = build_harness() or build_cli()
    if err:
        raise MachineryError(err)
    print("setup ok")
    return 0


def main():
    ap = argparse.ArgumentParser()
    ap.add_argument("pid")
    ap.add_argument("--tier", default=os.environ.get("VERIF_TIER", "quick"))
    ap.add_argument("--replay")
    a = ap.parse_args()
    seed = int(os.environ.get("VERIF_SEED", "1"))
    try:
        if a.pid == "setup":
            sys.exit(setup())
        if a.replay:
            sys.exit(replay(a.pid, a.replay))
        sys.exit(run_check(a.pid, "thorough" if a.tier == "thorough" else "quick", seed))
    except MachineryError as e:
        print(f"ERROR: {e}", file=sys.stderr)
        # the machinery could not decide: report it as a broken obligation rather than stay silent
        if a.pid != "setup" and not a.replay:
            path = write_replay(a.pid, "machinery.json", {"property": a.pid, "kind": "machinery-error", "what": str(e)[:6000]})
            print(f"VIOLATION property={a.pid} replay={path} no-failing-input-found")
            sys.exit(1)
        sys.exit(2)


if __name__ == "__main__":
    main()
