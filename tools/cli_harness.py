#!/usr/bin/env python3
"""
CLI-level harness: drives the REAL `sqllogictest` binary (built from /repo) against the scripted
fake external engine and writes the same four files as the Rust harness:
  cases.txt (lines for the Lean model driver), impl.txt (what the CLI did, same protocol),
  tags.txt, expect.txt ("-" or "!Cxx|oracle failure on the implementation alone").

  cli_harness.py gen <profile> <seed> <n> <quick|thorough> <outdir>
  cli_harness.py replay            (case lines on stdin -> implementation answers; only for
                                    deterministic ops: part, partcfg, serial)
"""
import os
import random
import re
import shutil
import subprocess
import sys
import time
import xml.etree.ElementTree as ET

ROOT = os.path.dirname(os.path.dirname(os.path.abspath(__file__)))
HARNESS_DIR = os.environ.get("SLT_HARNESS_DIR", os.path.join(ROOT, "harness"))
CLI = os.environ.get("SLT_CLI_BIN", os.path.join(HARNESS_DIR, "target", "cli", "debug", "sqllogictest"))
ENGINE = os.path.join(HARNESS_DIR, "target", "release", "fake_engine")
SCRATCH = os.environ.get("SLT_SCRATCH", os.path.join(ROOT, "out", "scratch"))


def hx(s):
    return "x" + s.encode().hex()


def unhx(t):
    return bytes.fromhex(t[1:]).decode("utf-8", "replace")


class Run:
    pass


TIMEOUTS = [0]


class TooManyTimeouts(Exception):
    pass


def run_cli(cwd, args, env_extra=None, timeout=30, stdin=None, template=None):
    if TIMEOUTS[0] >= 8:
        # eight runs of this profile did not come back within their time limit (each is recorded): the
        # violation is established, further runs would only wait for the limit again
        raise TooManyTimeouts()
    env = dict(os.environ)
    for k in list(env):
        if k.startswith("SLT_") or k.startswith("BUILDKITE_") or k.startswith("FAKE_"):
            del env[k]
    env["RUST_BACKTRACE"] = "0"
    env["RUST_LOG"] = "off"    # (profiles that want the CLI's warnings pass RUST_LOG in env_extra)
    log = os.path.join(cwd, "events.log")
    for f in (log, log + ".cnt"):
        if os.path.exists(f):
            os.remove(f)
    env["FAKE_LOG"] = log
    if env_extra:
        env.update(env_extra)
    cmd = [CLI, "--engine", "external", "--external-engine-command-template", template or f"exec {ENGINE} {{db}}",
           "--color", "never"] + args
    t0 = time.time()
    r = Run()
    try:
        p = subprocess.run(cmd, cwd=cwd, env=env, stdout=subprocess.PIPE, stderr=subprocess.PIPE, timeout=timeout)
        r.exit, r.stdout, r.stderr = p.returncode, p.stdout.decode("utf-8", "replace"), p.stderr.decode("utf-8", "replace")
        r.timeout = False
    except subprocess.TimeoutExpired as e:
        r.exit, r.stdout, r.stderr = -999, (e.stdout or b"").decode("utf-8", "replace"), (e.stderr or b"").decode("utf-8", "replace")
        r.timeout = True
    r.wall = time.time() - t0
    if r.timeout:
        TIMEOUTS[0] += 1
    r.events = []
    r.too_many = TIMEOUTS[0] >= 8
    if os.path.exists(log):
        for line in open(log):
            t = line.rstrip("\n").split(" ")
            if len(t) >= 4:
                r.events.append({"t": int(t[0]), "pid": int(t[1]), "db": t[2], "ev": t[3], "args": t[4:]})
    r.events.sort(key=lambda e: e["t"])
    return r


def statuses(stdout, files):
    """status tag printed for each file: OK / FAILED / SKIPPED / CANCELLED / None"""
    res = {}
    heads = []
    for f in files:
        for m in re.finditer(r"(?m)^" + re.escape(f) + r"\s+\.\. ", stdout):
            heads.append((m.start(), m.end(), f))
    heads.sort()
    for i, (s, e, f) in enumerate(heads):
        nxt = heads[i + 1][0] if i + 1 < len(heads) else len(stdout)
        m = re.search(r"\[(OK|FAILED|SKIPPED|CANCELLED)\]", stdout[e:nxt])
        tag = m.group(1) if m else None
        res.setdefault(f, []).append(tag)
    return res


def junit(path):
    if not os.path.exists(path):
        return None
    root = ET.parse(path).getroot()
    suites = root.findall("testsuite") if root.tag == "testsuites" else [root]
    cases = []
    attrs = {}
    for s in suites:
        attrs = dict(s.attrib)
        for c in s.findall("testcase"):
            st = "success"
            if c.find("failure") is not None or c.find("error") is not None:
                st = "failure"
            elif c.find("skipped") is not None:
                st = "skipped"
            cases.append((c.attrib.get("name"), st))
    return {"cases": cases, "attrs": attrs}


def test_case_name(p):
    return re.sub(r"[ .\-/]", "_", p)


class Out:
    def __init__(self, d):
        os.makedirs(d, exist_ok=True)
        self.c = open(os.path.join(d, "cases.txt"), "w")
        self.i = open(os.path.join(d, "impl.txt"), "w")
        self.t = open(os.path.join(d, "tags.txt"), "w")
        self.e = open(os.path.join(d, "expect.txt"), "w")
        self.n = 0

    def add(self, case, impl, tag, oracle=None):
        self.c.write(case + "\n")
        self.i.write(impl + "\n")
        self.t.write(tag.replace("\n", " ") + "\n")
        self.e.write(("!" + oracle.replace("\n", " ") if oracle else "-") + "\n")
        self.n += 1

    def close(self):
        for f in (self.c, self.i, self.t, self.e):
            f.close()


def fresh_dir(name):
    d = os.path.join(SCRATCH, f"cli_{os.getpid()}_{name}")
    shutil.rmtree(d, ignore_errors=True)
    os.makedirs(d)
    return d


# --------------------------------------------------------------------------------------- C18

NAME_CHARS = "abcdefghijklmnopqrstuvwxyz0123456789_-"


def gen_names(rnd, k):
    names = set()
    while len(names) < k:
        n = "".join(rnd.choice(NAME_CHARS) for _ in range(rnd.randint(1, 9)))
        names.add(n + ".slt")
    return sorted(names)


def part_case(count, ident, globs):
    s = f"part {count} {ident} {len(globs)}"
    for g in globs:
        s += f" {len(g)}" + "".join(" " + hx(p) for p in g)
    return s


def run_part(cwd, count, ident, patterns, all_files, how, globs=None):
    args, env = list(patterns), {}
    if how == "flags":
        args = ["--partition-count", str(count), "--partition-id", str(ident)] + args
    elif how == "env":
        env = {"SLT_PARTITION_COUNT": str(count), "SLT_PARTITION_ID": str(ident)}
    else:
        env = {"BUILDKITE_PARALLEL_JOB_COUNT": str(count), "BUILDKITE_PARALLEL_JOB": str(ident)}
    r = run_cli(cwd, args, env)
    st = statuses(r.stdout, all_files)
    if globs is None:
        sel = [f for f in all_files if f in st]
    else:
        # overlapping patterns: a file is run once per pattern that selects it; the multiset of
        # status blocks is laid out pattern by pattern, the way the model's selection is
        left = {f: len(v) for f, v in st.items()}
        sel = []
        for g in globs:
            for f in g:
                if left.get(f, 0) > 0:
                    sel.append(f)
                    left[f] -= 1
        sel += [f for f, k in left.items() for _ in range(k)]
    bad = [f for f in set(sel) if any(t != "OK" for t in st[f])]
    return r, sel, bad


def profile_cli18(rnd, n, thorough, out):
    nsets = n
    for si in range(nsets):
        cwd = fresh_dir(f"c18_{si}")
        k1, k2 = rnd.randint(2, 30), rnd.choice([0, 1, 1, 2, 5, 10])
        if si % 4 == 3:
            k2 = 1
        elif si % 4 == 2:
            k2 = rnd.choice([1, 2, 5])
        os.makedirs(os.path.join(cwd, "d", "sub"))
        g1 = ["d/" + x for x in gen_names(rnd, k1)]
        g2 = ["d/sub/" + x for x in gen_names(rnd, k2)]
        for f in g1 + g2:
            open(os.path.join(cwd, f), "w").write("statement ok\nselect 1\n")
        patterns = ["d/*.slt"] + (["d/sub/*.slt"] if g2 else [])
        globs = [g1] + ([g2] if g2 else [])
        allf = g1 + g2
        overlap = None
        if si % 4 >= 2 and g2:
            # overlapping patterns: every file of d/sub is matched twice; with k2 = 1 the second
            # pattern adds all of d plus that one file
            if si % 4 == 2:
                patterns = ["d/sub/*.slt", "d/**/*.slt"]
                globs = [g2, sorted(g1 + g2)]
            else:
                # ... or the second pattern adds only the file(s) of d/sub to what the first matched
                patterns = ["d/*.slt", "d/**/*.slt"]
                globs = [g1, sorted(g1 + g2)]
            overlap = globs
        maxn = 8 if (thorough or si == 0) else 4
        for count in range(1, maxn + 1):
            sels = []
            for ident in range(count):
                how = rnd.choice(["flags", "flags", "env", "buildkite"])
                r, sel, bad = run_part(cwd, count, ident, patterns, allf, how, overlap)
                oracle = None
                if r.exit != 0 or bad:
                    oracle = f"C18|partition {ident}/{count} ({how}): exit {r.exit}, files not OK: {bad}"
                sels.append(sel)
                # re-run in a separate process: identical selection
                if oracle is None and rnd.random() < (0.5 if thorough else 0.15):
                    r2, sel2, _ = run_part(cwd, count, ident, patterns, allf, rnd.choice(["flags", "env"]), overlap)
                    if sel2 != sel:
                        oracle = f"C18|partition {ident}/{count} selects different files in another process: {sel} vs {sel2}"
                out.add(part_case(count, ident, globs), "sel " + str(len(sel)) + "".join(" " + hx(p) for p in sel),
                        f"cli18 set={si} N={count} id={ident} via={how}", oracle)
            # union / disjointness on the implementation alone (globs with > 1 match)
            # (a file is due once per multi-match pattern that matches it, and once per id for a
            # pattern with a single match, which is not partitioned)
            due = {f: sum((1 if len(g) > 1 else count) for g in globs if f in g) for f in allf}
            cnt = {f: sum(s.count(f) for s in sels) for f in allf}
            wrong = [f for f in allf if cnt[f] != due[f]]
            if wrong:
                out.add(part_case(count, 0, globs), "sel -", f"cli18 set={si} N={count} union",
                        f"C18|with N={count} these files are not covered exactly once over all ids: {wrong[:5]}")
        # invalid configurations: rejected without engine traffic
        for (c, i) in [("0", "0"), ("3", "3"), ("3", "7"), ("2", None), (None, "1"), ("1", "0"), ("4", "3"),
                       ("1", "1"), ("1", "4"), ("1", None), ("0", None)]:
            args = list(patterns)
            if c is not None:
                args = ["--partition-count", c] + args
            if i is not None:
                args = ["--partition-id", i] + args
            r = run_cli(cwd, args)
            traffic = len(r.events) > 0
            impl = "error" if (r.exit != 0 and not traffic) else ("ok" if r.exit == 0 else f"exit{r.exit}-traffic")
            out.add(f"partcfg {c if c is not None else '-'} {i if i is not None else '-'}", impl,
                    f"cli18 set={si} cfg count={c} id={i}")
        # the two options from every combination of sources: flags, SLT_PARTITION_*, the CI system's
        # variables (imported only as a pair and only when neither SLT variable is set); values that are
        # not numbers
        for _ in range(12 if not thorough else 40):
            def pick(pool):
                return rnd.choice(pool)
            src = {
                "fc": pick([None, None, None, "2", "3", "x"]), "fi": pick([None, None, None, "0", "1", "5"]),
                "sc": pick([None, None, "2", "3", "0", "+2"]), "si": pick([None, None, "0", "1", "2", "-1"]),
                "bc": pick([None, "2", "4", "4"]), "bi": pick([None, "0", "1", "3"]),
            }
            args, env = list(patterns), {}
            if src["fc"] is not None:
                args = ["--partition-count", src["fc"]] + args
            if src["fi"] is not None:
                args = ["--partition-id", src["fi"]] + args
            for k, name in (("sc", "SLT_PARTITION_COUNT"), ("si", "SLT_PARTITION_ID"),
                            ("bc", "BUILDKITE_PARALLEL_JOB_COUNT"), ("bi", "BUILDKITE_PARALLEL_JOB")):
                if src[k] is not None:
                    env[name] = src[k]
            r = run_cli(cwd, args, env)
            st = statuses(r.stdout, allf)
            if r.exit != 0 and not r.events:
                impl = "error"
            else:
                left = {f: len(v) for f, v in st.items()}
                sel = []
                for g in globs:
                    for f in g:
                        if left.get(f, 0) > 0:
                            sel.append(f)
                            left[f] -= 1
                impl = "sel " + str(len(sel)) + "".join(" " + hx(p) for p in sel)
            enc = lambda v: "-" if v is None else hx(v)
            case = "partsrc " + " ".join(enc(src[k]) for k in ("fc", "fi", "sc", "si", "bc", "bi")) + f" {len(globs)}"
            for g in globs:
                case += f" {len(g)}" + "".join(" " + hx(p) for p in g)
            out.add(case, impl, f"cli18 set={si} option sources {src}")
        # a count given through SLT_PARTITION_COUNT alone stays a count without an id, whatever the CI
        # system's own variables say (they are consulted only when neither SLT variable is set)
        r = run_cli(cwd, list(patterns), {"SLT_PARTITION_COUNT": "2", "BUILDKITE_PARALLEL_JOB_COUNT": "2", "BUILDKITE_PARALLEL_JOB": "0"})
        traffic = len(r.events) > 0
        impl = "error" if (r.exit != 0 and not traffic) else ("ok" if r.exit == 0 else f"exit{r.exit}-traffic")
        out.add("partcfg 2 -", impl, f"cli18 set={si} cfg SLT count only + Buildkite variables")
        shutil.rmtree(cwd, ignore_errors=True)


# --------------------------------------------------------------------------------------- main

# --------------------------------------------------------------------------------------- C16 / C17 / C19

def file_text(path, kind, rnd, extra=True, n_before=None, linger=False):
    """a test file whose outcome against the fake engine is `kind`; every SQL line carries the
    marker ` -- F<path>` so that the monitor can attribute it"""
    m = f" -- F{path}"
    recs = []
    def ok_rec():
        c = rnd.randint(0, 6) if extra else 0
        if c == 6:
            # passes only if no sort mode / hash threshold of an EARLIER file is still in force
            return f"query T\ndesc 3 {rnd.randint(1, 99)}{m}\n----\nr2\nr1\nr0\n"
        if c == 5:
            # unequal run times: completion order differs from file order in parallel mode
            return f"statement ok\nslow {rnd.choice([5, 20, 60, 120])} x{m}\n"
        if c == 0:
            return f"statement ok\nins {rnd.randint(1, 99)}{m}\n"
        if c == 1:
            v = rnd.randint(1, 99)
            return f"query T\nselect {v}{m}\n----\n{v}\n"
        if c == 2:
            return f"connection c{rnd.randint(1, 2)}\nstatement ok\nins 7{m}\n"
        if c == 3:
            return f"control substitution on\n\nstatement ok\ndbname $__DATABASE__{m}\n\ncontrol substitution off\n"
        return f"statement error\nfail{m}\n"
    if n_before is None:
        n_before = rnd.randint(0, 3)
    if linger:
        # this file's session needs a while to close after end-of-file: the database must not be
        # dropped before it has
        # (now and then for longer than any plausible grace period)
        recs.append(f"statement ok\nlinger {rnd.choice([700, 900, 900, 3600])} x{m}\n")
    for _ in range(n_before):
        recs.append(ok_rec())
    if kind == "pass":
        recs.append(ok_rec())
        if extra and rnd.random() < 0.3:
            # the last word of a file: runner state that must not outlive the file
            recs.append(rnd.choice(["control sortmode rowsort\n", "hash-threshold 1\n", "control sortmode valuesort\n"]))
    elif kind == "fail":
        recs.append(f"statement ok\nfail{m}\n")
        recs.append(ok_rec())
    elif kind == "mismatch":
        recs.append(f"query T\nselect 1{m}\n----\n2\n")
    elif kind == "parse":
        recs.append("statement maybe\nx\n")
    elif kind == "die":
        recs.append(f"statement ok\ndie{m}\n")
    elif kind == "diepass":
        # the engine process dies on the last request; the record expects exactly the error text the
        # driver reports for that (`io failed`, nothing appended)
        recs.append(ok_rec())
        recs.append(f"statement error\ndie{m}\n----\nio failed\n\n")
    elif kind == "refuse":
        recs.append(f"statement ok\nrefuse{m}\n")
    return "\n".join(recs)


GROUND = {"pass": "pass", "fail": "fail", "mismatch": "fail", "parse": "fail", "die": "fail", "refuse": "refuse",
          "diepass": "pass"}
TAGMAP = {"OK": "ok", "FAILED": "err", "SKIPPED": "skipped", "CANCELLED": "cancelled", None: "none"}


def canon_events(events, mgmt_db, cancel_at=None):
    """engine log -> monitor events (sessions numbered by first appearance)"""
    sess = {}
    out = []
    inserted = cancel_at is None
    for e in events:
        if not inserted and e["t"] >= cancel_at:
            out.append("cancel")
            inserted = True
        k = sess.setdefault(e["pid"], len(sess))
        if e["ev"] == "connect":
            out.append(f"connect {k} {hx(e['db'])}")
        elif e["ev"] == "sql":
            text = bytes.fromhex(e["args"][1]).decode("utf-8", "replace")
            mm = re.match(r"(CREATE|DROP) DATABASE (.*);$", text)
            if mm and e["db"] == mgmt_db:
                out.append(("create " if mm.group(1) == "CREATE" else "drop ") + hx(mm.group(2)))
            else:
                out.append(f"sql {k} {hx(text)}")
        elif e["ev"] in ("eof", "die"):
            # `die`: the engine ended the session itself; a later `eof` of the same process is not logged
            out.append(f"eof {k}")
    if not inserted:
        out.append("cancel")
    return out


def climon_case(jobs, keep, exit_code, cancel_cause, files, kinds, tags, ju, evs):
    cases = ju["cases"] if ju else []
    byname = {}
    for (n, st) in cases:
        byname.setdefault(n, []).append(st)
    refused = any(GROUND[kinds[f]] == "refuse" and TAGMAP[tags.get(f, [None])[0]] == "err" for f in files)
    s = f"climon {jobs} {1 if keep else 0} {1 if refused else 0} {hx('postgres')} {exit_code if exit_code >= 0 else 255} {1 if cancel_cause else 0} {len(cases)} {len(files)}"
    taken = {}
    for f in files:
        name = test_case_name(f)
        # files whose names differ only in the replaced characters share a test-case name: their JUnit
        # cases come in file order
        k = taken.get(name, 0)
        taken[name] = k + 1
        lst = byname.get(name, [])
        st = lst[k] if k < len(lst) else None
        s += f" {hx(f)} {GROUND[kinds[f]]} {TAGMAP[tags.get(f, [None])[0]]} {hx(name) if k < len(lst) else '-'} {st or 'none'}"
    s += f" {len(evs)} " + " ".join(evs) if evs else " 0"
    return s


# --------------------------------------------------------------------------------------- trace inclusion

def trace_events(events, mgmt_db, files):
    """engine log -> the events the driver model logs: the management session contributes only its
    CREATE / DROP requests, test-file sessions are numbered in the order they were opened.
    Returns (events, dbs): events as tuples, dbs[i] = database created for files[i] (or None)."""
    sess, out, created = {}, [], []
    for e in events:
        if e["db"] == mgmt_db:
            if e["ev"] == "sql":
                text = bytes.fromhex(e["args"][1]).decode("utf-8", "replace")
                mm = re.match(r"(CREATE|DROP) DATABASE (.*);$", text)
                if mm:
                    out.append(("create" if mm.group(1) == "CREATE" else "drop", mm.group(2)))
                    if mm.group(1) == "CREATE":
                        created.append(mm.group(2))
            continue
        if e["ev"] == "connect":
            sess[e["pid"]] = len(sess)
            out.append(("connect", sess[e["pid"]], e["db"]))
        elif e["pid"] in sess:
            k = sess[e["pid"]]
            if e["ev"] == "sql":
                out.append(("sql", k, e["db"], bytes.fromhex(e["args"][1]).decode("utf-8", "replace")))
            elif e["ev"] in ("eof", "die"):
                out.append(("eof", k, e["db"]))
    dbs = []
    for f in files:
        # a file's database is named <test case name>_<8 characters>
        name = test_case_name(f)
        mine = [d for d in created if d.startswith(name + "_") and len(d) == len(name) + 9]
        dbs.append(mine[0] if len(mine) == 1 else None)
    return out, dbs


def find_labels(jobs, keep, ff, dbs, res, refused_f, evs, sig, cap=300000, late_signal=False):
    """untrusted search for a label sequence of the driver model (Cli.lean, `dstep`) whose log is `evs`
    and whose results are `res`; None if there is none (or the search gave up: second component)"""
    n = len(dbs)
    file_of = {d: i for i, d in enumerate(dbs) if d is not None}
    ncreate = 0
    while ncreate < len(evs) and evs[ncreate][0] == "create":
        ncreate += 1
    first_drop = next((j for j, e in enumerate(evs) if e[0] == "drop"), len(evs))
    if first_drop < ncreate:
        return None, False
    run = evs[ncreate:first_drop]
    R = []
    for e in run:
        if e[0] in ("create", "drop") or e[2] not in file_of:
            return None, False
        R.append((e[0], e[1], file_of[e[2]]) + tuple(e[3:]))
    if any(e[0] != "drop" for e in evs[first_drop:]):
        return None, False
    last = [-1] * n
    for j, e in enumerate(R):
        last[e[2]] = j
    nconn_before = [0]
    for e in R:
        nconn_before.append(nconn_before[-1] + (1 if e[0] == "connect" else 0))
    dead = set()
    steps = [0]
    sys.setrecursionlimit(max(sys.getrecursionlimit(), 20000))

    def go(pos, nxt, infl, cancelled):
        # infl: tuple of (file, frozenset of open sessions), in start order
        if pos == len(R) and nxt == n and not infl:
            # a signal that arrives when every file is through still fails the run (exit status)
            return ["signal"] if (late_signal and sig and not cancelled) else []
        key = (pos, nxt, infl, cancelled)
        if key in dead:
            return None
        steps[0] += 1
        if steps[0] > cap:
            return None
        d = dict(infl)
        moves = []
        if pos < len(R):
            e = R[pos]
            kind, k, i = e[0], e[1], e[2]
            if i in d:
                if kind == "connect" and not cancelled and k == nconn_before[pos]:
                    moves.append((f"open {i}", pos + 1, nxt, tuple((f, (ss | {k}) if f == i else ss) for f, ss in infl), cancelled))
                elif kind == "sql" and not cancelled and k in d[i]:
                    moves.append((f"sql {i} {k} {hx(e[3])}", pos + 1, nxt, infl, cancelled))
                elif kind == "eof" and k in d[i]:
                    moves.append((f"close {i} {k}", pos + 1, nxt, tuple((f, (ss - {k}) if f == i else ss) for f, ss in infl), cancelled))
        fin = []
        for f, ss in infl:
            if ss or last[f] >= pos or res[f] not in ("ok", "err", "cancelled", "skipped"):
                continue
            if res[f] == "cancelled" and not cancelled:
                continue
            # a file in flight that finds the flag set when it first looks is skipped: it never opened a
            # session, and it waits until no file in flight has an open session
            if res[f] == "skipped" and (not cancelled or last[f] >= 0 or any(x for _, x in infl)):
                continue
            sets_cancel = res[f] == "err" and (ff or refused_f[f])
            rank = 0 if res[f] == "ok" else (1 if not sets_cancel else (2 if not cancelled else 1))
            fin.append((rank, f, sets_cancel))
        for rank, f, sets_cancel in sorted(fin):
            moves.append((f"finish {f} {res[f]} {1 if refused_f[f] else 0}", pos, nxt,
                          tuple(p for p in infl if p[0] != f), cancelled or sets_cancel))
        if nxt < n:
            if cancelled:
                if not infl and res[nxt] == "skipped":
                    moves.append(("start", pos, nxt + 1, infl, cancelled))
            elif len(infl) < jobs:
                moves.append(("start", pos, nxt + 1, infl + ((nxt, frozenset()),), cancelled))
        if sig and not cancelled:
            moves.append(("signal", pos, nxt, infl, True))
        for lab, p2, n2, i2, c2 in moves:
            rest = go(p2, n2, i2, c2)
            if rest is not None:
                return [lab] + rest
        dead.add(key)
        return None

    body = go(0, 0, (), False)
    if body is None:
        return None, steps[0] > cap
    refused = any(refused_f[i] and res[i] == "err" for i in range(n))
    ndrop = 0 if refused else sum(1 for i in range(n) if not (keep and res[i] == "err"))
    return ["create"] * ncreate + ["beginRun"] + body + ["beginDrop"] + ["drop"] * ndrop + ["done"], False


def clitrace_case(jobs, keep, ff, files, kinds, tags, r):
    """case line of op `clitrace` for one parallel run of the real CLI (None: not applicable)"""
    evs, dbs = trace_events(r.events, "postgres", files)
    # the CLI keeps the files in a map keyed by database name: that is the order in which databases
    # are created, files are started and databases are dropped
    order = sorted(range(len(files)), key=lambda i: (dbs[i] is None, dbs[i] or "", i))
    files = [files[i] for i in order]
    dbs = [dbs[i] for i in order]
    res = [TAGMAP[tags.get(f, [None])[0]] for f in files]
    refused_f = [GROUND[kinds[f]] == "refuse" and res[i] == "err" for i, f in enumerate(files)]
    sig = any(e["ev"] == "sigint" for e in r.events)
    labels, gave_up = (None, False)
    if all(d is not None for d in dbs) and "none" not in res:
        # exit status 0 after a signal: the signal came too late to count (the witness has no signal
        # label then, and the model's exit decision must agree); otherwise a signal that no result
        # shows is placed after the last file
        labels, gave_up = find_labels(jobs, keep, ff, dbs, res, refused_f, evs, sig, late_signal=(r.exit != 0))
    if gave_up:
        return None
    def ev_tok(e):
        if e[0] in ("create", "drop"):
            return f"{e[0]} {hx(e[1])}"
        if e[0] == "connect":
            return f"connect {e[1]} {hx(e[2])}"
        if e[0] == "sql":
            return f"sql {e[1]} {hx(e[3])}"
        return f"eof {e[1]}"
    s = f"clitrace {jobs} {1 if keep else 0} {1 if ff else 0} {hx('postgres')} {len(files)}"
    s += "".join(f" {hx(f)} {hx(d if d is not None else '?')}" for f, d in zip(files, dbs))
    labels = labels or []
    s += f" {len(labels)}" + "".join(" " + l for l in labels)
    s += f" {len(evs)}" + "".join(" " + ev_tok(e) for e in evs)
    s += f" {len(res)}" + "".join(" " + t for t in res)
    s += f" {1 if r.exit == 0 else 0}"
    return s


TRACE = os.environ.get("SLT_TRACE", "1") == "1"


def add_trace(out, jobs, keep, ff, files, kinds, tags, r, tag):
    """trace inclusion of a parallel run in the driver transition system (model side verifies the witness)"""
    if not TRACE or not jobs or r.timeout:
        return
    c = clitrace_case(jobs, keep, ff, files, kinds, tags, r)
    if c is not None:
        out.add(c, "accept", tag + " [trace inclusion in the driver LTS]", None)


def cli_run_set(cwd, files, kinds, jobs, fail_fast, keep, rnd, sigint_at=0, latency=0, slack_ms=250):
    args = ["--junit", "out"]
    if jobs:
        args += ["-j", str(jobs)]
    env = {}
    if rnd.random() < 0.3:
        # a variable of the process environment that is spelled like the runner's own: the runner's wins
        env["__DATABASE__"] = "from_the_environment"
    # either spelling of the two switches: the flag or its environment variable
    if fail_fast:
        if rnd.random() < 0.6:
            args.append("--fail-fast")
        else:
            env["SLT_FAIL_FAST"] = "true"
    if keep:
        if rnd.random() < 0.6:
            args.append("--keep-db-on-failure")
        else:
            env["SLT_KEEP_DB_ON_FAILURE"] = "true"
    args.append("t/*.slt")
    if sigint_at:
        env["FAKE_SIGINT_AT"] = str(sigint_at)
    if latency:
        env["FAKE_LATENCY_MS"] = str(latency)
    jpath = os.path.join(cwd, "out-junit.xml")
    if os.path.exists(jpath):
        os.remove(jpath)
    r = run_cli(cwd, args, env, timeout=25)
    if r.timeout:
        # seen once in a thorough tier while three release builds and the removal of their output ran on
        # the same disk: a run stalled for 25 s at an ordinary request and could not be reproduced in 40
        # tries.  A run that does not come back is therefore repeated once; only a second time-out counts
        # (a hang that the code under test causes deterministically shows both times).
        if os.path.exists(jpath):
            os.remove(jpath)
        r = run_cli(cwd, args, env, timeout=25)
        r.retried = True
    elif r.exit < 0:
        # the CLI itself was killed by a signal.  Seen once (final quick run of this session, machine
        # saturated by a thorough run and a mutation sweep in the background): SIGINT sent at the very first
        # request, the process died without any output.  Suspected cause: the Ctrl-C handler is installed by a
        # spawned task (main.rs 331-342), so there is a window at start-up in which the signal still has its
        # default effect; 390 attempts to reproduce it (one CPU, and 64 busy loops) all behaved.  Not shown
        # against the real code, hence not a finding: the run is repeated once, and a CLI that dies both times
        # is reported.
        if os.path.exists(jpath):
            os.remove(jpath)
        r = run_cli(cwd, args, env, timeout=25)
        r.retried = True
    tags = statuses(r.stdout, files)
    ju = junit(jpath)
    cancel_at = None
    sig = [e for e in r.events if e["ev"] == "sigint"]
    if sig:
        cancel_at = sig[0]["t"] + slack_ms * 1_000_000
    evs = canon_events(r.events, "postgres", cancel_at)
    cause = bool(sig) or (fail_fast and any(GROUND[kinds[f]] != "pass" for f in files)) or \
        any(GROUND[kinds[f]] == "refuse" for f in files)
    oracle = None
    if r.timeout:
        oracle = "the CLI did not exit within 25 s"
    # no interleaving: every file's block is contiguous (one header per file)
    for f in files:
        if len(tags.get(f, [])) > 1:
            oracle = f"file {f} has {len(tags[f])} status blocks on stdout"
    return r, tags, ju, evs, cause, oracle


def write_set(cwd, n, rnd, kinds_pool, shadows=False):
    os.makedirs(os.path.join(cwd, "t"), exist_ok=True)
    files, kinds = [], {}
    # sometimes what distinguishes the files comes after a long common prefix
    stem = ("p" * 64) if rnd.random() < 0.25 else "f"
    for i in range(n):
        f = f"t/{stem}{i:02d}{rnd.choice(['', '-x', '.y', '_z'])}.slt"
        k = rnd.choice(kinds_pool)
        open(os.path.join(cwd, f), "w").write(file_text(f, k, rnd, linger=shadows and k == "pass" and rnd.random() < 0.08))
        files.append(f)
        kinds[f] = k
        if shadows and rnd.random() < 0.35:
            # a second file whose test-case name has the first one's as a proper prefix
            # (t/f03.slt -> t_f03_slt, t/f03.slt-2.slt -> t_f03_slt_2_slt), with its own outcome
            g = f + rnd.choice(["-2.slt", ".bak.slt", "_.slt"])
            k2 = rnd.choice(kinds_pool) if rnd.random() < 0.4 else "pass"
            open(os.path.join(cwd, g), "w").write(file_text(g, k2, rnd))
            files.append(g)
            kinds[g] = k2
    files.sort()   # glob order
    return files, kinds


def profile_cli16(rnd, n, thorough, out):
    for si in range(n):
        cwd = fresh_dir(f"c16_{si}")
        nfiles = rnd.randint(1, 12)
        pool = rnd.choice([["pass"], ["pass", "pass", "pass", "fail"], ["pass", "fail", "mismatch", "parse", "die", "diepass"],
                           ["pass", "pass", "refuse"], ["pass", "pass", "pass", "pass", "parse"]])
        files, kinds = write_set(cwd, nfiles, rnd, pool)
        for mode in (["serial", "par"] if not thorough else ["serial", "par", "par"]):
            jobs = 0 if mode == "serial" else rnd.randint(1, 8)
            ff = rnd.random() < 0.4
            lat = rnd.choice([0, 0, 5, 20])
            # keeping the databases of failed files must not change what is reported
            keep = mode == "par" and rnd.random() < 0.5
            r, tags, ju, evs, cause, oracle = cli_run_set(cwd, files, kinds, jobs, ff, keep, rnd, latency=lat)
            tag = f"cli16 set={si} mode={mode} jobs={jobs} failfast={ff} keep={keep} kinds={[kinds[f] for f in files]}"
            if mode == "serial":
                # deterministic: diffed against the model's fold
                impl = f"exit={0 if r.exit == 0 else 1} " + " ".join(TAGMAP[tags.get(f, [None])[0]] for f in files)
                out.add(f"serial {1 if ff else 0} {len(files)} " + " ".join(GROUND[kinds[f]] for f in files), impl, tag, None)
            out.add(climon_case(jobs, keep, r.exit, cause, files, kinds, tags, ju, evs), "accept", tag,
                    ("C16|" + oracle) if oracle else None)
            add_trace(out, jobs, keep, ff, files, kinds, tags, r, tag)
        # two files whose paths differ only in the characters the test-case name replaces: both are
        # selected, run and reported (serial mode; parallel mode refuses such a set)
        if si % 3 == 0:
            cwd2 = fresh_dir(f"c16n_{si}")
            os.makedirs(os.path.join(cwd2, "t"), exist_ok=True)
            pair = ["t/load-1.slt", "t/load_1.slt", "t/other.slt"]
            kinds2 = {pair[0]: rnd.choice(["pass", "fail"]), pair[1]: rnd.choice(["pass", "fail", "mismatch"]), pair[2]: "pass"}
            for f in pair:
                open(os.path.join(cwd2, f), "w").write(file_text(f, kinds2[f], rnd, extra=False))
            files2 = sorted(pair)
            r, tags, ju, evs, cause, oracle = cli_run_set(cwd2, files2, kinds2, 0, False, False, rnd, latency=0)
            out.add(climon_case(0, False, r.exit, cause, files2, kinds2, tags, ju, evs), "accept",
                    f"cli16 set={si} serial, two files with one test-case name kinds={[kinds2[f] for f in files2]}",
                    ("C16|" + oracle) if oracle else None)
            shutil.rmtree(cwd2, ignore_errors=True)
        # a test file that cannot be read (not valid UTF-8) among passing ones: it is reported as failed
        # like a parse error, the others run and are reported, the JUnit report is written (D27: the
        # pinned tree panicked here, exit status 101, no report)
        if si % 4 == 1:
            cwd3 = fresh_dir(f"c16u_{si}")
            os.makedirs(os.path.join(cwd3, "t"), exist_ok=True)
            names = ["t/a.slt", "t/b.slt", "t/c.slt"]
            bad = rnd.choice(names)
            kinds3 = {f: ("parse" if f == bad else "pass") for f in names}
            for f in names:
                if f == bad:
                    open(os.path.join(cwd3, f), "wb").write(b"statement ok\nselect '\xff\xfe' -- F" + f.encode() + b"\n")
                else:
                    open(os.path.join(cwd3, f), "w").write(file_text(f, "pass", rnd, extra=False))
            for jobs in (0, rnd.randint(1, 4)):
                r, tags, ju, evs, cause, oracle = cli_run_set(cwd3, names, kinds3, jobs, False, False, rnd, latency=0)
                if oracle is None and r.exit == 0:
                    oracle = f"exit status 0 although {bad} could not even be read (not UTF-8)"
                tag = f"cli16 set={si} jobs={jobs} file that is not valid UTF-8: {bad} (exit {r.exit})"
                out.add(climon_case(jobs, False, r.exit, cause, names, kinds3, tags, ju, evs), "accept", tag,
                        ("C16|" + oracle) if oracle else None)
                add_trace(out, jobs, False, False, names, kinds3, tags, r, tag)
            shutil.rmtree(cwd3, ignore_errors=True)
        # several files that fail at the same moment under --fail-fast, all in flight: each of them printed
        # FAILED and is a failure in the report, whichever result the collector processed first
        if si % 2 == 0:
            cwd5 = fresh_dir(f"c16s_{si}")
            os.makedirs(os.path.join(cwd5, "t"), exist_ok=True)
            names = [f"t/s{i}.slt" for i in range(4)]
            kinds5 = {f: "fail" for f in names}
            for f in names:
                open(os.path.join(cwd5, f), "w").write(file_text(f, "fail", rnd, extra=False, n_before=0))
            r, tags, ju, evs, cause, oracle = cli_run_set(cwd5, names, kinds5, 4, True, False, rnd, latency=0)
            tag = f"cli16 set={si} jobs=4 failfast, four files failing at once"
            out.add(climon_case(4, False, r.exit, cause, names, kinds5, tags, ju, evs), "accept", tag,
                    ("C16|" + oracle) if oracle else None)
            add_trace(out, 4, False, True, names, kinds5, tags, r, tag)
            shutil.rmtree(cwd5, ignore_errors=True)
        # a selected file that has vanished when its turn comes (removed by a `system` record of an earlier
        # file): it is reported as failed, and the exit status is not 0
        if si % 4 == 2:
            cwd4 = fresh_dir(f"c16v_{si}")
            os.makedirs(os.path.join(cwd4, "t"), exist_ok=True)
            names = ["t/a.slt", "t/b.slt", "t/c.slt"]
            kinds4 = {"t/a.slt": "pass", "t/b.slt": "parse", "t/c.slt": "pass"}
            open(os.path.join(cwd4, "t/a.slt"), "w").write(
                file_text("t/a.slt", "pass", rnd, extra=False) + "\nsystem ok\nrm -f t/b.slt\n")
            open(os.path.join(cwd4, "t/b.slt"), "w").write(file_text("t/b.slt", "pass", rnd, extra=False))
            open(os.path.join(cwd4, "t/c.slt"), "w").write(file_text("t/c.slt", "pass", rnd, extra=False))
            for jobs in (0, 1):
                if not os.path.exists(os.path.join(cwd4, "t/b.slt")):
                    open(os.path.join(cwd4, "t/b.slt"), "w").write(file_text("t/b.slt", "pass", rnd, extra=False))
                r, tags, ju, evs, cause, oracle = cli_run_set(cwd4, names, kinds4, jobs, False, False, rnd, latency=0)
                if oracle is None and r.exit == 0:
                    oracle = "exit status 0 although t/b.slt had vanished when its turn came"
                tag = f"cli16 set={si} jobs={jobs} a selected file is removed by an earlier file (exit {r.exit})"
                out.add(climon_case(jobs, False, r.exit, cause, names, kinds4, tags, ju, evs), "accept", tag,
                        ("C16|" + oracle) if oracle else None)
                add_trace(out, jobs, False, False, names, kinds4, tags, r, tag)
            shutil.rmtree(cwd4, ignore_errors=True)
        # a cancelled file makes the exit status non-zero: Ctrl-C while the LAST file is running
        if all(kinds[f] == "pass" for f in files):
            r0 = cli_run_set(cwd, files, kinds, 0, False, False, rnd, latency=0)[0]
            nreq = len([e for e in r0.events if e["ev"] == "sql"])
            if nreq:
                r, tags, ju, evs, cause, oracle = cli_run_set(cwd, files, kinds, 0, False, False, rnd, sigint_at=nreq, latency=150)
                out.add(climon_case(0, False, r.exit, True, files, kinds, tags, ju, evs), "accept",
                        f"cli16 set={si} serial sigint during the last file", ("C16|" + oracle) if oracle else None)
        shutil.rmtree(cwd, ignore_errors=True)


def profile_cli17(rnd, n, thorough, out):
    for si in range(n):
        cwd = fresh_dir(f"c17_{si}")
        nfiles = rnd.randint(1, 10)
        pool = rnd.choice([["pass"], ["pass", "pass", "fail"], ["pass", "fail", "die", "parse", "diepass"]])
        files, kinds = write_set(cwd, nfiles, rnd, pool, shadows=True)
        if si % 3 == 2 and len(files) >= 2:
            # the server refuses to create the database of one file that is not the first (the CLI logs
            # the error and goes on): every database it did create is still dropped at the end
            g = "t/m_nocreate.slt"
            open(os.path.join(cwd, g), "w").write(file_text(g, "pass", rnd, extra=False))
            files.append(g)
            kinds[g] = "pass"
            files.sort()
        if si == 1:
            # one session that needs longer to close than any plausible grace period
            g = files[0]
            open(os.path.join(cwd, g), "w").write(f"statement ok\nlinger 6500 x -- F{g}\n\n" + file_text(g, "pass", rnd, extra=False))
            kinds[g] = "pass"
        if si % 5 == 3:
            # the report cannot be written (no such directory): the run fails at the very end, after every
            # database it created has been dropped (judged by the event-log monitor alone)
            jobs = rnd.randint(1, 4)
            r = run_cli(cwd, ["-j", str(jobs), "--junit", "no-such-dir/out", "t/*.slt"], {"FAKE_LATENCY_MS": "3"}, timeout=25)
            tags = statuses(r.stdout, files)
            evs = canon_events(r.events, "postgres", None)
            line = f"libmon {jobs} {hx('postgres')} {len(files)}" + "".join(
                f" {hx(f)} {0}" for f in files) + f" {len(evs)} " + " ".join(evs)
            out.add(line, "accept", f"cli17 set={si} jobs={jobs} the JUnit report cannot be written (exit {r.exit})", None)
        for ri in range(2 if not thorough else 4):
            # every job count 1..8 is visited in turn (jobs = 1 is a parallel run like any other)
            jobs = 1 + (2 * si + ri) % 8 if ri < 2 else rnd.randint(1, 8)
            keep = rnd.random() < 0.5
            lat = rnd.choice([0, 3, 10, 30])
            # under fail-fast the files in flight at the first failure are cancelled: their sessions are
            # closed and their databases dropped all the same
            ff = rnd.random() < 0.35
            r, tags, ju, evs, cause, oracle = cli_run_set(cwd, files, kinds, jobs, ff, keep, rnd, latency=lat)
            tag = f"cli17 set={si} jobs={jobs} keep={keep} failfast={ff} latency={lat} kinds={[kinds[f] for f in files]}"
            out.add(climon_case(jobs, keep, r.exit, cause, files, kinds, tags, ju, evs), "accept", tag,
                    ("C17|" + oracle) if oracle else None)
            add_trace(out, jobs, keep, ff, files, kinds, tags, r, tag)
        shutil.rmtree(cwd, ignore_errors=True)


def traffic_files(r, files):
    """files whose SQL (marker ` -- F<path>`) reached some engine process"""
    seen = set()
    for e in r.events:
        if e["ev"] == "sql":
            text = bytes.fromhex(e["args"][1]).decode("utf-8", "replace")
            for f in files:
                if text.endswith(" -- F" + f):
                    seen.add(f)
    return seen


def profile_cli19(rnd, n, thorough, out):
    # exactly 256 (and 512) files that do not pass: the exit status is still not 0 (a status derived from a
    # count would wrap around)
    for nf, ff in ((256, True), (256, False), (512, True)):
        cwd = fresh_dir(f"c19w_{nf}")
        os.makedirs(os.path.join(cwd, "t"), exist_ok=True)
        files = sorted(f"t/g{i:03d}.slt" for i in range(nf))
        kinds = {f: ("fail" if (i == 0 or not ff) else "pass") for i, f in enumerate(files)}
        for f in files:
            open(os.path.join(cwd, f), "w").write(file_text(f, kinds[f], rnd, extra=False, n_before=0))
        r, tags, ju, evs, cause, oracle = cli_run_set(cwd, files, kinds, 0, ff, False, rnd, latency=0)
        if oracle is None and r.exit == 0:
            oracle = f"exit status 0 although {nf} files did not pass"
        out.add(climon_case(0, False, r.exit, True, files, kinds, tags, ju, evs), "accept",
                f"cli19 serial failfast={ff} over {nf} files, none of which passes", ("C19|" + oracle) if oracle else None)
        shutil.rmtree(cwd, ignore_errors=True)
    for si in range(n):
        cwd = fresh_dir(f"c19_{si}")
        jobs = [0, 3, 2, 0, 3][si % 5]
        nfiles = rnd.randint(3, 5) if jobs == 0 else rnd.randint(5, 6)
        os.makedirs(os.path.join(cwd, "t"), exist_ok=True)
        files = sorted(f"t/f{i:02d}.slt" for i in range(nfiles))
        kinds = {f: "pass" for f in files}
        for f in files:
            open(os.path.join(cwd, f), "w").write(file_text(f, "pass", rnd, extra=False, n_before=rnd.randint(1, 2)))
        lat = 150
        # ---- Ctrl-C when the engine receives its k-th request, for every k of the uninterrupted run
        r0, _, _, _, _, _ = cli_run_set(cwd, files, kinds, jobs, False, False, rnd, latency=0)
        reqs = [e for e in r0.events if e["ev"] == "sql" and not re.match(r"(CREATE|DROP) DATABASE",
                bytes.fromhex(e["args"][1]).decode("utf-8", "replace"))]
        nreq = len([e for e in r0.events if e["ev"] == "sql"])
        ks = list(range(1, nreq + 1))
        if not thorough and len(ks) > 5:
            ks = sorted(rnd.sample(ks, 5))
        for k in ks:
            # (keeping the databases of FAILED files does not extend to cancelled or skipped ones)
            keep = jobs > 0 and rnd.random() < 0.4
            r, tags, ju, evs, cause, oracle = cli_run_set(cwd, files, kinds, jobs, False, keep, rnd, sigint_at=k, latency=lat)
            tag = f"cli19 set={si} jobs={jobs} keep={keep} sigint_at={k}/{nreq}"
            sig = any(e["ev"] == "sigint" for e in r.events)
            owner = None
            # (k = nreq is the very last request of the run, the final DROP DATABASE or the last record:
            # once its reply is in the run is over, and whether the signal is noticed before the exit
            # status is computed is a race the property cannot mean — seen once in 1405 thorough runs)
            if oracle is None and sig and r.exit == 0 and k < nreq:
                oracle = "exit status 0 although the run was interrupted by Ctrl-C"
            if oracle is None and ju is None:
                oracle = "no JUnit report was written after Ctrl-C"
            if oracle is None and sig and jobs == 0:
                # serial: the file in flight is the owner of the k-th request; everything after it
                # must be reported skipped and must not reach the engine at all
                kth = [e for e in r.events if e["ev"] == "sql" and e["args"][0] == str(k)]
                owner = None
                if kth:
                    text = bytes.fromhex(kth[0]["args"][1]).decode("utf-8", "replace")
                    owner = next((f for f in files if text.endswith(" -- F" + f)), None)
                if owner is not None:
                    later = files[files.index(owner) + 1:]
                    tr = traffic_files(r, files)
                    bad = [f for f in later if f in tr or TAGMAP[tags.get(f, [None])[0]] != "skipped"]
                    if bad:
                        oracle = f"after Ctrl-C during {owner} these later files were not skipped without traffic: {bad}"
                    t_owner = TAGMAP[tags.get(owner, [None])[0]]
                    if oracle is None and t_owner not in ("cancelled", "ok"):
                        oracle = f"the file in flight at Ctrl-C ({owner}) is reported {t_owner}"
            out.add(climon_case(jobs, keep, r.exit, True, files, kinds, tags, ju, evs), "accept", tag,
                    ("C19|" + oracle) if oracle else None)
            add_trace(out, jobs, keep, False, files, kinds, tags, r, tag)
            if sig and jobs == 0 and not r.timeout and owner is not None and k < nreq:
                # serial: the whole result list and the exit status against the model's fold, with the
                # signal taking effect during the owner of the k-th request (it is reported cancelled) or
                # right after it (it finished with its own result before the flag was seen)
                oi = files.index(owner)
                t_owner = TAGMAP[tags.get(owner, [None])[0]]
                during = t_owner == "cancelled"
                impl = f"exit={0 if r.exit == 0 else 1} " + " ".join(TAGMAP[tags.get(f, [None])[0]] for f in files)
                out.add(f"serialsig 0 {len(files)} " + " ".join(GROUND[kinds[f]] for f in files) +
                        f" {oi if during else oi + 1} {1 if during else 0}", impl,
                        tag + f" [serial fold, signal {'during' if during else 'after'} file {oi}]", None)
        # ---- Ctrl-C while the engine is about to write a reply larger than a pipe buffer (D28: the pinned
        # tree closed the engine's input and waited for it without reading its output any more: the
        # engine blocked in write(), the CLI hung)
        for f in files:
            m = f" -- F{f}"
            open(os.path.join(cwd, f), "w").write(
                f"statement ok\norphan 45 x{m}\n\nquery T\nbig {rnd.choice([70000, 200000])} x{m}\n----\nx\n\nstatement ok\nins 2{m}\n")
        kindsb = {f: "fail" for f in files}     # (run to completion each file fails: the value is not `x`)
        r, tags, ju, evs, cause, oracle = cli_run_set(cwd, files, kindsb, jobs, False, False, rnd, sigint_at=2, latency=0)
        sig = [e for e in r.events if e["ev"] == "sigint"]
        if oracle is None and sig and r.exit == 0:
            oracle = "exit status 0 although the run was interrupted by Ctrl-C"
        out.add(climon_case(jobs, False, r.exit, True, files, kindsb, tags, ju, evs), "accept",
                f"cli19 set={si} jobs={jobs} sigint while a reply larger than the pipe buffer is pending",
                ("C19|" + oracle) if oracle else None)
        add_trace(out, jobs, False, False, files, kindsb, tags, r, f"cli19 set={si} jobs={jobs} sigint, large reply pending")
        # ---- Ctrl-C while a file waits in a `sleep` record (or a retry back-off): the wait is cut short,
        # nothing more is sent for the file, the CLI exits promptly
        for f in files:
            m = f" -- F{f}"
            open(os.path.join(cwd, f), "w").write(
                f"statement ok\nins 1{m}\n\nsleep 1500ms\n\nstatement ok\nins 2{m}\n\n"
                f"statement ok retry 2 backoff 1500ms\nfail{m}\n")
        kinds3 = {f: "fail" for f in files}     # (run to completion, each of these files fails in the end)
        for k in ([1] if jobs == 0 else [len(files) + 1, len(files) + 2]):
            t0 = time.time()
            r, tags, ju, evs, cause, oracle = cli_run_set(cwd, files, kinds3, jobs, False, False, rnd, sigint_at=k, latency=0)
            took = time.time() - t0
            sig = [e for e in r.events if e["ev"] == "sigint"]
            if oracle is None and sig:
                late = [bytes.fromhex(e["args"][1]).decode("utf-8", "replace") for e in r.events
                        if e["ev"] == "sql" and e["t"] > sig[0]["t"] + 1_000_000_000
                        and not re.match(r"(CREATE|DROP) DATABASE", bytes.fromhex(e["args"][1]).decode("utf-8", "replace"))]
                if late:
                    oracle = f"SQL of a test file was still sent more than 1 s after Ctrl-C (during a wait): {late[:3]}"
                elif r.exit == 0:
                    oracle = "exit status 0 although the run was interrupted by Ctrl-C"
            out.add(climon_case(jobs, False, r.exit, True, files, kinds3, tags, ju, evs), "accept",
                    f"cli19 set={si} jobs={jobs} sigint_at={k} during a sleep / back-off (took {took:.1f} s)",
                    ("C19|" + oracle) if oracle else None)
            add_trace(out, jobs, False, False, files, kinds3, tags, r, f"cli19 set={si} jobs={jobs} sigint_at={k} during a sleep / back-off")
        # ---- fail-fast: the failing file fails on its first request while the others are still busy
        positions = range(nfiles) if jobs == 0 else range(min(jobs, nfiles))
        for pos in positions:
            kinds2 = {f: ((("die" if (si + pos) % 3 == 1 else "fail")) if i == pos else "pass") for i, f in enumerate(files)}
            for i, f in enumerate(files):
                open(os.path.join(cwd, f), "w").write(
                    # the other files run for different times (180, 240, 300 ms), all much longer than
                    # the failing one (60 ms)
                    file_text(f, kinds2[f], rnd, extra=False, n_before=(0 if i == pos else 2 + i % 3)))
            r, tags, ju, evs, cause, oracle = cli_run_set(cwd, files, kinds2, jobs, True, False, rnd, latency=(60 if jobs else 0))
            tag = f"cli19 set={si} jobs={jobs} failfast first-failure-at={pos}"
            if oracle is None and r.exit == 0:
                oracle = "exit status 0 although a file failed"
            if oracle is None and ju is None:
                oracle = "no JUnit report was written"
            if oracle is None:
                # deterministic: serial -> every later file; parallel -> every file not among the first `jobs`
                must_skip = files[pos + 1:] if jobs == 0 else files[jobs:]
                tr = traffic_files(r, files)
                bad = [f for f in must_skip if f in tr or TAGMAP[tags.get(f, [None])[0]] != "skipped"]
                if bad:
                    oracle = f"under --fail-fast these files were started after the first failure: {bad}"
            out.add(climon_case(jobs, False, r.exit, True, files, kinds2, tags, ju, evs), "accept", tag,
                    ("C19|" + oracle) if oracle else None)
            add_trace(out, jobs, False, True, files, kinds2, tags, r, tag)
            # one Ctrl-C while the run that fail-fast already stopped is cleaning up (first DROP request):
            # the clean-up still completes and the report is still written
            drops = [e["args"][0] for e in r.events if e["ev"] == "sql" and
                     bytes.fromhex(e["args"][1]).decode("utf-8", "replace").startswith("DROP DATABASE")]
            if jobs and drops and pos == 0:
                r, tags, ju, evs, cause, oracle = cli_run_set(cwd, files, kinds2, jobs, True, False, rnd,
                                                              sigint_at=int(drops[0]), latency=60)
                if oracle is None and ju is None:
                    oracle = "no JUnit report was written (fail-fast stop, then one Ctrl-C during the clean-up)"
                out.add(climon_case(jobs, False, r.exit, True, files, kinds2, tags, ju, evs), "accept",
                        f"cli19 set={si} jobs={jobs} failfast, then Ctrl-C at the first DROP request", ("C19|" + oracle) if oracle else None)
                add_trace(out, jobs, False, True, files, kinds2, tags, r, f"cli19 set={si} jobs={jobs} failfast, then Ctrl-C at the first DROP request")
        shutil.rmtree(cwd, ignore_errors=True)


# --------------------------------------------------------------------------------------- CLI --format / --override

def engine_answer(sql):
    """what fake_engine answers, as a mock-DB answer token list (external driver: rows without types,
    errors as `sql failed <text>`)"""
    core = sql.split(" -- F")[0]
    if core.startswith("select "):
        row = [v.strip() for v in core[len("select "):].split(",")]
        return "rows x 1 " + str(len(row)) + "".join(" " + hx(v) for v in row)
    if core.startswith("rows "):
        n = int(core[5:].strip() or 0)
        return f"rows x {n}" + "".join(f" 1 {hx('r' + str(i))}" for i in range(n))
    if core.startswith("desc "):
        n = int((core[5:].split() or ["0"])[0])
        return f"rows x {n}" + "".join(f" 1 {hx('r' + str(i))}" for i in reversed(range(n)))
    if core.startswith("die"):
        return "error " + hx("io failed")
    if core.startswith("blankrow"):
        return f"rows x 2 1 {hx('v')} 1 {hx(' ')}"
    if core.startswith("fail"):
        return "error " + hx("sql failed boom")
    if core.startswith("err "):
        return "error " + hx("sql failed " + core[4:])
    return "rows x 0"


def engine_answers(sql):
    """the sequence of answers to successive requests with this text (the last one repeats)"""
    core = sql.split(" -- F")[0]
    if core.startswith("flaky "):
        t = core.split()
        k = int(t[1])
        text = "Connection refused" if t[2] == "refuse" else "boom"
        return ["error " + hx("sql failed " + text)] * k + ["rows x 0"]
    return [engine_answer(sql)]


def enc_answers(q):
    a = engine_answers(q)
    return f"{hx(q)} {len(a)} " + " ".join(a)


UPD_RECORDS = [
    ("statement ok", "ins {n}", ""),
    ("statement ok", "fail {n}", ""),
    ("statement count 3", "rows {c}", ""),
    ("statement error", "fail {n}", ""),
    ("statement error", "ins {n}", ""),
    ("statement error", "err line1 {n}", "----\nsql failed line1 {n}\n\n"),
    ("statement error", "err other {n}", "----\nsomething else\n\n"),
    ("query T", "select {n}", "----\n{n}\n"),
    ("query T", "select {n}", "----\n{m}\n"),
    ("query TT rowsort", "rows {c}", "----\nwrong\n"),
    ("query T valuesort lbl", "select {n}, {m}", "----\n{n} {m}\n"),
    ("query error", "fail {n}", ""),
    ("query error", "select {n}", ""),
    ("query T retry 2 backoff 0s", "select {n}", "----\nnope\n"),
    ("statement ok retry 2 backoff 0s", "fail {n}", ""),
    # the database's order is not the sorted one: a sort mode / threshold in force shows
    ("query T", "desc 3 {n}", "----\nr2\nr1\nr0\n"),
    ("query T", "desc 3 {n}", "----\nr0\nr1\nr2\n"),
    ("query T nosort", "desc 4 {n}", "----\nr3\nr2\nr1\nr0\n"),
    # answers that change from one attempt to the next: the first k requests with this text fail (the
    # engine counts per text), so the number of attempts and the final verdict depend on the retry loop
    ("statement ok retry 3 backoff 0s", "flaky 1 refuse {n}", ""),
    ("statement ok retry 3 backoff 1ms", "flaky 2 boom {n}", ""),
    ("statement ok retry 2 backoff 0s", "flaky 2 boom {n}", ""),
    ("statement ok", "flaky 1 boom {n}", ""),
    # a long statement with multi-byte characters throughout (whatever abbreviates it must cut at a
    # character boundary)
    # (a pad of 0..8 ASCII letters moves the character boundaries)
    ("statement ok retry 2 backoff 0s", "flaky 1 boom {pad}" + "\u4e2d\u6587\u00e9x" * 200 + " {n}", ""),
    ("statement ok retry 3 backoff 0s", "flaky 2 boom {pad}" + "\u00e9\u4e2d" * 300 + " {n}", ""),
    # result blocks whose LAST line consists of white space only (a blank value): when such a record ends
    # a file, the trailing-newline clean-up must not take that line for padding
    ("query T", "blankrow {n}", "----\nv\n \n"),
    ("query T", "select {n}", "----\n{n}\n \t\n"),
    ("query T", "blankrow {n}", "----\nwrong\n"),
]

# records whose SQL changes under `control substitution on` (escapes only: no variables)
SUBST_RECORDS = [
    ("statement ok", "ins db $__DATABASE__ {n}", ""),
    ("statement ok", "ins back\\\\slash {n}", ""),
    ("query T", "select a\\\\b {n}", "----\na\\\\b {n}\n"),
]


def gen_cli_tree(rnd, multi=0):
    """root.slt + included files (same stem, different extension; nested); SQL texts are engine
    directives and unique per record.  `multi` > 0: that many further root files (no includes) whose
    first records set runner state (sort mode, threshold, substitution), plus records that are
    sensitive to such state; returned as a third component"""
    ctr = [0]
    sqls = []
    pool = UPD_RECORDS + (SUBST_RECORDS * 2 if multi else [])

    def records(k):
        out = ""
        for _ in range(k):
            c = rnd.randint(0, 13)
            if c == 0:
                out += "# comment  \n"
            elif c == 1:
                out += "\n"
            elif c == 2:
                out += "halt\n\n"
            elif c == 3:
                out += rnd.choice(["control sortmode rowsort\n\n", "hash-threshold 2\n\n", "onlyif external\n", "skipif external\n",
                                   "connection c1\n", "sleep 1ms\n\n", "subtest s\n\n"] +
                                  (["onlyif L1\n", "skipif L1\n", "onlyif L2\n", "skipif L2\nonlyif L1\n", "onlyif x,y\n", "skipif x\n", "skipif x,y\n"] if multi else []))
            else:
                hdr, sql, block = rnd.choice(pool)
                ctr[0] += 1
                n, m, cnt = ctr[0] * 10 + 1, ctr[0] * 10 + 2, rnd.randint(0, 4)
                pad = "a" * rnd.randint(0, 8)
                q = sql.format(n=n, m=m, c=cnt, pad=pad) + f" #{ctr[0]}" if not sql.startswith("rows") else sql.format(n=n, m=m, c=cnt)
                if q.startswith("rows"):
                    q = q  # `rows <c>`: may repeat; the answer depends on the text only
                sqls.append(q)
                out += f"{hdr}\n{q}\n{block.format(n=n, m=m)}\n"
        return out

    files = []
    names = rnd.choice([[], ["inc/a.slt"], ["inc/a.slt", "inc/a.inc"], ["inc/a.slt", "inc/b.slt"], ["root.inc"]])
    contents = {}
    for nm in reversed(names):
        body = records(rnd.randint(0, 4))
        if multi and rnd.random() < 0.4:
            # a halt inside an included file ends the whole run, not just that file
            body = records(rnd.randint(0, 2)) + "halt\n\n" + records(rnd.randint(0, 2))
        if nm == "inc/a.slt" and "inc/a.inc" in names:
            body += "include a.inc\n\n" + records(rnd.randint(0, 2))
        contents[nm] = body
    root = records(rnd.randint(0, 4))
    for nm in names:
        if nm == "inc/a.inc":
            continue
        root += f"include {nm}\n\n"
        if rnd.random() < 0.3:
            contents[nm] = contents[nm] + "control sortmode rowsort\n\n"
            ctr[0] += 1
            q = f"desc 3 {ctr[0] * 10 + 1} #{ctr[0]}"
            sqls.append(q)
            # passes only while the sort mode set inside the included file is still in force
            root += f"query T\n{q}\n----\nr0\nr1\nr2\n\n"
        root += records(rnd.randint(1 if multi else 0, 2))
    # endings: the CLI's own copy of the trailing-newline loop
    def ending(t):
        c = rnd.randint(0, 5)
        if c == 0:
            return t.rstrip("\n")
        if c == 1:
            return t + "\n" * rnd.randint(1, 20)
        return t
    if rnd.random() < 0.15:
        # the engine process dies on the very last request; the record expects exactly the error text
        # the driver reports for that
        ctr[0] += 1
        q = f"die {ctr[0] * 10 + 1} #{ctr[0]}"
        sqls.append(q)
        root += f"statement error\n{q}\n----\nio failed\n\n"
    elif rnd.random() < 0.2:
        ctr[0] += 1
        q = f"blankrow {ctr[0] * 10 + 1} #{ctr[0]}"
        sqls.append(q)
        root += f"query T\n{q}\n----\nv\n \n"
    tree = [(nm, ending(contents[nm])) for nm in names] + [("root.slt", ending(root))]
    if not multi:
        return tree, sqls
    extra = []
    for i in range(multi):
        body = ""
        for _ in range(rnd.randint(0, 2)):
            body += rnd.choice(["control sortmode rowsort\n\n", "control sortmode valuesort\n\n", "hash-threshold 2\n\n",
                                "control substitution on\n\n", "hash-threshold 3\n\n"])
        # ... directly followed by a record that is sensitive to such state
        hdr, sql, block = rnd.choice(UPD_RECORDS[-10:-7] + SUBST_RECORDS + [("query T", "rows 4", "----\nr0\nr1\nr2\nr3\n")])
        ctr[0] += 1
        q = sql.format(n=ctr[0] * 10 + 1, m=ctr[0] * 10 + 2, c=4, pad="")
        sqls.append(q)
        body += f"{hdr}\n{q}\n{block.format(n=ctr[0] * 10 + 1, m=ctr[0] * 10 + 2)}\n"
        body += records(rnd.randint(0, 3))
        if names and names[0] != "root.inc" and rnd.random() < 0.4:
            # ... and an include that another root of the same invocation has too
            body += f"include {names[0]}\n\n" + records(rnd.randint(0, 1))
        nm = f"m{i}.slt"
        tree.append((nm, ending(body)))
        extra.append(nm)
    return tree, sqls, extra


def upd_case(op, tree, sqls, k=None):
    s = f"{op} 0 {hx(chr(9))} 0 0 {len(tree)}" + "".join(f" {hx(p)} {hx(c)}" for p, c in tree) + f" {hx('root.slt')} 0 0"
    uniq = []
    for q in sqls:
        if q not in uniq:
            uniq.append(q)
    s += f" db {hx('external')} 0 {len(uniq)}" + "".join(" " + enc_answers(q) for q in uniq)
    s += " rows x 0 0 exit 0 x K " + ("-" if k is None else str(k))
    return s


def run_upd(cwd, tree, mode, kill_at=0, stale=False, via_link=False):
    if via_link:
        # the tree lives in `w/`, its root is a relative symbolic link to a file next to it, and the CLI
        # is started one directory up: what is rewritten is what the name `w/root.slt` denotes
        top = cwd
        cwd = os.path.join(cwd, "w")
        os.makedirs(cwd, exist_ok=True)
    for p, c in tree:
        os.makedirs(os.path.dirname(os.path.join(cwd, p)) or cwd, exist_ok=True)
        if via_link and p == "root.slt":
            open(os.path.join(cwd, "real_root.txt"), "w").write(c)
            if os.path.lexists(os.path.join(cwd, p)):
                os.remove(os.path.join(cwd, p))
            os.symlink("real_root.txt", os.path.join(cwd, p))
            continue
        open(os.path.join(cwd, p), "w").write(c)
        if stale:
            # what an earlier, interrupted run of a longer version of the file left behind
            open(os.path.join(cwd, p + ".temp"), "w").write("# stale line of an interrupted run\n" * 300)
    env = {"FAKE_SIGKILL_AT": str(kill_at)} if kill_at else {}
    if via_link:
        r = run_cli(top, [mode, "w/root.slt"], env, timeout=25)
    else:
        r = run_cli(cwd, [mode, "root.slt"], env, timeout=25)
    after = []
    for p, _ in tree:
        try:
            after.append(open(os.path.join(cwd, p), "rb").read().decode("utf-8", "replace"))
        except FileNotFoundError:
            after.append("")
    left = []
    for d, _, fs in os.walk(cwd):
        for f in fs:
            rel = os.path.relpath(os.path.join(d, f), cwd)
            if rel not in [p for p, _ in tree] and not rel.startswith("events.log") and rel != "real_root.txt":
                left.append(rel)
    left.sort()
    # database trace from the engine log
    sess, tr = {}, []
    for e in r.events:
        k = sess.setdefault(e["pid"], len(sess))
        if e["ev"] == "connect":
            tr.append(f"make {k} 1")
        elif e["ev"] == "sql":
            tr.append(f"run {k} x{e['args'][1]}")
    killed = any(e["ev"] == "sigkill" for e in r.events)
    if killed and tr and tr[-1].startswith("run"):
        tr.pop()          # the request that triggered the kill: the model's prefix ends before it
    status = "panic" if killed else ("ok" if "[FAILED]" not in r.stdout and r.exit == 0 else "err")
    line = f"{status} F {len(tree)}" + "".join(f" {hx(p)} {hx(c)}" for (p, _), c in zip(tree, after))
    line += f" L {len(left)}" + "".join(" " + hx(x) for x in left) + " S 0 T " + str(len(tr)) + ("".join(" " + x for x in tr))
    return r, after, left, line, killed


def profile_cliupd(rnd, n, thorough, out):
    for si in range(n):
        tree, sqls = gen_cli_tree(rnd)
        # --format (twice: idempotent)
        cwd = fresh_dir(f"upd_{si}")
        r, after, left, line, _ = run_upd(cwd, tree, "--format")
        oracle = None
        if r.timeout:
            oracle = "C08|--format did not terminate within 25 s"
        elif left:
            oracle = f"C08|debris after --format: {left}"
        else:
            for (p, old), c in zip(tree, after):
                if c and (not c.endswith("\n") or c.endswith("\n\n")):
                    oracle = f"C08|{p} does not end with exactly one newline after --format"
        if oracle is None:
            tree2 = [(p, c) for (p, _), c in zip(tree, after)]
            r2, after2, _, _, _ = run_upd(cwd, tree2, "--format")
            if after2 != after:
                oracle = "C05|a second --format changed the files again"
        out.add(upd_case("cliformat", tree, sqls), line, f"cliupd set={si} format", oracle)
        shutil.rmtree(cwd, ignore_errors=True)
        # --override
        cwd = fresh_dir(f"upd_{si}")
        r, after, left, line, _ = run_upd(cwd, tree, "--override")
        oracle = None
        if r.timeout:
            oracle = "C08|--override did not terminate within 25 s"
        elif left:
            oracle = f"C08|debris after --override: {left}"
        nreq = len([e for e in r.events if e["ev"] == "sql"])
        final = after
        if oracle is None and "[FAILED]" not in r.stdout:
            # C06 through the CLI: the overridden tree passes against the same engine and is a fixed point
            tree2 = [(p, c) for (p, _), c in zip(tree, after)]
            for p, c in tree2:
                open(os.path.join(cwd, p), "w").write(c)
            rr = run_cli(cwd, ["root.slt"], timeout=25)
            if rr.exit != 0:
                m = re.search(r"(?s)Caused by:(.{0,300})", rr.stdout)
                oracle = "C06|the overridden tree does not pass against the same engine: " + (m.group(1).strip() if m else f"exit {rr.exit}")
            else:
                r3, after3, _, _, _ = run_upd(cwd, tree2, "--override")
                if after3 != after:
                    oracle = "C06|a second --override changed the files again (not a fixed point)"
        out.add(upd_case("cliupdate", tree, sqls), line, f"cliupd set={si} override", oracle)
        shutil.rmtree(cwd, ignore_errors=True)
        # the same with the root file reached through a relative symbolic link from one directory up
        if si % 3 == 0:
            cwd = fresh_dir(f"upd_{si}")
            r, after_l, left_l, line_l, _ = run_upd(cwd, tree, "--override", via_link=True)
            oracle = None
            if r.timeout:
                oracle = "C08|--override did not terminate within 25 s"
            elif left_l:
                oracle = f"C08|debris after --override through a symbolic link: {left_l}"
            out.add(upd_case("cliupdate", tree, sqls), line_l, f"cliupd set={si} override, root reached through a relative symlink", oracle)
            shutil.rmtree(cwd, ignore_errors=True)
        # the same over stale temp files: the result must not depend on them
        cwd = fresh_dir(f"upd_{si}")
        r, after_s, left_s, line_s, _ = run_upd(cwd, tree, "--override", stale=True)
        oracle = None
        if r.timeout:
            oracle = "C08|--override did not terminate within 25 s"
        elif left_s:
            oracle = f"C08|debris after --override over stale temp files: {left_s}"
        out.add(upd_case("cliupdate", tree, sqls), line_s, f"cliupd set={si} override over stale temp files", oracle)
        shutil.rmtree(cwd, ignore_errors=True)
        # SIGKILL when the engine receives its k-th request, for every k
        ks = list(range(1, nreq + 1))
        if not thorough and len(ks) > 4:
            ks = sorted(rnd.sample(ks, 4))
        for k in ks:
            cwd = fresh_dir(f"upd_{si}")
            r, after, left, line, killed = run_upd(cwd, tree, "--override", kill_at=k)
            oracle = None
            for (p, old), c, fin in zip(tree, after, final):
                if c != old and c != fin:
                    oracle = f"C08|after SIGKILL at request {k} file {p} holds neither its old nor its new content"
            out.add(upd_case("cliupdate", tree, sqls, k - 1), line, f"cliupd set={si} override kill_at={k}/{nreq}", oracle)
            shutil.rmtree(cwd, ignore_errors=True)


def multi_case(mode, tree, roots, sqls, labels=()):
    s = f"climulti {mode} 0 {hx(chr(9))} 0 {len(labels)}" + "".join(" " + hx(l) for l in labels)
    s += f" {len(tree)}" + "".join(f" {hx(p)} {hx(c)}" for p, c in tree)
    s += f" {len(roots)}" + "".join(" " + hx(r) for r in roots)
    uniq = []
    for q in sqls:
        if q not in uniq:
            uniq.append(q)
            # the text the engine sees when `control substitution on` is in force (escapes only)
            q2 = q.replace("\\\\", "\\").replace("$__DATABASE__", "postgres")
            if q2 != q:
                uniq.append(q2)
    # regex tables (the overridden tree holds inline patterns written by the updater: escaped literal
    # texts, for which Python's `re` agrees with the regex crate)
    cands = []
    for _, c in tree:
        for ln in c.split("\n"):
            t = ln.split()
            if len(t) >= 3 and t[0] in ("statement", "query") and t[1] == "error":
                for cand in (" ".join(t[2:]), " ".join(t[2:t.index("retry")]) if "retry" in t[2:] else None):
                    if cand and cand not in cands:
                        cands.append(cand)
    errs = []
    for q in uniq:
        for a in engine_answers(q):
            if a.startswith("error "):
                e = unhx(a.split(" ")[1])
                if e not in errs:
                    errs.append(e)
    # an include shared by several roots is read again after an earlier root's --override has written
    # new inline patterns into it (the escaped error text; for these plain texts escaping changes nothing)
    for e in errs:
        if re.fullmatch(r"[A-Za-z0-9 ]+", e) and e.strip() == e and "  " not in e and e not in cands:
            cands.append(e)
    valid, matches = [], []
    for cand in cands:
        try:
            rx = re.compile(cand)
            valid.append((cand, 1))
            for e in errs:
                matches.append((cand, e, 1 if rx.search(e) else 0))
        except re.error:
            valid.append((cand, 0))
    s += f" {len(valid)}" + "".join(f" {hx(c)} {v}" for c, v in valid)
    s += f" {len(matches)}" + "".join(f" {hx(c)} {hx(e)} {v}" for c, e, v in matches)
    s += f" db {hx('external')} 0 {len(uniq)}" + "".join(" " + enc_answers(q) for q in uniq)
    s += " rows x 0 0 exit 0 x"
    return s


def run_multi(cwd, tree, roots, mode, labels=()):
    for p, c in tree:
        os.makedirs(os.path.dirname(os.path.join(cwd, p)) or cwd, exist_ok=True)
        open(os.path.join(cwd, p), "w").write(c)
    args = (["--override"] if mode == "override" else []) + [x for l in labels for x in ("--label", l)] + roots
    if mode == "override" and len(roots) > 1 and sum(map(ord, roots[0])) % 2 == 0:
        # `-j` has no meaning for --override (files are rewritten one after the other): it must not change
        # the outcome
        args = ["-j", "2"] + args
    # with warnings on, a failed attempt of a retried record is formatted and logged
    r = run_cli(cwd, args, {"RUST_LOG": "warn"}, timeout=40)
    after = []
    for p, _ in tree:
        try:
            after.append(open(os.path.join(cwd, p), "rb").read().decode("utf-8", "replace"))
        except FileNotFoundError:
            after.append("")
    sess, tr = {}, []
    for e in r.events:
        k = sess.setdefault(e["pid"], len(sess))
        if e["ev"] == "connect":
            tr.append(f"make {k} 1")
        elif e["ev"] == "sql":
            tr.append(f"run {k} x{e['args'][1]}")
    stats = []
    if mode == "run":
        # one block of stdout per root, in order
        pos = []
        for root in roots:
            # (with warnings on, log lines of the retry loop come between the name and the status)
            m = re.search(r"(?m)^" + re.escape(root) + r"\s+\.\. ", r.stdout)
            pos.append(m.start() if m else -1)
        for i, root in enumerate(roots):
            st = pos[i]
            if st < 0:
                stats.append("none")
                continue
            later = [p for p in pos if p > st]
            block = r.stdout[st:min(later) if later else len(r.stdout)]
            if "[FAILED]" not in block:
                stats.append("ok" if "[OK]" in block else "none")
            else:
                m = re.search(r"\bat (\S+?):(\d+)", block[block.index("[FAILED]"):])
                stats.append(f"err {m.group(2)}" if m else "err ?")
    else:
        stats = ["done" for _ in roots]
    line = f"R {len(stats)} " + " ".join(stats) + f" F {len(tree)}" + "".join(f" {hx(p)} {hx(c)}" for (p, _), c in zip(tree, after))
    line += " T " + str(len(tr)) + "".join(" " + x for x in tr)
    return r, after, line


def profile_climulti(rnd, n, thorough, out):
    """several root files in one (serial) invocation: check mode and --override"""
    for si in range(n):
        tree, sqls, extra = gen_cli_tree(rnd, multi=rnd.randint(1, 3))
        roots = ["root.slt"] + extra
        rnd.shuffle(roots)
        labels = [l for l in ("L1", "L2", "x,y") if rnd.random() < 0.5]
        overridden = None
        for mode in ("run", "override", "rerun"):
            # `rerun`: check mode on the overridden tree, whose expectations are (mostly) right, so that
            # the run gets past the first records: halt, includes and state-setting records all count
            t = tree if mode != "rerun" else overridden
            if t is None:
                continue
            cwd = fresh_dir(f"multi_{si}")
            r, after, line = run_multi(cwd, t, roots, "override" if mode == "override" else "run", labels)
            oracle = None
            if r.timeout:
                oracle = f"C02|the CLI did not terminate within 40 s ({mode})"
            if mode == "override" and not r.timeout:
                overridden = [(p, c) for (p, _), c in zip(tree, after)]
            out.add(multi_case("override" if mode == "override" else "run", t, roots, sqls, labels), line,
                    f"climulti set={si} mode={mode} roots={roots} labels={labels}", oracle)
            shutil.rmtree(cwd, ignore_errors=True)


def profile_clitmpl(rnd, n, thorough, out):
    """the external-engine command template: `{db} {host} {port} {user} {pass}` are replaced by the
    connection options, everything else reaches `bash -c` verbatim; observed as the argv of the engine"""
    lits = ["--x", "a=b", "k:v", "plain", "A_1", "7", "x.y", "db", "host", "{", "}", "{}", "{dbx}", "{ db}", "{DB}", "{hosts}", "u+p"]   # (no commas: bash would brace-expand)
    phs = ["{db}", "{host}", "{port}", "{user}", "{pass}"]
    cwd = fresh_dir("tmpl")
    os.makedirs(os.path.join(cwd, "t"), exist_ok=True)
    open(os.path.join(cwd, "t/a.slt"), "w").write("statement ok\nselect 1 -- Ft/a.slt\n")
    for ci in range(n):
        # an argument is a concatenation of literal pieces and placeholders
        args = []
        for _ in range(rnd.randint(0, 5)):
            a = "".join(rnd.choice(phs) if rnd.random() < 0.55 else rnd.choice(lits) for _ in range(rnd.randint(1, 4)))
            args.append(a)
        # values: mostly plain, sometimes containing a later placeholder (replaced again by the
        # following `replace`: outside the guard of the theorem, inside the model)
        def val(pool):
            return rnd.choice(pool)
        db = val(["d1", "testdb", "x{host}", "d{user}", "{pass}", "db_2"])
        host = val(["h1", "node-7", "h{port}", "localhost"])
        port = str(rnd.choice([1, 80, 5432, 65535]))
        user = val(["u", "alice", "u{pass}", "{db}"])
        pw = val(["p", "secret", "{db}", "{host}x"])
        tmpl_case = "exec ENGINE {db}" + "".join(" " + a for a in args)
        tmpl_real = f"exec {ENGINE} {{db}}" + "".join(" " + a for a in args)
        how = rnd.choice(["flags", "env"])
        cargs, env = [], {}
        if how == "flags":
            cargs = ["--db", db, "--host", host, "--port", port, "--user", user, "--pass", pw]
        else:
            env = {"SLT_DB": db, "SLT_HOST": host, "SLT_PORT": port, "SLT_USER": user, "SLT_PASSWORD": pw}
        r = run_cli(cwd, cargs + ["t/a.slt"], env, timeout=25, template=tmpl_real)
        conn = [e for e in r.events if e["ev"] == "connect"]
        if conn:
            argv = [conn[0]["db"]] + [bytes.fromhex(a).decode("utf-8", "replace") for a in conn[0]["args"]]
            impl = hx("exec ENGINE " + " ".join(argv))
        else:
            impl = f"no-engine-started exit={r.exit}"
        oracle = None
        if r.exit != 0 and conn:
            oracle = f"C20|the run failed (exit {r.exit}) although the engine answers every request"
        out.add(f"cmdtmpl {hx(tmpl_case)} {hx(db)} {hx(host)} {hx(port)} {hx(user)} {hx(pw)}", impl,
                f"clitmpl case={ci} via={how} template={tmpl_case!r} db={db} host={host} port={port} user={user} pass={pw}", oracle)
    shutil.rmtree(cwd, ignore_errors=True)


def libtrace_case(line):
    """a `libmon` case (event log of the library's run_parallel, canonicalised by harness/src/libpar.rs)
    as a trace-inclusion case of the driver model: no cancellation, no keep, results from the files'
    ground truth; files in creation order"""
    t = line.split(" ")
    if t[0] != "libmon":
        return None
    jobs, mgmt, nf = int(t[1]), unhx(t[2]), int(t[3])
    i = 4
    files = []
    for _ in range(nf):
        files.append((unhx(t[i]), t[i + 1] == "1"))
        i += 2
    nev = int(t[i]); i += 1
    evs, sess, created = [], {}, []
    mg = set()
    for _ in range(nev):
        k = t[i]
        if k in ("create", "drop"):
            d = unhx(t[i + 1]); i += 2
            evs.append((k, d))
            if k == "create":
                created.append(d)
        elif k == "connect":
            sid, d = int(t[i + 1]), unhx(t[i + 2]); i += 3
            if d == mgmt:
                mg.add(sid)
            else:
                sess[sid] = (len(sess), d)
                evs.append(("connect", sess[sid][0], d))
        elif k == "sql":
            sid, text = int(t[i + 1]), unhx(t[i + 2]); i += 3
            if sid in sess:
                evs.append(("sql", sess[sid][0], sess[sid][1], text))
        elif k == "eof":
            sid = int(t[i + 1]); i += 2
            if sid in sess:
                evs.append(("eof", sess[sid][0], sess[sid][1]))
        else:
            return None
    if len(created) != nf or jobs == 0:
        return None
    dbs = created
    res = ["err" if failed else "ok" for _, failed in files]
    labels, gave_up = find_labels(jobs, False, False, dbs, res, [False] * nf, evs, False)
    if gave_up:
        return None
    def ev_tok(e):
        if e[0] in ("create", "drop"):
            return f"{e[0]} {hx(e[1])}"
        if e[0] == "connect":
            return f"connect {e[1]} {hx(e[2])}"
        if e[0] == "sql":
            return f"sql {e[1]} {hx(e[3])}"
        return f"eof {e[1]}"
    # (a database no SQL arrived at has no canonical name of the monitor's shape: not replayed)
    for (f, _), d in zip(files, dbs):
        n = test_case_name(f)
        if not (d.startswith(n + "_") and len(d) == len(n) + 9):
            return None
    s = f"clitrace {jobs} 0 0 {hx(mgmt)} {nf}" + "".join(f" {hx(f)} {hx(d)}" for (f, _), d in zip(files, dbs))
    labels = labels or []
    s += f" {len(labels)}" + "".join(" " + l for l in labels)
    s += f" {len(evs)}" + "".join(" " + ev_tok(e) for e in evs)
    s += f" {len(res)}" + "".join(" " + r for r in res)
    # (the library returns one verdict for the whole run: Ok iff no file failed)
    s += f" {0 if any(failed for _, failed in files) else 1}"
    return s


def libtrace_dir(outdir):
    """append the trace-inclusion cases derived from the `libmon` cases of a generated profile"""
    rd = lambda n: open(os.path.join(outdir, n)).read().split("\n")
    cases, tags = rd("cases.txt"), rd("tags.txt")
    add = []
    for c, tg in zip(cases, tags):
        x = libtrace_case(c)
        if x is not None:
            add.append((x, tg))
    with open(os.path.join(outdir, "cases.txt"), "a") as fc, open(os.path.join(outdir, "impl.txt"), "a") as fi, \
            open(os.path.join(outdir, "tags.txt"), "a") as ft, open(os.path.join(outdir, "expect.txt"), "a") as fe:
        for x, tg in add:
            fc.write(x + "\n"); fi.write("accept\n"); ft.write(tg + " [trace inclusion in the driver LTS]\n"); fe.write("-\n")
    return len(add)


def replay_line(line):
    """re-run a deterministic case on the current CLI build"""
    t = line.split(" ")
    if t[0] == "part":
        count, ident, ng = int(t[1]), int(t[2]), int(t[3])
        i, globs = 4, []
        for _ in range(ng):
            k = int(t[i]); i += 1
            globs.append([unhx(x) for x in t[i:i + k]]); i += k
        cwd = fresh_dir("replay")
        allf = [f for g in globs for f in g]
        pats = []
        for g in globs:
            for f in g:
                os.makedirs(os.path.dirname(os.path.join(cwd, f)), exist_ok=True)
                open(os.path.join(cwd, f), "w").write("statement ok\nselect 1\n")
            if g:
                pats.append(os.path.dirname(g[0]) + "/*.slt")
        r, sel, bad = run_part(cwd, count, ident, pats, allf, "flags")
        shutil.rmtree(cwd, ignore_errors=True)
        return "sel " + str(len(sel)) + "".join(" " + hx(p) for p in sel)
    if t[0] == "partsrc":
        src = [None if x == "-" else unhx(x) for x in t[1:7]]
        ng = int(t[7])
        i, globs = 8, []
        for _ in range(ng):
            k = int(t[i]); i += 1
            globs.append([unhx(x) for x in t[i:i + k]]); i += k
        cwd = fresh_dir("replay")
        allf = []
        pats = []
        for g in globs:
            for f in g:
                os.makedirs(os.path.dirname(os.path.join(cwd, f)), exist_ok=True)
                open(os.path.join(cwd, f), "w").write("statement ok\nselect 1\n")
                if f not in allf:
                    allf.append(f)
            if g:
                pats.append(os.path.dirname(g[0]) + "/*.slt")
        args, env = list(pats), {}
        if src[0] is not None:
            args = ["--partition-count", src[0]] + args
        if src[1] is not None:
            args = ["--partition-id", src[1]] + args
        for v, name in zip(src[2:], ("SLT_PARTITION_COUNT", "SLT_PARTITION_ID", "BUILDKITE_PARALLEL_JOB_COUNT", "BUILDKITE_PARALLEL_JOB")):
            if v is not None:
                env[name] = v
        r = run_cli(cwd, args, env)
        st = statuses(r.stdout, allf)
        shutil.rmtree(cwd, ignore_errors=True)
        if r.exit != 0 and not r.events:
            return "error"
        left = {f: len(v) for f, v in st.items()}
        sel = []
        for g in globs:
            for f in g:
                if left.get(f, 0) > 0:
                    sel.append(f)
                    left[f] -= 1
        return "sel " + str(len(sel)) + "".join(" " + hx(p) for p in sel)
    if t[0] == "partcfg":
        cwd = fresh_dir("replay")
        os.makedirs(os.path.join(cwd, "d"))
        for f in ("a.slt", "b.slt"):
            open(os.path.join(cwd, "d", f), "w").write("statement ok\nselect 1\n")
        args = ["d/*.slt"]
        if t[1] != "-":
            args = ["--partition-count", t[1]] + args
        if t[2] != "-":
            args = ["--partition-id", t[2]] + args
        r = run_cli(cwd, args)
        shutil.rmtree(cwd, ignore_errors=True)
        traffic = len(r.events) > 0
        return "error" if (r.exit != 0 and not traffic) else ("ok" if r.exit == 0 else f"exit{r.exit}-traffic")
    return "not-replayable (schedule-dependent run: see the recorded observation in the replay file)"


PROFILES = {"cli18": profile_cli18, "cli16": profile_cli16, "cli17": profile_cli17, "cli19": profile_cli19, "cliupd": profile_cliupd, "climulti": profile_climulti,
            "clitmpl": profile_clitmpl}


def main():
    if sys.argv[1] == "gen":
        prof, seed, n, tier, outdir = sys.argv[2], int(sys.argv[3]), int(sys.argv[4]), sys.argv[5], sys.argv[6]
        rnd = random.Random(seed * 7919 + hash(prof) % 1000 if False else seed * 7919 + sum(map(ord, prof)))
        out = Out(outdir)
        try:
            PROFILES[prof](rnd, n, tier == "thorough", out)
        except TooManyTimeouts:
            pass
        out.close()
        print(out.n)
    elif sys.argv[1] == "libtrace":
        print(libtrace_dir(sys.argv[2]))
    elif sys.argv[1] == "replay":
        for line in sys.stdin:
            print(replay_line(line.rstrip("\n")))
    else:
        print("usage: cli_harness.py gen <profile> <seed> <n> <quick|thorough> <outdir>", file=sys.stderr)
        sys.exit(2)


if __name__ == "__main__":
    main()
