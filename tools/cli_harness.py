#!/usr/bin/env python3
"""
CLI-level harness: drives the REAL `sqllogictest` binary (built from /repo) against the scripted
fake external engine and writes the same four files as the Rust harness:
  cases.txt (lines for the Lean model driver), impl.txt (what the CLI did, same protocol),
  tags.txt, expect.txt ("-" or "!Cxx|oracle failure on the implementation alone").

  cli_harness.py gen <profile> <seed> <n> <quick|thorough> <outdir>
  cli_harness.py replay            (case lines on stdin -> implementation answers; only for
                                    deterministic ops: part, partcfg, serial)
"""
import os
import random
import re
import shutil
import subprocess
import sys
import time
import xml.etree.ElementTree as ET

ROOT = os.path.dirname(os.path.dirname(os.path.abspath(__file__)))
CLI = os.environ.get("SLT_CLI_BIN", os.path.join(ROOT, "harness", "target", "cli", "debug", "sqllogictest"))
ENGINE = os.path.join(ROOT, "harness", "target", "release", "fake_engine")
SCRATCH = os.environ.get("SLT_SCRATCH", os.path.join(ROOT, "out", "scratch"))


def hx(s):
    return "x" + s.encode().hex()


def unhx(t):
    return bytes.fromhex(t[1:]).decode("utf-8", "replace")


class Run:
    pass


def run_cli(cwd, args, env_extra=None, timeout=30, stdin=None):
    env = dict(os.environ)
    for k in list(env):
        if k.startswith("SLT_") or k.startswith("BUILDKITE_") or k.startswith("FAKE_"):
            del env[k]
    env["RUST_BACKTRACE"] = "0"
    env["RUST_LOG"] = "off"
    log = os.path.join(cwd, "events.log")
    for f in (log, log + ".cnt"):
        if os.path.exists(f):
            os.remove(f)
    env["FAKE_LOG"] = log
    if env_extra:
        env.update(env_extra)
    cmd = [CLI, "--engine", "external", "--external-engine-command-template", f"exec {ENGINE} {{db}}",
           "--color", "never"] + args
    t0 = time.time()
    r = Run()
    try:
        p = subprocess.run(cmd, cwd=cwd, env=env, stdout=subprocess.PIPE, stderr=subprocess.PIPE, timeout=timeout)
        r.exit, r.stdout, r.stderr = p.returncode, p.stdout.decode("utf-8", "replace"), p.stderr.decode("utf-8", "replace")
        r.timeout = False
    except subprocess.TimeoutExpired as e:
        r.exit, r.stdout, r.stderr = -999, (e.stdout or b"").decode("utf-8", "replace"), (e.stderr or b"").decode("utf-8", "replace")
        r.timeout = True
    r.wall = time.time() - t0
    r.events = []
    if os.path.exists(log):
        for line in open(log):
            t = line.rstrip("\n").split(" ")
            if len(t) >= 4:
                r.events.append({"t": int(t[0]), "pid": int(t[1]), "db": t[2], "ev": t[3], "args": t[4:]})
    r.events.sort(key=lambda e: e["t"])
    return r


def statuses(stdout, files):
    """status tag printed for each file: OK / FAILED / SKIPPED / CANCELLED / None"""
    res = {}
    heads = []
    for f in files:
        for m in re.finditer(r"(?m)^" + re.escape(f) + r"\s+\.\. ", stdout):
            heads.append((m.start(), m.end(), f))
    heads.sort()
    for i, (s, e, f) in enumerate(heads):
        nxt = heads[i + 1][0] if i + 1 < len(heads) else len(stdout)
        m = re.search(r"\[(OK|FAILED|SKIPPED|CANCELLED)\]", stdout[e:nxt])
        tag = m.group(1) if m else None
        res.setdefault(f, []).append(tag)
    return res


def junit(path):
    if not os.path.exists(path):
        return None
    root = ET.parse(path).getroot()
    suites = root.findall("testsuite") if root.tag == "testsuites" else [root]
    cases = []
    attrs = {}
    for s in suites:
        attrs = dict(s.attrib)
        for c in s.findall("testcase"):
            st = "success"
            if c.find("failure") is not None or c.find("error") is not None:
                st = "failure"
            elif c.find("skipped") is not None:
                st = "skipped"
            cases.append((c.attrib.get("name"), st))
    return {"cases": cases, "attrs": attrs}


def test_case_name(p):
    return re.sub(r"[ .\-/]", "_", p)


class Out:
    def __init__(self, d):
        os.makedirs(d, exist_ok=True)
        self.c = open(os.path.join(d, "cases.txt"), "w")
        self.i = open(os.path.join(d, "impl.txt"), "w")
        self.t = open(os.path.join(d, "tags.txt"), "w")
        self.e = open(os.path.join(d, "expect.txt"), "w")
        self.n = 0

    def add(self, case, impl, tag, oracle=None):
        self.c.write(case + "\n")
        self.i.write(impl + "\n")
        self.t.write(tag.replace("\n", " ") + "\n")
        self.e.write(("!" + oracle.replace("\n", " ") if oracle else "-") + "\n")
        self.n += 1

    def close(self):
        for f in (self.c, self.i, self.t, self.e):
            f.close()


def fresh_dir(name):
    d = os.path.join(SCRATCH, f"cli_{os.getpid()}_{name}")
    shutil.rmtree(d, ignore_errors=True)
    os.makedirs(d)
    return d


# --------------------------------------------------------------------------------------- C18

NAME_CHARS = "abcdefghijklmnopqrstuvwxyz0123456789_-"


def gen_names(rnd, k):
    names = set()
    while len(names) < k:
        n = "".join(rnd.choice(NAME_CHARS) for _ in range(rnd.randint(1, 9)))
        names.add(n + ".slt")
    return sorted(names)


def part_case(count, ident, globs):
    s = f"part {count} {ident} {len(globs)}"
    for g in globs:
        s += f" {len(g)}" + "".join(" " + hx(p) for p in g)
    return s


def run_part(cwd, count, ident, patterns, all_files, how):
    args, env = list(patterns), {}
    if how == "flags":
        args = ["--partition-count", str(count), "--partition-id", str(ident)] + args
    elif how == "env":
        env = {"SLT_PARTITION_COUNT": str(count), "SLT_PARTITION_ID": str(ident)}
    else:
        env = {"BUILDKITE_PARALLEL_JOB_COUNT": str(count), "BUILDKITE_PARALLEL_JOB": str(ident)}
    r = run_cli(cwd, args, env)
    st = statuses(r.stdout, all_files)
    sel = [f for f in all_files if f in st]
    bad = [f for f in sel if st[f] != ["OK"]]
    return r, sel, bad


def profile_cli18(rnd, n, thorough, out):
    nsets = n
    for si in range(nsets):
        cwd = fresh_dir(f"c18_{si}")
        k1, k2 = rnd.randint(2, 30), rnd.choice([0, 1, 1, 2, 5, 10])
        os.makedirs(os.path.join(cwd, "d", "sub"))
        g1 = ["d/" + x for x in gen_names(rnd, k1)]
        g2 = ["d/sub/" + x for x in gen_names(rnd, k2)]
        for f in g1 + g2:
            open(os.path.join(cwd, f), "w").write("statement ok\nselect 1\n")
        patterns = ["d/*.slt"] + (["d/sub/*.slt"] if g2 else [])
        globs = [g1] + ([g2] if g2 else [])
        allf = g1 + g2
        maxn = 8 if (thorough or si == 0) else 4
        for count in range(1, maxn + 1):
            sels = []
            for ident in range(count):
                how = rnd.choice(["flags", "flags", "env", "buildkite"])
                r, sel, bad = run_part(cwd, count, ident, patterns, allf, how)
                oracle = None
                if r.exit != 0 or bad:
                    oracle = f"C18|partition {ident}/{count} ({how}): exit {r.exit}, files not OK: {bad}"
                sels.append(sel)
                # re-run in a separate process: identical selection
                if oracle is None and rnd.random() < (0.5 if thorough else 0.15):
                    r2, sel2, _ = run_part(cwd, count, ident, patterns, allf, rnd.choice(["flags", "env"]))
                    if sel2 != sel:
                        oracle = f"C18|partition {ident}/{count} selects different files in another process: {sel} vs {sel2}"
                out.add(part_case(count, ident, globs), "sel " + str(len(sel)) + "".join(" " + hx(p) for p in sel),
                        f"cli18 set={si} N={count} id={ident} via={how}", oracle)
            # union / disjointness on the implementation alone (globs with > 1 match)
            multi = [f for g in globs if len(g) > 1 for f in g]
            single = [f for g in globs if len(g) <= 1 for f in g]
            cnt = {f: sum(1 for s in sels if f in s) for f in allf}
            wrong = [f for f in multi if cnt[f] != 1] + [f for f in single if cnt[f] != count]
            if wrong:
                out.add(part_case(count, 0, globs), "sel -", f"cli18 set={si} N={count} union",
                        f"C18|with N={count} these files are not covered exactly once over all ids: {wrong[:5]}")
        # invalid configurations: rejected without engine traffic
        for (c, i) in [("0", "0"), ("3", "3"), ("3", "7"), ("2", None), (None, "1"), ("1", "0"), ("4", "3")]:
            args = list(patterns)
            if c is not None:
                args = ["--partition-count", c] + args
            if i is not None:
                args = ["--partition-id", i] + args
            r = run_cli(cwd, args)
            traffic = len(r.events) > 0
            impl = "error" if (r.exit != 0 and not traffic) else ("ok" if r.exit == 0 else f"exit{r.exit}-traffic")
            out.add(f"partcfg {c if c is not None else '-'} {i if i is not None else '-'}", impl,
                    f"cli18 set={si} cfg count={c} id={i}")
        shutil.rmtree(cwd, ignore_errors=True)


# --------------------------------------------------------------------------------------- main

def replay_line(line):
    """re-run a deterministic case on the current CLI build"""
    t = line.split(" ")
    if t[0] == "part":
        count, ident, ng = int(t[1]), int(t[2]), int(t[3])
        i, globs = 4, []
        for _ in range(ng):
            k = int(t[i]); i += 1
            globs.append([unhx(x) for x in t[i:i + k]]); i += k
        cwd = fresh_dir("replay")
        allf = [f for g in globs for f in g]
        pats = []
        for g in globs:
            for f in g:
                os.makedirs(os.path.dirname(os.path.join(cwd, f)), exist_ok=True)
                open(os.path.join(cwd, f), "w").write("statement ok\nselect 1\n")
            if g:
                pats.append(os.path.dirname(g[0]) + "/*.slt")
        r, sel, bad = run_part(cwd, count, ident, pats, allf, "flags")
        shutil.rmtree(cwd, ignore_errors=True)
        return "sel " + str(len(sel)) + "".join(" " + hx(p) for p in sel)
    if t[0] == "partcfg":
        cwd = fresh_dir("replay")
        os.makedirs(os.path.join(cwd, "d"))
        for f in ("a.slt", "b.slt"):
            open(os.path.join(cwd, "d", f), "w").write("statement ok\nselect 1\n")
        args = ["d/*.slt"]
        if t[1] != "-":
            args = ["--partition-count", t[1]] + args
        if t[2] != "-":
            args = ["--partition-id", t[2]] + args
        r = run_cli(cwd, args)
        shutil.rmtree(cwd, ignore_errors=True)
        traffic = len(r.events) > 0
        return "error" if (r.exit != 0 and not traffic) else ("ok" if r.exit == 0 else f"exit{r.exit}-traffic")
    return "not-replayable (schedule-dependent run: see the recorded observation in the replay file)"


PROFILES = {"cli18": profile_cli18}


def main():
    if sys.argv[1] == "gen":
        prof, seed, n, tier, outdir = sys.argv[2], int(sys.argv[3]), int(sys.argv[4]), sys.argv[5], sys.argv[6]
        rnd = random.Random(seed * 7919 + hash(prof) % 1000 if False else seed * 7919 + sum(map(ord, prof)))
        out = Out(outdir)
        PROFILES[prof](rnd, n, tier == "thorough", out)
        out.close()
        print(out.n)
    elif sys.argv[1] == "replay":
        for line in sys.stdin:
            print(replay_line(line.rstrip("\n")))
    else:
        print("usage: cli_harness.py gen <profile> <seed> <n> <quick|thorough> <outdir>", file=sys.stderr)
        sys.exit(2)


if __name__ == "__main__":
    main()
