#!/bin/bash
# usage: tools/confirm_seed.sh <seed_out_dir(with patch.diff, demo/run.sh)> <scratch worktree>
# Confirms: patch applies, test suite passes with it, demo fails with it and passes without it.
set -u
seed="$1"; wt="$2"
export CARGO_NET_OFFLINE=true RUST_BACKTRACE=0
cd "$wt" || exit 2
git checkout -q -- . ; git clean -fdq -e target
git apply "$seed/patch.diff" || { echo "RESULT patch-does-not-apply"; exit 1; }
t=$(cargo test --workspace --no-fail-fast --offline 2>&1 | grep -E "^test result" | awk '{p+=$4; f+=$6} END {print p" passed "f" failed"}')
echo "suite with patch: $t"
( cd "$seed/demo" && SLT_SRC="$wt" timeout 1200 bash ./run.sh >/tmp/confirm_demo_with${CONFIRM_TAG:-}.log 2>&1 ); with=$?
git checkout -q -- .
( cd "$seed/demo" && SLT_SRC="$wt" timeout 1200 bash ./run.sh >/tmp/confirm_demo_without${CONFIRM_TAG:-}.log 2>&1 ); without=$?
echo "demo exit with patch: $with ; without patch: $without"
if [ "$t" = "50 passed 0 failed" ] && [ $with -ne 0 ] && [ $without -eq 0 ]; then echo "RESULT confirmed"; else echo "RESULT NOT-confirmed"; fi
rm -rf "$seed/demo/target"
