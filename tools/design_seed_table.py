#!/usr/bin/env python3
"""regenerate DESIGN.md section 14 from seeded/*/meta.json and seeded/REGRESSION.json"""
import glob, json, os, re
ROOT = os.path.dirname(os.path.dirname(os.path.abspath(__file__)))
reg = json.load(open(os.path.join(ROOT, "seeded", "REGRESSION.json")))
rows = []
for d in sorted(glob.glob(os.path.join(ROOT, "seeded", "C*_*"))):
    sid = os.path.basename(d)
    m = json.load(open(os.path.join(d, "meta.json")))
    notes = open(os.path.join(d, "notes.md")).read() if os.path.exists(os.path.join(d, "notes.md")) else ""
    title = next((l.lstrip("# ").strip() for l in notes.split("\n") if l.startswith("#")), "")
    title = re.sub(r"^(C\d\d\s*[/,:—-]*\s*)?(seeded )?defect\s*\d*\s*[—:-]*\s*", "", title, flags=re.I).strip() or m["breaks"][:100]
    r = reg.get(sid, {})
    first_missed = "missed" in m["caught_by"].lower()
    how = ", ".join(r.get("replay_kinds", [])) or "?"
    caught_txt = 'yes' if r.get('caught') else ('no (by design)' if m.get('not_catchable_by_design') else 'NO')
    rows.append(f"| {sid} | {title[:110].replace('|', '/')} | {caught_txt} | {how} | "
                f"{r.get('disagreements')} / {r.get('oracle_failures')} | {'**yes**' if first_missed else 'no'} |")
strengthened = [json.load(open(os.path.join(d, "meta.json")))["caught_by"] for d in sorted(glob.glob(os.path.join(ROOT, "seeded", "C*_*")))
                if "missed" in json.load(open(os.path.join(d, "meta.json")))["caught_by"].lower()]
text = f"""## 14. Seeded changes: which checks catch which

{len(rows)} changes were produced, in eight rounds, by fresh sub-agents that were given only the text of
one property and a scratch worktree of `/repo` (nothing from `/verif`); changes that merely repeated an
earlier one were not stored.  Each compiles, passes the 49 + 1 existing
tests, and breaks the property on a demonstration the agent delivered; each was confirmed by me
in a separate worktree (`tools/confirm_seed.sh`: suite with the patch, demo with and without) before
it was stored as `seeded/<id>/` (`patch.diff`, `demo/`, `notes.md`, `meta.json`).  None is ever
committed to `/repo`.  `tools/seed_regression.py` applies each in turn to a scratch worktree of `/repo`'s HEAD, runs the quick
check of its property against it (`SLT_REPO`), and writes `seeded/REGRESSION.json`; the table below is
generated from that file (last run at `/repo` {next(iter(reg.values()))['repo_head']}: every change is caught by the
quick tier, except the three marked "by design": they add a new opt-in environment variable and show
only when it is set, which no check written for the current tree can do).  "How" names the replay kinds the check produced: `diff_<profile>` = the model and the
implementation disagree on a generated case of that profile (rule K), `oracle_<profile>` = an
oracle on the implementation alone fails (rule O); no seeded change was caught by a proof
obligation alone, because none of them touches the Lean model — a change to `/repo` shows up
as a broken correspondence, for which the run then holds a concrete failing input.
"First missed" marks the changes the check did not catch when they were first tried; what was
strengthened is listed after the table.

| id | change | caught | how | disagreements / oracle failures (quick) | first missed |
|---|---|---|---|---|---|
""" + "\n".join(rows) + """

Strengthening prompted by first-missed changes (each generator / oracle / model change is part of
the checks now and runs on every quick tier):

""" + "\n".join(f"* {s}" for s in strengthened) + """

Besides these, the two repaired library defects D22 / D23 double as regression seeds: reverting
either `fix:` commit makes `C17` report 400+ disagreements on profile `c17lib`.
"""
p = os.path.join(ROOT, "DESIGN.md")
s = open(p).read()
if "<!-- SECTION14 -->" in s and "<!-- /SECTION14 -->" not in s:
    s = s.replace("<!-- SECTION14 -->", "<!-- SECTION14 -->\n<!-- /SECTION14 -->")
s = re.sub(r"<!-- SECTION14 -->.*?<!-- /SECTION14 -->", lambda _: "<!-- SECTION14 -->\n" + text + "<!-- /SECTION14 -->", s, flags=re.S)
open(p, "w").write(s)
print("section 14 written:", len(rows), "rows")
