#!/usr/bin/env python3
"""Mechanical mutation sweep: how many small source mutations that survive the repository's own test
suite do the quick checks notice?

usage: tools/mutate.py <work dir> <worker id> <number of workers> <seed> [max mutants]

Everything happens in <work dir>/w<id>/ : a detached git worktree of /repo (`repo`) and a copy of the
committed /verif tree (`verif`, with the Lean build output copied in).  /repo and /verif themselves are
not touched.  Results are appended to <work dir>/results_w<id>.jsonl; survivors (suite passes, no check
reports a violation) are what a human then triages: equivalent / outside the twenty properties / a miss.

This is support tooling for validating the checks, not part of any registered command."""
import json, os, random, re, shutil, subprocess, sys, time

FILES = {
    "sqllogictest/src/parser.rs": ["C03", "C04", "C05", "C11", "C12", "C14", "C01", "C02", "C09", "C07", "C06"],
    "sqllogictest/src/runner.rs": ["C01", "C02", "C09", "C10", "C11", "C15", "C13", "C12", "C07", "C06", "C08", "C17", "C14"],
    "sqllogictest/src/connection.rs": ["C12", "C02"],
    "sqllogictest/src/substitution.rs": ["C13"],
    "sqllogictest/src/column_type.rs": ["C03", "C01"],
    "sqllogictest-bin/src/main.rs": ["C18", "C16", "C17", "C19", "C02", "C08", "C06"],
    "sqllogictest-engines/src/external.rs": ["C20", "C16"],
    "sqllogictest-bin/src/engines.rs": ["C20", "C09", "C19", "C17"],
}
# MUTATE_FILES=a.rs,b.rs restricts a sweep to those files
if os.environ.get("MUTATE_FILES"):
    FILES = {k: v for k, v in FILES.items() if any(k.endswith(x) for x in os.environ["MUTATE_FILES"].split(","))}

OPS = [
    (r"==", "!="), (r"!=", "=="), (r"<=", "<"), (r">=", ">"),
    (r"(?<=[\w\)\]] )<(?= [\w\(])", "<="), (r"(?<=[\w\)\]] )>(?= [\w\(])", ">="),
    (r"&&", "||"), (r"\|\|", "&&"),
    (r"\btrue\b", "false"), (r"\bfalse\b", "true"),
    (r"\+ 1\b", "+ 2"), (r"- 1\b", "- 0"), (r"\b0\b(?=[^.\w])", "1"),
    (r"\bif !", "if "), (r"\bbreak;", "continue;"), (r"\bcontinue;", "break;"),
    (r"\.or\(", ".and("), (r"\.trim\(\)", ".trim_end()"), (r"\.trim_end\(\)", ".trim()"), (r"\.trim_start\(\)", ".trim()"),
    (r"\.is_empty\(\)", ".is_empty() == false"), (r"\.is_some\(\)", ".is_none()"), (r"\.is_none\(\)", ".is_some()"),
    (r"\.take\(", ".skip("), (r"\.first\(\)", ".last()"), (r"\.last\(\)", ".first()"),
    (r"\.any\(", ".all("), (r"\.all\(", ".any("), (r"\.min\(", ".max("), (r"\.max\(", ".min("),
    (r"\bmem::take\(&mut (\w+)\)", r"\1.clone()"), (r"\.sort_unstable\(\)", ".reverse()"), (r"\.sort\(\)", ".reverse()"),
    (r"\.unwrap_or\(true\)", ".unwrap_or(false)"), (r"\.unwrap_or\(false\)", ".unwrap_or(true)"),
    # second sweep: conditions forced, unary not removed, + / - swapped, small integer literals bumped
    (r"^(\s*)(\} else )?if (?!let )(.+) \{$", r"\1\2if true {"), (r"^(\s*)(\} else )?if (?!let )(.+) \{$", r"\1\2if false {"),
    (r"(?<![\w\)\]])!(?=[a-z_\(])", ""), (r"(?<= )\+(?= )", "-"), (r"(?<= )-(?= )", "+"),
    (r"(?<![\w\.\"'])([2-9])(?![\w\.\"'])", lambda m: str(int(m.group(1)) + 1)),
    (r"\bSome\((\w+)\) =>", r"Some(\1) if false =>"),
    # a link of a method chain dropped (`.replace("{db}", …)` on a line of its own)
    (r"^(\s+)(\.\w+\([^;]*\))$", r"\1// \2"),
    # statement deletion: a whole line that is a call / assignment statement
    (r"^(\s+)((?:self\.|[a-z_]+\.)[\w\.]+\(.*\);)$", r"\1// \2"),
    (r"^(\s+)((?:self\.)?[a-z_\.]+ = .*;)$", r"\1// \2"),
]


def sh(cmd, cwd=None, env=None, timeout=3600):
    # own process group, killed as a whole on timeout (a mutant may make a grandchild spin forever)
    import signal
    p = subprocess.Popen(cmd, cwd=cwd, env=env, stdout=subprocess.PIPE, stderr=subprocess.STDOUT, text=True, start_new_session=True)
    try:
        out, _ = p.communicate(timeout=timeout)
        return p.returncode, out
    except subprocess.TimeoutExpired:
        try:
            os.killpg(p.pid, signal.SIGKILL)
        except ProcessLookupError:
            pass
        out, _ = p.communicate()
        return 124, out or ""


def sites(text):
    """(line index, op index, mutated line) for every applicable operator, outside tests and comments"""
    lines = text.split("\n")
    out = []
    for i, ln in enumerate(lines):
        if ln.strip().startswith("#[cfg(test)]"):
            break
        st = ln.strip()
        if not st or st.startswith("//") or st.startswith("#[") or st.startswith("use ") or "tracing::" in ln or "eprintln!" in ln:
            continue
        code = ln.split("//")[0]
        for k, (pat, rep) in enumerate(OPS):
            for m in re.finditer(pat, code, flags=re.M):
                new = code[:m.start()] + (rep(m) if callable(rep) else m.expand(rep)) + code[m.end():] + ln[len(code):]
                if new != ln:
                    out.append((i, k, new))
    return out


def main():
    work, wid, nw, seed = sys.argv[1], int(sys.argv[2]), int(sys.argv[3]), int(sys.argv[4])
    limit = int(sys.argv[5]) if len(sys.argv) > 5 else 10 ** 9
    base = os.path.join(work, f"w{wid}")
    repo, verif = os.path.join(base, "repo"), os.path.join(base, "verif")
    env = dict(os.environ, CARGO_NET_OFFLINE="true", RUST_BACKTRACE="0", SLT_REPO=repo)
    if not os.path.exists(repo):
        os.makedirs(base, exist_ok=True)
        rc, o = sh(["git", "-C", "/repo", "worktree", "add", "--detach", repo, "HEAD"])
        assert rc == 0, o
    if os.path.exists(verif):
        sh(["git", "-C", verif, "checkout", "-f", "--detach", sh(["git", "-C", "/verif", "rev-parse", "HEAD"])[1].strip()])
    if not os.path.exists(verif):
        rc, o = sh(["git", "-C", "/verif", "worktree", "add", "--detach", verif, "HEAD"])
        assert rc == 0, o
        shutil.copytree("/verif/lean/.lake", os.path.join(verif, "lean", ".lake"), symlinks=True)
    # all candidate mutants of all files, shuffled with one seed, dealt round-robin to the workers
    cands = []
    for f in FILES:
        text = open(os.path.join("/repo", f)).read()
        for (i, k, new) in sites(text):
            cands.append((f, i, k, new))
    random.Random(seed).shuffle(cands)
    mine = cands[wid::nw][:limit]
    res_path = os.path.join(work, f"results_w{wid}.jsonl")
    done = set()
    import glob
    for rp in glob.glob(os.path.join(work, "results_w*.jsonl")):
        for l in open(rp):
            d = json.loads(l)
            done.add((d["file"], d["line"], d["new"]))
    print(f"worker {wid}: {len(cands)} candidate mutants overall, {len(mine)} for this worker", flush=True)
    for (f, i, k, new) in mine:
        if (f, i + 1, new.strip()) in done:
            continue
        path = os.path.join(repo, f)
        sh(["git", "-C", repo, "checkout", "--", "."])
        lines = open(path).read().split("\n")
        old = lines[i]
        lines[i] = new
        open(path, "w").write("\n".join(lines))
        rec = {"file": f, "line": i + 1, "op": k, "old": old.strip(), "new": new.strip()}
        t0 = time.time()
        rc, o = sh(["cargo", "test", "--workspace", "--no-fail-fast", "--offline"], cwd=repo, env=env, timeout=1200)
        if rc != 0:
            rec["status"] = "does-not-compile" if ("error[" in o or "error:" in o and "test result" not in o) else "killed-by-suite"
        else:
            rec["status"] = "survived"
            rec["checks"] = {}
            for pid in FILES[f]:
                rc2, o2 = sh(["python3", "tools/check.py", pid, "--tier", "quick"], cwd=verif, env=env, timeout=1800)
                viol = re.findall(r"^VIOLATION property=\S+ replay=(\S+)(.*)$", o2, re.M)
                kinds = sorted({os.path.basename(v[0]).rsplit("_", 1)[0] for v in viol})
                rec["checks"][pid] = kinds if rc2 == 1 else ("exit%d" % rc2 if rc2 else "pass")
                if rc2 == 124:
                    rec["status"] = "check-timeout"
                    break
                if rc2 == 1 and viol and kinds != ["machinery.json"]:
                    rec["status"] = "caught"
                    rec["caught_by"] = pid
                    break
        rec["wall_s"] = round(time.time() - t0, 1)
        open(res_path, "a").write(json.dumps(rec) + "\n")
        print(f"w{wid} {rec['status']:18s} {f}:{i + 1} op{k}  {rec['old'][:60]!r} -> {rec['new'][:60]!r} "
              f"{rec.get('caught_by', '')} ({rec['wall_s']} s)", flush=True)
    sh(["git", "-C", repo, "checkout", "--", "."])


if __name__ == "__main__":
    main()
