"""
Model-independent oracles: the property's own relation evaluated on the implementation's output
(and the generator's intent recorded in the case tag), canonicalisation of compared lines, and
the predicates that identify known findings.
"""
import re


def parse_script_out(a):
    """'ok 3 make 0 1 run 0 x.. ...' -> (result tuple, [events]); a second script's result
    (`<res1> ;; <res2> <n> events`) is dropped here"""
    if " ;; " in a:
        first, rest = a.split(" ;; ", 1)
        r = rest.split(" ")
        skip = {"ok": 1, "crashed": 1, "-": 1, "failed": 4, "parseerr": 3}.get(r[0], 1)
        a = first + " " + " ".join(r[skip:])
    t = a.split(" ")
    if t[0] == "ok":
        res, i = ("ok",), 1
    elif t[0] == "failed":
        res, i = ("failed", int(t[1]), t[2], bytes.fromhex(t[3][1:]).decode("utf-8", "replace")), 4
    elif t[0] == "crashed":
        res, i = ("crashed",), 1
    else:
        return (t[0],) + tuple(t[1:]), []
    n = int(t[i])
    i += 1
    evs = []
    while i < len(t):
        k = t[i]
        if k == "make":
            evs.append(("make", int(t[i + 1]), t[i + 2] == "1")); i += 3
        elif k == "run":
            evs.append(("run", int(t[i + 1]), bytes.fromhex(t[i + 2][1:]).decode("utf-8", "replace"))); i += 3
        elif k == "cmd":
            evs.append(("cmd", bytes.fromhex(t[i + 1][1:]).decode("utf-8", "replace"))); i += 2
        elif k == "sleep":
            evs.append(("sleep", int(t[i + 1]), int(t[i + 2]))); i += 3
        elif k == "shutdown":
            evs.append(("shutdown", int(t[i + 1]))); i += 2
        else:
            raise ValueError("bad event " + k)
    assert len(evs) == n
    return res, evs


def nontrivial_script(case, impl, tag):
    t = impl.split(" ")
    if t[0] == "failed":
        return True
    if t[0] == "ok":
        return len(t) > 1 and t[1] != "0"
    return t[0] == "crashed"


NONTRIVIAL = {"script": nontrivial_script, "any": lambda c, a, t: True}
CANON = {}

BACKOFF = {"0s": (0, 0), "1ms": (0, 1000000), "1s500ms": (1, 500000000), "3ms": (0, 3000000)}


def oracle_c09(case, impl, tag, ctx):
    """C09's relation, computed from the generator's intent: executions = min(first pass, N),
    ok iff some attempt among the first N passes, waits of D between consecutive attempts."""
    m = re.match(r"c09 n=(\d+) bits=([01]+) kind=(\d+)", tag)
    if not m:
        return None
    n, bits, kind = int(m.group(1)), int(m.group(2), 2), int(m.group(3))
    first = next((i for i in range(n) if bits & (1 << i)), None)
    execs = n if first is None else first + 1
    res, evs = parse_script_out(impl)
    target = {0: "insert into t values (1)", 1: "update t", 2: "bad sql", 3: "select v from t",
              4: "select bad", 5: "check", 6: "select typed from t"}[kind]
    runs = [e for e in evs if (e[0] == "run" and e[2] == target) or (e[0] == "cmd" and e[1] == target)]
    sleeps = [e for e in evs if e[0] == "sleep"]
    after = [e for e in evs if e[0] == "run" and e[2] == "select 'after'"]
    if len(runs) != execs:
        return f"executed {len(runs)} times, expected {execs}"
    if first is not None:
        if res[0] != "ok":
            return f"attempt {first} passes but the run reports {res}"
        if len(after) != 1:
            return "the record after the retried one was not executed exactly once"
        if len(sleeps) != execs - 1:
            return f"{len(sleeps)} waits for {execs} executions ending in a pass (expected {execs - 1})"
    else:
        if res[0] != "failed" or res[1] != 1:
            return f"no attempt passes but the run reports {res}"
        last = n - 1
        want = {0: f"fail{last}", 1: f"affected {last + 10} rows", 2: f"other{last}", 3: f"{100 + last}"}.get(kind)
        if want is not None and res[3] != want:
            return f"reported error {res[3]!r} is not that of the last attempt ({want!r})"
        if after:
            return "execution continued after the record failed all attempts"
        if not (execs - 1 <= len(sleeps) <= execs):
            return f"{len(sleeps)} waits for {execs} failed executions"
    # every wait has the written backoff
    ds = set((s[1], s[2]) for s in sleeps)
    if len(ds) > 1:
        return f"waits differ: {ds}"
    # between two consecutive executions there is exactly one wait
    seq = [e[0] if e[0] == "sleep" else "x" for e in evs if e in runs or e[0] == "sleep"]
    for i in range(len(seq) - 1):
        if seq[i] == "x" and seq[i + 1] == "x":
            return "two executions without a wait in between"
        if seq[i] == "sleep" and seq[i + 1] == "sleep":
            return "two waits in a row"
    return None


def oracle_c10(case, impl, tag, ctx):
    """metamorphic: all permutations of one result set under an effective rowsort/valuesort must
    get the same verdict; the expectation was computed from the base order, so they must pass.
    Under nosort the identity order passes."""
    m = re.match(r"c10 q=(\S+) f=(\S+) vw=(\S+) perm=(\S+)", tag)
    if not m:
        return None
    q, f, pk = m.group(1), m.group(2), m.group(4)

    def mode(s):
        mm = re.match(r'Some\("(\w+)"\)', s)
        return mm.group(1) if mm else None
    eff = mode(q) or mode(f)
    if " um=true" in tag and " vw=false" in tag and eff != "valuesort":
        return None     # no expected line can match such a row (not a question of order)
    res = impl.split(" ")[0]
    if (eff == "valuesort" or (eff == "rowsort" and pk == "rows")) and res != "ok":
        return f"a reordered answer fails under effective {eff}: {impl.split(' ')[:3]}"
    return None


def oracle_c11(case, impl, tag, ctx):
    m = re.match(r"c11 guards=(\[.*?\]) labels=(\[.*?\]) kind=(\d+) engine=\"(.*?)\"", tag)
    if not m:
        return None
    guards = re.findall(r'\((true|false), "(\w+)"\)', m.group(1))
    labels = set(re.findall(r'"(\w+)"', m.group(2)))
    kind = int(m.group(3))
    engine = m.group(4)
    S = set(labels)
    if kind != 2 and engine:
        S.add(engine)
    runs = all((l in S) if only == "true" else (l not in S) for only, l in guards)
    res, evs = parse_script_out(impl)
    m2 = re.search(r" second guards2=(\[.*?\]) labels2=(\[.*?\])", tag)
    if m2:
        # labels added between two scripts count for the second one
        g2 = re.findall(r'\((true|false), "(\w+)"\)', m2.group(1))
        S2 = set(labels) | set(re.findall(r'"(\w+)"', m2.group(2)))
        if engine:
            S2.add(engine)
        runs2 = all((l in S2) if only == "true" else (l not in S2) for only, l in g2)
        executed2 = any(e[0] == "run" and e[2] == "guarded2" for e in evs)
        if executed2 != runs2:
            return f"second script, guards {g2} labels {sorted(S2)} (some added after the first script): executed={executed2}, reference says {runs2}"
    executed = any((e[0] == "run" and e[2] == "guarded") or (e[0] == "cmd" and e[1] == "guarded") for e in evs)
    if executed != runs:
        return f"guards {guards} labels {sorted(S)}: executed={executed}, reference says {runs}"
    if runs:
        # the expectation is deliberately wrong: an executed record must fail at line len(guards)+1
        ml = re.search(r" line=(\d+)", tag)
        if res[0] != "failed" or res[1] != (int(ml.group(1)) if ml else len(guards) + 1):
            return f"executed guarded record should fail at its own line, got {res}"
    else:
        if res[0] != "ok":
            return f"a skipped record cannot fail, got {res}"
        pass
    return None


def oracle_c15(case, impl, tag, ctx):
    return None


def nontrivial_parse(case, impl, tag):
    t = impl.split(" ")
    return t[0] == "err" or t[0] == "panic" or (t[0] == "ok" and t[1] != "0")


NONTRIVIAL["parse"] = nontrivial_parse
NONTRIVIAL["update"] = lambda c, a, t: " T 0" not in a or a.startswith("err") or a.startswith("panic")
NONTRIVIAL["include"] = lambda c, a, t: True
NONTRIVIAL["fmt"] = lambda c, a, t: a.startswith("ok ") and len(a.split(" ")[1]) > 1


def _text_of_parse_case(case):
    return bytes.fromhex(case.split(" ")[2][1:]).decode("utf-8", "replace")


def rust_line_count(text):
    if text == "":
        return 0
    n = text.count("\n")
    return n if text.endswith("\n") else n + 1


def oracle_c04(case, impl, tag, ctx):
    """never a panic; an error is located between 1 and one past the last line; an injected
    malformed line is reported at that very line"""
    t = impl.split(" ")
    if t[0] == "panic":
        return "the parser panicked"
    if t[0] == "err":
        n = rust_line_count(_text_of_parse_case(case))
        line = int(t[2])
        if not (1 <= line <= n + 1):
            return f"error located at line {line} of a {n}-line text"
    m = re.match(r"c04 inject line=(\d+) bad=(.*)", tag)
    if m:
        if t[0] != "err" or int(t[2]) != int(m.group(1)):
            return f"malformed line {m.group(2)!r} injected at line {m.group(1)} but the parser answered {' '.join(t[:3])}"
    return None


def oracle_c14(case, impl, tag, ctx):
    """on the implementation's own output: begin/end markers properly nested with equal names; every
    located record between `begin f` and `end f` (innermost) reports file f first; its chain of
    include sites has one entry per enclosing marker"""
    if not impl.startswith("ok "):
        return None
    body = impl.split(" ;; ")[0]
    recs = body.split(" | ")[1:]
    stack = []
    root = None
    for r in recs:
        t = r.split(" ")
        if t[0] == "begin":
            stack.append(unhex_tok(t[1]))
        elif t[0] == "end":
            f = unhex_tok(t[1])
            if not stack or stack[-1] != f:
                return f"end marker {f!r} does not close the innermost open include {stack[-1] if stack else None!r}"
            stack.pop()
        elif "@" in t:
            loc = unhex_tok(t[t.index("@") + 1])
            lines = loc.split("\nat ")
            own = lines[0].rsplit(":", 1)[0]
            if stack and own != stack[-1]:
                return f"record inside include of {stack[-1]!r} reports file {own!r}"
            if len(lines) != len(stack) + 1:
                return f"location chain {lines} has {len(lines) - 1} include sites at nesting depth {len(stack)}"
            if not stack:
                if root is None:
                    root = own
                elif own != root:
                    return f"top-level record reports file {own!r}, expected {root!r}"
    if stack:
        return f"includes left open: {stack}"
    return None


def unhex_tok(tok):
    return bytes.fromhex(tok[1:]).decode("utf-8", "replace")


ORACLES = {"c14": oracle_c14, "c04": oracle_c04, "c09": oracle_c09, "c10": oracle_c10, "c11": oracle_c11, "c15": oracle_c15}

# --------------------------------------------------------------------------- known findings
def known_humantime_panic(item, k):
    # the proved model attributes the panic to Duration::new overflow inside humantime
    return item.get("impl") == "panic" and item.get("model") == "panic"


def _fmt_case_text(item):
    return bytes.fromhex(item["case"].split(" ")[1][1:]).decode("utf-8", "replace")


def rust_lines(text):
    """str::lines()"""
    parts = text.split("\n")
    last = parts.pop()
    out = [p[:-1] if p.endswith("\r") else p for p in parts]
    if last != "":
        out.append(last)
    return out


def known_stray_cr(item, k):
    # some line still ends in a carriage return after `str::lines()` (lone CR, CR CR LF, or an
    # unterminated final line ending in CR): writing it back followed by LF turns it into CRLF
    return item["case"].startswith("fmt ") and any(l.endswith("\r") for l in rust_lines(_fmt_case_text(item)))


def known_empty_sql_at_eof(item, k):
    # the last record has an empty SQL / command text: after trimming the trailing newlines the
    # formatted file ends with the bare header
    if not item["case"].startswith("fmt "):
        return False
    a = item["impl"].split(" ")
    if len(a) < 4 or a[0] != "ok" or a[2] != "err" or a[3] != "unexpectedEOF":
        return False
    fmt = bytes.fromhex(a[1][1:]).decode("utf-8", "replace")
    last = fmt.rstrip("\n").split("\n")[-1].split(" ")[0]
    return last in ("statement", "query", "system")


def known_valuewise_update(item, k):
    # value-wise result mode in force somewhere in the updated tree: the updater validates and
    # writes row-wise lines, the runner compares value-wise
    if not item["case"].startswith("update "):
        return False
    t = item["case"].split(" ")
    try:
        j = 4
        nl = int(t[j]); j += 1 + nl
        nf = int(t[j]); j += 1
        for _ in range(nf):
            if "resultmode valuewise" in bytes.fromhex(t[j + 1][1:]).decode("utf-8", "replace"):
                return True
            j += 2
    except Exception:
        return False
    return False


def _update_case_parts(item):
    """(file contents, db answer tokens) of an `update` case line"""
    t = item["case"].split(" ")
    j = 4
    nl = int(t[j]); j += 1 + nl
    nf = int(t[j]); j += 1
    files = []
    for _ in range(nf):
        files.append(bytes.fromhex(t[j + 1][1:]).decode("utf-8", "replace")); j += 2
    return files, t[j:]


NON_ASCII_WS = "\u000b\u0085\u00a0\u1680\u2000\u2001\u2002\u2003\u2004\u2005\u2006\u2007\u2008\u2009\u200a\u2028\u2029\u202f\u205f\u3000"


def known_nonascii_ws_value(item, k):
    # a value returned by the database starts or ends with white space that is not ASCII white space
    if not item["case"].startswith("update "):
        return False
    try:
        _, rest = _update_case_parts(item)
    except Exception:
        return False
    for tok in rest:
        if re.fullmatch(r"x([0-9a-f]{2})+", tok):
            v = bytes.fromhex(tok[1:]).decode("utf-8", "replace")
            if v and (v[0] in NON_ASCII_WS or v[-1] in NON_ASCII_WS):
                return True
    return False


def known_blank_value_in_row(item, k):
    # a value made of white space only inside a row of two or more columns
    if not item["case"].startswith("update "):
        return False
    try:
        _, rest = _update_case_parts(item)
    except Exception:
        return False
    i = 0
    while i < len(rest):
        if rest[i] == "rows" and i + 2 < len(rest) and rest[i + 2].isdigit():
            try:
                n = int(rest[i + 2]); j = i + 3
                for _ in range(n):
                    c = int(rest[j]); vals = rest[j + 1:j + 1 + c]; j += 1 + c
                    if c >= 2 and any(bytes.fromhex(v[1:]).decode("utf-8", "replace").strip() == "" for v in vals):
                        return True
                i = j
                continue
            except Exception:
                pass
        i += 1
    return False


def known_error_retry_no_types(item, k):
    # `query error retry N backoff D` whose query succeeds on an engine that reports no column types
    if not (item["case"].startswith("update ") or item["case"].startswith("cliupdate ")):
        return False
    try:
        files, rest = _update_case_parts(item)
    except Exception:
        return False
    has_rec = any(re.search(r"(?m)^query\s+error\s+retry\s", f) for f in files)
    no_types = any(rest[i] == "rows" and rest[i + 1] == "x" for i in range(len(rest) - 1))
    return has_rec and no_types


KNOWN_PREDICATES = {"value_with_non_ascii_edge_whitespace": known_nonascii_ws_value,
                    "blank_only_value_in_multi_column_row": known_blank_value_in_row,
                    "query_error_retry_engine_without_types": known_error_retry_no_types,
                    "valuewise_result_mode_in_updated_tree": known_valuewise_update, "stray_carriage_return": known_stray_cr, "empty_sql_at_eof": known_empty_sql_at_eof,
                    "model_predicts_humantime_overflow_panic": known_humantime_panic}
