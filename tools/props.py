"""Per-property configuration of tools/check.py."""

TRUSTED_BASE = [
    "Lean 4.33.0 kernel (thorough tier: re-checked by leanchecker)",
    "axioms at most propext, Classical.choice, Quot.sound (audited with #print axioms on every run)",
    "hand-written Lean model; tie to /repo = correspondence check on generated cases (this run)",
    "Lean compiler for the model driver `sltmodel` (affects the comparison only, not the theorems)",
    "Rust harness /verif/harness (mock AsyncDB, generators) and tools/check.py",
    "regex crate (validity / is_match supplied per case as tables computed with the real crate)",
]
COMMON_ASSUMPTIONS = [
    "the generators reach only finitely many inputs; the theorems quantify over all inputs of the model",
    "model = tree after the fix: commits recorded in known_findings.json",
]
DEFAULT_RULE = ("cases come from harness/src/gen.rs (one SplitMix64 stream seeded by VERIF_SEED, plus the "
                "exhaustive enumerations named in the profile); a case is counted in distinct_nontrivial "
                "when its case line is new AND the implementation did something observable on it "
                "(at least one database/shell/sleep event, or a failure verdict)")

PROPS = {
    "C13": {
        "runs": [{"profile": "c13", "n_quick": 20000, "n_thorough": 400000},
                 {"profile": "climulti", "kind": "cli", "n_quick": 40, "n_thorough": 400, "nontrivial": "any"},
                 {"profile": "c02", "n_quick": 3000, "n_thorough": 60000}],
        "observable": "text received by the mock AsyncDB / argv of the command given to the mock's run_command (test directory and clock canonicalised after checking their shape), verdict and error kind of records whose substitution fails; oracle on the implementation alone: one existing test directory per runner, the same for all its records, distinct between runners alive at the same time, gone after drop",
        "explanation": "texts over the documented syntax built from abstract templates: literals incl. { } : multi-byte, $NAME, ${NAME}, ${NAME:default} nested to depth 4, escapes, 10 variable names (locals, environment, unset, special, shadowed), 11 values containing $ \\ { } : ; 1/7 malformed texts (stray \\x, ${, ${}, $ at the end = the dependency's index panic, reproduced by the model); substitution switched on / off at arbitrary points; system commands (simple replacement)",
        "trusted": ["tempfile name freshness and directory removal are OS / crate behaviour: observed, not proved (partial)"],
    },
    "C16": {
        "runs": [{"profile": "cli16", "kind": "cli", "n_quick": 40, "n_thorough": 500, "nontrivial": "any"}],
        "observable": "exit status, per-file status tags on stdout, <name>-junit.xml (case names, statuses, count) of the real binary driven through --engine external with the fake engine; serial runs are diffed against the model's fold (predicted exit + result per file), every run (serial and -j 1..8) is replayed through the Lean report checker `checkReport` and the event-log monitor",
        "explanation": "sets of 1..12 files with independently chosen outcomes (pass / failing record / result mismatch / parse error / engine dying / connection refused) x serial and -j 1..8 x fail-fast on/off x per-request engine latency 0/5/20 ms",
        "assumptions": ["which interleavings tokio actually produces is not controlled (partial): schedule-dependent runs are judged by the relation, not by equality", "quick-junit XML serialisation and clap are trusted"],
    },
    "C17": {
        "runs": [{"profile": "cli17", "kind": "cli", "n_quick": 40, "n_thorough": 500, "nontrivial": "any"},
                 {"profile": "c17lib", "n_quick": 400, "n_thorough": 20000, "nontrivial": "any"}],
        "observable": "engine-side event log (one O_APPEND log written by every fake-engine process: connect / sql / eof with the database the process was started for, CREATE / DROP DATABASE on the management session), replayed through the Lean monitor `accepts`: create-before-use, unique names, exclusive use (every SQL line carries its file), $__DATABASE__ expansion, at most `jobs` databases with open sessions, close-before-drop, dropped exactly once unless kept / refused, every session closed",
        "explanation": "sets of 1..10 files (pass / fail / die / parse error, several named connections per file, `dbname $__DATABASE__` probes) x -j 1..8 x keep-on-failure on/off x latency 0/3/10/30 ms to vary interleavings",
        "assumptions": ["the interleavings explored are those the real scheduler produces under the chosen latencies (partial); the theorem covers all schedules of the driver model",
                        "library counterpart: Runner::run_parallel_async in-process against a logging AsyncDB whose every request yields to the executor a seeded pseudo-random number of times (deterministic schedules, 1..12 files incl. names that differ only in replaced characters, jobs 1..8 in turn); its log is renamed injectively into the monitor's naming scheme (database -> file by first use) and judged by the same monitor; the database name of the k-th file is compared with the model's libDbName"],
    },
    "C19": {
        "runs": [{"profile": "cli19", "kind": "cli", "n_quick": 8, "n_thorough": 60, "nontrivial": "any"}],
        "observable": "real binary, serial and -j 2/3; the fake engine sends SIGINT to the CLI when it receives its k-th request, for every k (quick: 5 sampled k per file set); fail-fast with the first failing file at every position (parallel: among the first `jobs`); engine event log + exit status + status tags + JUnit, replayed through the monitor with the cancellation anchor (signal + 250 ms slack) and judged by deterministic rules where the schedule is forced (serial: every file after the one in flight is skipped without traffic; parallel fail-fast: every file beyond the first `jobs` is skipped without traffic)",
        "explanation": "per-request latency 150 ms (Ctrl-C runs) / 60 ms (parallel fail-fast) so that cancellation is processed long before another file could complete",
        "assumptions": ["latency between signal and cancellation, the wall-clock bound (25 s per run enforced by the harness) and task abortion by tokio are runtime behaviour the model cannot exhibit (partial)"],
    },
    "C08": {
        "runs": [
            {"profile": "updatesmall", "n_quick": 0, "n_thorough": 0, "nontrivial": "update", "exhaustive": True},
            {"profile": "updatecrash", "n_quick": 250, "n_thorough": 4000, "nontrivial": "update"},
            {"profile": "cliupd", "kind": "cli", "n_quick": 25, "n_thorough": 400, "nontrivial": "update"},
            {"profile": "climulti", "kind": "cli", "n_quick": 40, "n_thorough": 400, "nontrivial": "any"},
        ],
        "observable": "for every interruption point k (scripted driver panic at its k-th request, all k of the uninterrupted run): bytes of every file of the tree at every database request (snapshots taken from inside the mock) and after the run, leftover paths, status; oracle on the implementation alone: every original file holds its old or its complete new content at every snapshot and after the interruption; completion: no crash, no debris, exactly one final newline",
        "exhaustive": True,
        "explanation": "exhaustive: 16 tiny scripts x 0..12 trailing newlines (incl. the empty file, `halt`, outputs shorter than 8 bytes) through the real updater; random include trees x every interruption point",
        "assumptions": ["OS-level atomicity / durability of rename and the effect of SIGKILL in the middle of a write to the TEMP file are outside the model (partial)", "library temp names (10 random digits) are assumed not to collide with tree files"],
    },
    "C14": {
        "runs": [{"profile": "c14", "n_quick": 1500, "n_thorough": 30000, "nontrivial": "include", "oracle": "c14"},
                 {"profile": "climulti", "kind": "cli", "n_quick": 40, "n_thorough": 400, "nontrivial": "any"}],
        "observable": "every record of parse_file with its file, line and chain of include sites (Display of Location), marker sequence | err kind + located chain; then the call trace of Runner::run_file on the tree (execution order)",
        "explanation": "random trees on disk: up to 5 first-level and 3 second-level directories whose names make string order differ from path order (a, a-b, a.b, A), 6 file names, several includes per file, patterns literal / *.s* / x? / */x.slt / ./a/../a/x.slt / ../../shared/..., ~40% patterns matching nothing, parse errors inside included files, missing root, halt",
        "trusted": ["glob crate beyond the modelled subset (literal, *, ? per component); patterns that match directories or non-UTF-8 files and include cycles crash the real parser and are outside the property (DESIGN section 8)"],
    },
    "C06": {
        "runs": [
            {"profile": "updatecorner", "n_quick": 0, "n_thorough": 0, "nontrivial": "update"},
            {"profile": "update", "n_quick": 2500, "n_thorough": 60000, "nontrivial": "update"},
            {"profile": "cliupd", "kind": "cli", "n_quick": 25, "n_thorough": 300, "nontrivial": "update"},
            {"profile": "climulti", "kind": "cli", "n_quick": 40, "n_thorough": 400, "nontrivial": "any"},
        ],
        "observable": "bytes of every file of the tree after Runner::update_test_file; oracle on the implementation alone (representable answers only): the rewritten tree parses, Runner::run_file with a fresh instance of the same scripted database returns Ok, a second update leaves every byte unchanged",
        "explanation": "random include trees with ~50% wrong expectations (see C07) + 5 corner cases at the excluded points of the theorems (values with non-ASCII edge white space, empty value, query error [retry] on an engine without column types); cases whose answers are not representable in the format (failing commands, three consecutive newlines in an error text / stdout, CR) are generated, compared with the model, and not judged by the re-run oracle",
        "assumptions": ["regex::escape soundness (is_match(escape(t), t)) is a hypothesis of update_accepts; the real crate is exercised by the re-run oracle"],
    },
    "C18": {
        "runs": [
            {"profile": "c18hash", "n_quick": 10000, "n_thorough": 200000, "nontrivial": "any"},
            {"profile": "cli18", "kind": "cli", "n_quick": 4, "n_thorough": 40, "nontrivial": "any"},
            {"profile": "c17lib", "n_quick": 300, "n_thorough": 10000, "nontrivial": "any"},
        ],
        "observable": "(a) 64-bit value of DefaultHasher::new() on a path, in-process; (b) set of files for which the real CLI prints a status line, per (N, id), in separate processes, configured by flags / SLT_PARTITION_* / Buildkite variables; oracle on the CLI alone: every file of a multi-match glob covered exactly once over all ids, identical selection on re-run, invalid configurations rejected without engine traffic",
        "exhaustive": True,
        "explanation": "per file set (2..30 + 0..10 random names, two globs so that the single-match rule is exercised): all N in 1..8 (first set; 1..4 for further sets in the quick tier) x all ids; 7 invalid / borderline option combinations",
        "trusted": ["std's SipHash-1-3 (DefaultHasher) is compared with Sip.lean, not trusted", "clap option parsing, glob crate"],
    },
    "C07": {
        "runs": [{"profile": "update", "n_quick": 2500, "n_thorough": 60000, "nontrivial": "update"},
                 {"profile": "cliupd", "kind": "cli", "n_quick": 25, "n_thorough": 300, "nontrivial": "update"},
                 {"profile": "climulti", "kind": "cli", "n_quick": 40, "n_thorough": 400, "nontrivial": "any"}],
        "observable": "bytes of every file of the tree after Runner::update_test_file (real files, include trees), database call trace; oracle on the implementation alone: parse(before) vs parse(after) agree on every field but the expectation",
        "explanation": "random include trees (root + 0..3 included files, depth <= 2, glob and literal includes) with records of all kinds, ~50% wrong expectations, halts, controls, guards, named connections, retry clauses, failing connections; both separators; strict and default column validator",
    },
    "C03": {
        "runs": [{"profile": "c03", "n_quick": 15000, "n_thorough": 300000, "nontrivial": "parse"}],
        "observable": "ok + every field of every parsed record incl. 1-based line numbers | err kind line; compared three ways: implementation = Lean parser model = the records the generator of the text intended",
        "explanation": "abstract scripts over the full grammar (every record kind, every optional clause: retry, sort mode, label, inline / multi-line / any error, stdout block, conditions, connections, controls, comments, blank and whitespace-only lines) rendered under random layouts: blanks / tabs / NBSP / EM SPACE between header words, trailing blanks, LF or CRLF, with or without final newline, last record with or without terminating blank line",
    },
    "C05": {
        "runs": [{"profile": "c05", "n_quick": 12000, "n_thorough": 250000, "nontrivial": "fmt"},
                 {"profile": "cliupd", "kind": "cli", "n_quick": 25, "n_thorough": 300, "nontrivial": "update"},
                 # what --override writes (expectations built from actual answers) must be written the way
                 # the model writes it: bytes after Runner::update_test_file
                 {"profile": "update", "n_quick": 1000, "n_thorough": 20000, "nontrivial": "update"}],
        "observable": "bytes written by Display for the parsed records (+ tail normalisation) and the records obtained by re-parsing them; metamorphic oracle on the implementation alone: parse(fmt s) ~ parse s, fmt(fmt s) = fmt s",
        "explanation": "all 18 repository fixtures; sweep of 300 duration tokens around every radix boundary of humantime's format (in sleep and in retry clauses of statement/system); random well-formed scripts under random layouts (C03 generator); line/token/byte mutations of them (parseable ones are formatted, the others counted as parse errors)",
        "assumptions": ["library level: Display + `writeln!` + tail normalisation; CLI level: `sqllogictest --format` on real file trees (bytes compared with the model's fmtFile per file, second run must change nothing)"],
    },
    "C04": {
        "runs": [
            {"profile": "c04", "n_quick": 30000, "n_thorough": 600000, "oracle": "c04", "nontrivial": "parse"},
            {"profile": "c04enum", "n_quick": 0, "n_thorough": 0, "oracle": "c04", "nontrivial": "parse", "exhaustive": True},
            {"profile": "c14", "n_quick": 600, "n_thorough": 10000, "nontrivial": "include"},
        ],
        "observable": "ok + all parsed records | err kind line | panic (catch_unwind around parse_with_name)",
        "exhaustive": True,
        "explanation": "exhaustive: every header line of <= 3 (quick) / <= 4 (thorough) tokens over a 36-token directive vocabulary + 4 / 5 tokens over a 16-token retry/statement/query vocabulary with a strict column type, each followed by one SQL line; random: valid scripts with one malformed line injected at a record boundary (catalogue of 52 malformed headers), token soups over directive fragments incl. CR, VT, NBSP, U+2028, astral characters, line/token/byte mutations of rendered valid scripts",
        "assumptions": ["scripts of fewer than 2^32 lines (`num as u32 + 1`)"],
    },
    "C01": {
        "runs": [{"profile": "c01", "n_quick": 20000, "n_thorough": 500000},
                 {"profile": "c17lib", "n_quick": 300, "n_thorough": 10000, "nontrivial": "any"},
                 {"profile": "c02", "n_quick": 3000, "n_thorough": 60000},
                 # verdicts through the CLI's engine wrapper (error texts as the CLI sees them)
                 {"profile": "climulti", "kind": "cli", "n_quick": 40, "n_thorough": 400, "nontrivial": "any"}],
        "observable": "verdict, failure kind and the reported actual/err payload of Runner::run_multi on a one-record script",
        "explanation": "random: every expectation form x answer family (exact / whitespace-relaid / value changed / line removed, added, swapped / wrong kind / wrong types) x file-level sort, result mode, threshold, strict|default column check",
    },
    "C02": {
        "runs": [{"profile": "c02", "n_quick": 6000, "n_thorough": 120000},
                 {"profile": "climulti", "kind": "cli", "n_quick": 40, "n_thorough": 400, "nontrivial": "any"},
                 {"profile": "c14", "n_quick": 600, "n_thorough": 10000, "nontrivial": "include"}],
        "observable": "ordered trace of (session, sql) / command / sleep events, result, failing line, kind and payload",
        "explanation": "random scripts of 1..12 records of all kinds, mostly passing, first failing record and halt at random positions, failing connections, local variables set while substitution is off",
    },
    "C12": {
        "runs": [{"profile": "c12", "n_quick": 6000, "n_thorough": 120000},
                 {"profile": "climulti", "kind": "cli", "n_quick": 40, "n_thorough": 400, "nontrivial": "any"},
                 {"profile": "c02", "n_quick": 3000, "n_thorough": 60000},
                 {"profile": "cli17", "kind": "cli", "n_quick": 10, "n_thorough": 100, "nontrivial": "any"},
                 # the library's parallel runner: the sessions of every file, failing ones included, are closed
                 {"profile": "c17lib", "n_quick": 300, "n_thorough": 10000, "nontrivial": "any"}],
        "observable": "MakeConnection invocations in order, session id per call (the mock answers every query with [session id, earlier calls on that session]), per-session order, multiset of sessions shut down",
        "explanation": "random scripts over connection names {default,a,A,b,c1} incl. repeated connection lines, interleaved with comments / system / guards / failing records, failing connection attempts",
    },
    "C09": {
        "runs": [{"profile": "c09", "n_quick": 300, "n_thorough": 20000, "exhaustive": True, "oracle": "c09"},
                 {"profile": "c02", "n_quick": 3000, "n_thorough": 60000},
                 # the CLI's own engine wrapper and run loop: answers that change between attempts
                 {"profile": "climulti", "kind": "cli", "n_quick": 40, "n_thorough": 400, "nontrivial": "any"}],
        "observable": "verdict + failing line + ordered trace of (session, sql) / command / sleep events",
        "exhaustive": True,
        "explanation": "exhaustive: N in 1..6 x all 2^N outcome sequences x 6 record kinds x 3 backoffs; random part: N in 7..24",
        "assumptions": ["the wait after the last failed attempt is behaviour of the code that the property neither requires nor forbids; the model has it too"],
    },
    "C10": {
        "runs": [{"profile": "c10", "n_quick": 1500, "n_thorough": 40000, "exhaustive": True, "oracle": "c10"},
                 {"profile": "climulti", "kind": "cli", "n_quick": 40, "n_thorough": 400, "nontrivial": "any"},
                 {"profile": "c02", "n_quick": 3000, "n_thorough": 60000},
                 {"profile": "c17lib", "n_quick": 300, "n_thorough": 10000, "nontrivial": "any"}],
        "observable": "verdict (+ failure kind) of the query for the permuted answer",
        "exhaustive": True,
        "explanation": "exhaustive: all permutations of 11 base result sets of <= 5 rows x 4 query-level x 4 file-level sort modes x 2 result modes (5-row sets thinned in the quick tier); random: row and value permutations of larger sets",
    },
    "C11": {
        "runs": [{"profile": "c11", "n_quick": 3000, "n_thorough": 3000, "exhaustive": True, "oracle": "c11"},
                 {"profile": "climulti", "kind": "cli", "n_quick": 40, "n_thorough": 400, "nontrivial": "any"},
                 {"profile": "c17lib", "n_quick": 300, "n_thorough": 10000, "nontrivial": "any"},
                 {"profile": "c02", "n_quick": 3000, "n_thorough": 60000}],
        "observable": "executed? (call log), verdict",
        "exhaustive": True,
        "explanation": "exhaustive: all guard lists of length <= 2 (quick) / <= 3 (thorough) over {onlyif,skipif} x 4 labels x all 16 label subsets x 3 record kinds x engine name set/empty",
    },
    "C15": {
        "runs": [{"profile": "c15", "n_quick": 6000, "n_thorough": 200000, "oracle": "c15"},
                 {"profile": "climulti", "kind": "cli", "n_quick": 40, "n_thorough": 400, "nontrivial": "any"},
                 {"profile": "c17lib", "n_quick": 300, "n_thorough": 10000, "nontrivial": "any"},
                 {"profile": "c02", "n_quick": 3000, "n_thorough": 60000}],
        "observable": "verdict against an expectation holding the reference digest computed by the harness with the md-5 crate on the reference value order",
        "trusted": ["md-5 crate as the reference MD5 (Md5.lean is compared against it through every hashed case and #guard-ed on the RFC 1321 vectors)"],
    },
    "C20": {
        "runs": [{"profile": "c20", "n_quick": 300, "n_thorough": 6000, "nontrivial": "any", "exhaustive": True},
                 # the CLI's command template (engines.rs): argv of the engine process as started by the real
                 # binary vs the model's five sequential replacements
                 {"profile": "clitmpl", "kind": "cli", "n_quick": 60, "n_thorough": 1500, "nontrivial": "any"}],
        "observable": "the real ExternalDriver (connect / run x k / shutdown) against a scripted child process that writes each reply in exactly the scripted byte chunks (flush + pause between chunks) or closes / exits after a prefix: result of every call (rows with every cell | sql error text | failure | timeout after 1.5 s), the request lines the child received byte for byte (one JSON object per line), end-of-file seen by the child after shutdown; compared with the Lean model of the request encoder, the incremental JSON scanner and the decode loop",
        "exhaustive": True,
        "explanation": "exhaustive: every single cut point (thorough: every pair of cut points) of two replies containing 2-, 3- and 4-byte characters, \\uXXXX escapes and escaped quotes, and truncation + close/exit at every byte; random: 1..5 calls, replies with random optional whitespace, optional \\u escapes incl. surrogate pairs, unknown extra members, malformed / wrong-shape replies, 0..3 random cut points per reply, SQL with quotes, backslashes, newlines, control and multi-byte characters",
        "assumptions": ["pipe delivery: each flushed chunk followed by a pause is assumed to arrive as its own read (if the kernel coalesces two chunks the result is the same by the chunking theorem)", "`promptly` is judged with a 1.5 s bound per call (runtime behaviour, partial)"],
        "trusted": ["serde_json beyond the subset exercised (numbers / literals only in ignored members)", "tokio process and codec plumbing"],
    },
}
