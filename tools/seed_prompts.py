#!/usr/bin/env python3
"""Prepare a round of seeded changes: one scratch worktree of /repo and one prompt file per property.
usage: tools/seed_prompts.py <round dir, e.g. /tmp/seed6> [focus text file] [ids...]

The prompt contains ONLY the property text (id, title, statement) and the working rules; nothing from
/verif.  A fresh sub-agent is then told to read its prompt file and to work inside its worktree."""
import json, os, subprocess, sys

ROOT = os.path.dirname(os.path.dirname(os.path.abspath(__file__)))

TEMPLATE = """You are helping to evaluate a verification effort for the Rust project sqllogictest-rs
(parser, unparser and runner for the sqllogictest .slt format, plus a CLI).  Your job is to play the
part of a developer who, with good intentions, introduces a SUBTLE REGRESSION.

Your scratch checkout (a git worktree, yours alone): {wt}
Work only inside {wt} and {out}.  Do not read or touch /verif or /repo.  Build offline:
`CARGO_NET_OFFLINE=true cargo build --offline`, tests: `cargo test --workspace --no-fail-fast --offline`
(49 tests + 1 doc-test pass on the unchanged checkout).  Set RUST_BACKTRACE=0.  There is no network.

The property that users rely on ({pid}: {title}):

  {statement}

Produce {n} DIFFERENT changes to the source code (not to its tests), each of which
  * still compiles, and the existing test suite (unedited) still passes with it;
  * breaks the property above for some input / sequence / schedule;
  * needs something SPECIFIC to manifest -- a particular interleaving, a crash or fault at a particular
    point, a multi-step sequence of operations, an unusual but legal input, a combination of two
    options or features, or two cooperating code sites that each look fine alone.  Do NOT deliver a
    change that ordinary use would expose at once;
  * looks like something a careful reviewer could approve (a refactoring, an optimisation, a
    "robustness" tweak, a small feature), not like sabotage.
{focus}
For each change k = 1..{n} create the directory {out}/{pid}_k/ containing
  * patch.diff  -- `git diff` of the change against the unchanged checkout (source files only);
  * demo/run.sh -- a script that exits 0 on the unchanged code and non-zero with the change applied.
    It takes the checkout to test from the environment variable SLT_SRC (default {wt}), builds whatever
    it needs offline (for a Rust demo: a small crate in demo/ with an empty `[workspace]` table, a path
    dependency on $SLT_SRC/sqllogictest (and/or $SLT_SRC/sqllogictest-engines), `cp $SLT_SRC/Cargo.lock .`
    first, `cargo run --offline`; generate Cargo.toml from a Cargo.toml.in if the path must vary; for a
    CLI demo build `cargo build --offline -p sqllogictest-bin` in $SLT_SRC and drive
    `$SLT_SRC/target/debug/sqllogictest --engine external --external-engine-command-template '<your fake engine> {{db}}'`;
    the external engine protocol is: the CLI writes JSON objects {{"sql": "..."}} (no newline between them) to
    the engine's stdin and reads one JSON reply per request from its stdout, {{"result": [["v", ...], ...]}} or
    {{"err": "text"}});
  * notes.md    -- first line: one sentence saying what the change breaks; then what it needs in order
    to manifest, and why the existing tests do not see it.
Verify each yourself: apply the change, run the test suite (must pass) and the demo (must fail); revert
(`git checkout -- .`), run the demo again (must pass).  Leave the worktree reverted at the end, and
delete demo build output (`target` directories) when you are done.  Report, per change, one line.
"""


def main():
    rd = sys.argv[1]
    focus = ""
    ids = []
    for a in sys.argv[2:]:
        if os.path.exists(a):
            focus = "\n" + open(a).read().strip() + "\n"
        else:
            ids.append(a)
    props = [json.loads(l) for l in open(os.path.join(ROOT, "properties.jsonl"))]
    os.makedirs(os.path.join(rd, "prompts"), exist_ok=True)
    os.makedirs(os.path.join(rd, "out"), exist_ok=True)
    for p in props:
        pid = p["id"]
        if ids and pid not in ids:
            continue
        wt = os.path.join(rd, pid)
        if not os.path.exists(wt):
            subprocess.run(["git", "-C", "/repo", "worktree", "add", "-q", "--detach", wt, "HEAD"], check=True)
        open(os.path.join(rd, "prompts", pid + ".txt"), "w").write(TEMPLATE.format(
            wt=wt, out=os.path.join(rd, "out"), pid=pid, title=p["title"], statement=p["statement"], n=3, focus=focus))
        print("prepared", pid)


if __name__ == "__main__":
    main()
