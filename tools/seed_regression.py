#!/usr/bin/env python3
"""Apply every stored seeded change in turn to a scratch worktree of /repo's HEAD, run the quick check
of its property against that worktree (SLT_REPO: /repo itself is never touched, so an interrupted run
cannot leave a patch behind), undo it, and record what the check reported.
usage: tools/seed_regression.py [ids...]   (default: all)

Writes seeded/REGRESSION.json and prints one line per seed; the worktree (/tmp/seedreg/wt) is removed at
the end.  Nothing is ever committed to /repo."""
import glob, json, os, re, subprocess, sys, time

ROOT = os.path.dirname(os.path.dirname(os.path.abspath(__file__)))
MAIN_REPO = "/repo"
# SEEDREG_LANE=k: several regressions side by side (own worktree, own harness build, own results file)
LANE = os.environ.get("SEEDREG_LANE", "")
REPO = "/tmp/seedreg/wt" + LANE


def sh(cmd, **kw):
    return subprocess.run(cmd, stdout=subprocess.PIPE, stderr=subprocess.STDOUT, text=True, **kw)


def main():
    ids = sys.argv[1:] or sorted(os.path.basename(d) for d in glob.glob(os.path.join(ROOT, "seeded", "C*_*")))
    if sh(["git", "-C", MAIN_REPO, "status", "--porcelain"]).stdout.strip():
        print("refusing to run: /repo has uncommitted changes (the worktree is taken from HEAD)")
        return 2
    if os.path.exists(REPO):
        sh(["git", "-C", MAIN_REPO, "worktree", "remove", "--force", REPO])
    os.makedirs(os.path.dirname(REPO), exist_ok=True)
    a = sh(["git", "-C", MAIN_REPO, "worktree", "add", "-q", "--detach", REPO, "HEAD"])
    if a.returncode != 0:
        print("cannot create the scratch worktree:", a.stdout)
        return 2
    out_path = os.path.join(ROOT, "seeded", "REGRESSION.json" if not LANE else f"REGRESSION.lane{LANE}.json")
    results = json.load(open(out_path)) if os.path.exists(out_path) else {}
    head = sh(["git", "-C", REPO, "rev-parse", "--short", "HEAD"]).stdout.strip()
    missed = 0
    for sid in ids:
        pid = sid.split("_")[0]
        patch = os.path.join(ROOT, "seeded", sid, "patch.diff")
        a = sh(["git", "-C", REPO, "apply", patch])
        if a.returncode != 0:
            a = sh(["git", "-C", REPO, "apply", "--3way", patch])
        conflict = sh(["git", "-C", REPO, "grep", "-l", "-E", "^(<<<<<<<|>>>>>>>) ", "--", "*.rs"]).stdout.strip()
        if a.returncode != 0 or conflict:
            sh(["git", "-C", REPO, "checkout", "--", "."])
            sh(["git", "-C", REPO, "reset", "-q"])
            results[sid] = {"repo_head": head, "applies": False, "detail": a.stdout[-400:]}
            print(f"{sid}: patch does not apply at {head}")
            continue
        t0 = time.time()
        try:
            r = sh(["python3", os.path.join(ROOT, "tools", "check.py"), pid, "--tier", "quick"], cwd=ROOT,
                   env=dict(os.environ, CARGO_NET_OFFLINE="true", SLT_REPO=REPO, SLT_ALT_TAG=LANE,
                            SLT_SCRATCH=os.path.join(ROOT, "out", "scratch" + LANE)))
        finally:
            sh(["git", "-C", REPO, "reset", "-q"])
            sh(["git", "-C", REPO, "checkout", "--", "."])
        viol = re.findall(r"^VIOLATION property=(\S+) replay=(\S+)(.*)$", r.stdout, re.M)
        summ = re.search(r"obligations=(\d+)/(\d+) cases=(\d+) distinct_nontrivial=(\d+) disagreements=(\d+) oracle_failures=(\d+)", r.stdout)
        kinds = sorted({os.path.basename(v[1]).rsplit("_", 1)[0] for v in viol})
        # a run that only reports a machinery error (e.g. the patched tree does not build) decides nothing
        caught = r.returncode == 1 and bool(viol) and kinds != ["machinery.json"]
        missed += 0 if caught else 1
        results[sid] = {
            "repo_head": head, "applies": True, "caught": caught, "exit": r.returncode,
            "violation_lines": len(viol), "replay_kinds": kinds,
            "disagreements": int(summ.group(5)) if summ else None,
            "oracle_failures": int(summ.group(6)) if summ else None,
            "proof_obligations": f"{summ.group(1)}/{summ.group(2)}" if summ else None,
            "wall_s": round(time.time() - t0, 1),
        }
        print(f"{sid}: {'CAUGHT' if caught else 'MISSED'} exit={r.returncode} {results[sid]['replay_kinds']} "
              f"disagreements={results[sid]['disagreements']} oracle_failures={results[sid]['oracle_failures']} "
              f"({results[sid]['wall_s']} s)", flush=True)
        json.dump(results, open(out_path, "w"), indent=1, sort_keys=True)
    sh(["git", "-C", MAIN_REPO, "worktree", "remove", "--force", REPO])
    if sh(["git", "-C", MAIN_REPO, "status", "--porcelain"]).stdout.strip():
        print("WARNING: /repo is not clean after the run")
    print(f"missed: {missed}")
    return 1 if missed else 0


if __name__ == "__main__":
    sys.exit(main())
