#!/bin/bash
# usage: tools/seed_round.sh <round dir (e.g. /tmp/seed6)> <seed id> [<seed id> ...]
# For each delivered seed <round>/out/<id>/: confirm it in a scratch worktree (suite passes with the
# patch, demo fails with it and passes without), then run the quick check of its property against that
# worktree WITH the patch applied (SLT_REPO: /repo itself is never touched) and print CAUGHT / MISSED.
set -u
rd="$1"; shift
# SEED_LANE=k: several batches side by side (own confirm worktree, own harness build and output directory)
lane="${SEED_LANE:-}"
wt="$rd/confirm$lane"
export CARGO_NET_OFFLINE=true RUST_BACKTRACE=0
[ -d "$wt" ] || git -C /repo worktree add -q --detach "$wt" HEAD
for id in "$@"; do
  seed="$rd/out/$id"; pid="${id%%_*}"
  echo "=== $id"
  if [ ! -f "$seed/patch.diff" ] || [ ! -f "$seed/demo/run.sh" ]; then echo "RESULT incomplete-delivery"; continue; fi
  res=$(CONFIRM_TAG="$lane" bash /verif/tools/confirm_seed.sh "$seed" "$wt" 2>&1); echo "$res"
  if ! echo "$res" | grep -q "RESULT confirmed"; then continue; fi
  ( cd "$wt" && git checkout -q -- . && git apply "$seed/patch.diff" )
  out=$(cd /verif && SLT_REPO="$wt" SLT_ALT_TAG="$lane" python3 tools/check.py "$pid" --tier quick 2>&1 | grep -E "VIOLATION|ERROR|^\[" | cut -c1-300)
  ( cd "$wt" && git checkout -q -- . )
  echo "$out"
  if echo "$out" | grep -q "^VIOLATION" && ! echo "$out" | grep -q "machinery"; then echo "TRIAL $id CAUGHT"; else echo "TRIAL $id MISSED"; fi
done
