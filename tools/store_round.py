#!/usr/bin/env python3
"""Store the confirmed seeds of a round: tools/store_round.py <round dir> <trial log> [<trial log> ...]
For every `=== <id>` block of the logs written by tools/seed_round.sh whose confirmation succeeded, copy
<round>/out/<id>/ to seeded/<property>_<next free number>/ (patch.diff, demo/, notes.md) and write
meta.json (property, what it breaks, what it needs, what was run, first trial result)."""
import json, os, re, shutil, sys

ROOT = os.path.dirname(os.path.dirname(os.path.abspath(__file__)))


def main():
    rd = sys.argv[1]
    blocks = {}
    for log in sys.argv[2:]:
        for m in re.finditer(r"=== (\S+)\n(.*?)(?=\n=== |\Z)", open(log).read(), re.S):
            blocks[m.group(1)] = m.group(2).strip().split("\n")
    head = os.popen("git -C /repo rev-parse HEAD").read().strip()
    mapping = {}
    for sid in sorted(blocks):
        lines = blocks[sid]
        if not any("RESULT confirmed" in l for l in lines):
            print(sid, "not confirmed: skipped")
            continue
        pid = sid.split("_")[0]
        src = os.path.join(rd, "out", sid)
        n = 1
        while os.path.exists(os.path.join(ROOT, "seeded", f"{pid}_{n}")):
            n += 1
        dst = os.path.join(ROOT, "seeded", f"{pid}_{n}")
        os.makedirs(dst)
        shutil.copy(os.path.join(src, "patch.diff"), dst)
        shutil.copytree(os.path.join(src, "demo"), os.path.join(dst, "demo"),
                        ignore=shutil.ignore_patterns("target", "Cargo.lock", "__pycache__"))
        notes = ""
        if os.path.exists(os.path.join(src, "notes.md")):
            shutil.copy(os.path.join(src, "notes.md"), dst)
            notes = open(os.path.join(src, "notes.md")).read()
        first = [l.strip() for l in notes.split("\n") if l.strip() and not l.startswith("#")]
        trial = next((l for l in lines if l.startswith("TRIAL")), "")
        meta = {
            "property": pid,
            "round": os.path.basename(rd.rstrip("/")),
            "breaks": (first[0] if first else "")[:700],
            "needs_to_manifest": "see notes.md (written by the sub-agent that produced the change from the property text alone)",
            "produced_by": "fresh sub-agent given only the property text and a scratch worktree of /repo (tools/seed_prompts.py)",
            "confirmed_by_me": {
                "how": "tools/seed_round.sh -> tools/confirm_seed.sh in a scratch worktree: git apply; cargo test --workspace --no-fail-fast --offline; demo/run.sh with and without the patch",
                "log": [l for l in lines if l.startswith(("suite with patch", "demo exit", "RESULT"))],
            },
            "base_commit": head,
            "first_trial": "caught" if "CAUGHT" in trial else "missed",
            "first_trial_output": [l for l in lines if l.startswith(("VIOLATION", "[", "ERROR"))][:6],
        }
        json.dump(meta, open(os.path.join(dst, "meta.json"), "w"), indent=1)
        mapping[sid] = f"{pid}_{n}"
        print("stored", sid, "->", f"{pid}_{n}", meta["first_trial"])
    json.dump(mapping, open(os.path.join(rd, "stored_as.json"), "w"), indent=1)


if __name__ == "__main__":
    main()
