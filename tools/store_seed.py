#!/usr/bin/env python3
"""store a confirmed seeded defect: tools/store_seed.py <src seed dir> <property> <n> <caught_by text>"""
import json, os, shutil, sys, re
src, pid, n, caught = sys.argv[1], sys.argv[2], sys.argv[3], sys.argv[4]
dst = f"/verif/seeded/{pid}_{n}"
if os.path.exists(dst):
    shutil.rmtree(dst)
os.makedirs(dst)
shutil.copy(f"{src}/patch.diff", dst)
shutil.copytree(f"{src}/demo", f"{dst}/demo", ignore=shutil.ignore_patterns("target", "Cargo.lock"))
notes = open(f"{src}/notes.md").read() if os.path.exists(f"{src}/notes.md") else ""
shutil.copy(f"{src}/notes.md", dst) if notes else None
first = [l for l in notes.split("\n") if l.strip() and not l.startswith("#")]
log = open("/tmp/confirm5.log" if src.startswith("/tmp/seed5/") else "/tmp/confirm4.log" if src.startswith("/tmp/seed4/") else "/tmp/confirm3.log" if src.startswith("/tmp/seed3/") else ("/tmp/confirm2.log" if src.startswith("/tmp/seed2/") else "/tmp/confirm.log")).read()
m = re.search(r"=== " + re.escape(re.sub(r"^/tmp/seed[2345]?/", "", src)) + r"\n(.*?)(?:\n===|\Z)", log, re.S)
meta = {
    "property": pid,
    "breaks": (first[0] if first else "")[:600],
    "needs_to_manifest": "see notes.md (written by the sub-agent that produced the change from the property text alone)",
    "produced_by": "fresh sub-agent given only the property text and a scratch worktree of /repo",
    "confirmed_by_me": {
        "how": "tools/confirm_seed.sh in a scratch worktree: git apply; cargo test --workspace --no-fail-fast --offline; demo/run.sh with and without the patch",
        "log": m.group(1).strip().split("\n") if m else [],
    },
    "base_commit": os.popen("git -C /repo rev-parse HEAD").read().strip(),
    "caught_by": caught,
}
json.dump(meta, open(f"{dst}/meta.json", "w"), indent=1)
print("stored", dst)
