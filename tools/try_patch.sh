#!/bin/bash
# usage: tools/try_patch.sh <patch.diff> <Cxx> [<Cxx> ...]   — applies a patch to /repo, runs the quick
# checks, reverts the patch. Never leaves /repo modified.
set -u
patch="$1"; shift
cd /repo || exit 2
if ! git diff --quiet; then echo "/repo is dirty, refusing"; exit 2; fi
git apply "$patch" || { echo "patch does not apply"; exit 2; }
trap 'git -C /repo checkout -- . ' EXIT
cd /verif
for p in "$@"; do
  python3 tools/check.py "$p" 2>&1 | grep -E "VIOLATION|KNOWN|ERROR|^\[" | cut -c1-400
done
